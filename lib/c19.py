"""C19 — a full SCAN / HSCAN / SSCAN / ZSCAN iteration returns every element present throughout it.

Deciding artefact: lean/FerrousSpec/Props/C19.lean (soundness, progress, termination bound,
completeness under "no key ranked below the cursor disappears", the witness that the full statement
is false for a rank cursor, additions only duplicate, glob laws) about `Ferrous.Scan.Code.*`
(lean/FerrousSpec/Model/Scan.lean), a transliteration of engine.rs:2165-2447 / 2626-2711 and of
commands/scan.rs.  This module ties that model to the real `StorageEngine` and `handle_*scan`
(in-process, harness/src/bin/impl_scan.rs) call by call, and evaluates the property's own oracle
(soundness, completeness, termination) on the implementation's answers.

An iteration is described by a JSON-serialisable dict (`desc`), so every failure replays exactly:
  kind      "keys" | "h" | "s" | "z"
  count     COUNT argument
  pattern   hex | None        MATCH
  type      hex | None        TYPE (kind "keys" only)
  novalues  bool              (kind "h" only)
  via_cmd   bool              go through handle_*scan (option parsing) instead of the engine call
  initial   [[name_hex, aux]] aux = type name | value hex | "-" | score
  steps     [[["add", name_hex, aux] | ["del", name_hex], ...], ...]   batch i is applied after call i
"""
import itertools

from common import *

PENDING_FINDINGS = os.path.join(VERIF, "pending_repo_patches", "C19_findings.json")
TYPES = ["string", "list", "set", "hash", "zset", "stream"]
COUNTS = list(range(1, 13)) + [100, 1000, 5000]
MAX_CALLS = 2000


def findings():
    fs = [f for f in load_known_findings().get("open", []) if isinstance(f, dict) and f.get("property") == "C19"]
    have = {f["id"] for f in fs}
    if os.path.exists(PENDING_FINDINGS):
        for f in json.load(open(PENDING_FINDINGS)):
            if f.get("property") == "C19" and f["id"] not in have:
                fs.append(f)
    ign = os.environ.get("VERIF_C19_IGNORE_FINDINGS")    # self-test of the violation path only: "all" or ids
    if ign:
        fs = [] if ign == "all" else [f for f in fs if f["id"] not in ign.split(",")]
    return fs


def scan_cfg():
    """The loop constants and switches as the translator extracted them:
    ((default, cap, factor, lossy, slot cursor, TYPE value lower-cased), recognised?).
    When the source is no longer recognised the last known constants are used for the search."""
    src = open(os.path.join(LEAN, "FerrousSpec", "Gen", "ScanConsts.lean")).read()
    m = re.search(r"def scanCfg : Ferrous\.Scan\.Cfg := ⟨(\d+), (\d+), (\d+), (true|false), (true|false), (true|false)⟩", src)
    if m:
        return tuple([int(m.group(i)) for i in (1, 2, 3)] + [1 if m.group(i) == "true" else 0 for i in (4, 5, 6)]), True
    return (10, 1000, 10, 0, 1, 1), False


def type_spellings(r, t):
    """the same type name in lower, upper, capitalised and randomly mixed case"""
    return [t, t.upper(), t.capitalize(), "".join(ch.upper() if r.chance(1, 2) else ch for ch in t), t[:-1] + t[-1].upper()]


UNKNOWN_TYPES = [b"foo", b"strin", b"strings", b"", b"str\xff", b"none", b" string", b"string ", b"z\xc5\xbfet"]


# Pairs of names with the same scan_slot (FNV-1a 64 >> 11), found once by a birthday search over 2^29 eight-character
# names: what the slot cursor needs to exercise "a page never ends inside a group of equal slots" on the real code.
SLOT_COLLISIONS = [(a.encode(), b.encode()) for a, b in [
    ('q103igmi', 'sgg3ah1b'), ('cvzyrgf4', '5e1hby03'), ('ovoyddyz', 'k4voe4dj'), ('hrkxiux1', '5q0amip1'), ('w0qjleai', 'hpm45b1h'),
    ('wyopjidm', '0d0ivete'), ('2pjwkovp', 'qumvosvp'), ('hpiajdin', '5sbxnxqf'), ('qjoqinpg', '2gjnuzxo'), ('twftczm2', 'q1tfqh3i'),
    ('2xgfmhjs', 'qmbqitrs'), ('zlbt3gf1', '4gshh1q4'), ('13iblpv0', 'vgodzof5'), ('hphqeuvq', '5senyyfq'), ('qtxdrthj', '3e2x1y3n'),
    ('hyjphifn', '5zqytevv'), ('lrsjfytj', 'h4ipchh5'), ('v1qb3ypt', '5x1jgaka'), ('pe2zdbhw', '4uvb33p1'), ('n4dfe3wk', '4nmijpmx'),
    ('5gzyjoav', 'hlapvcyn'), ('rsbskdin', 'o31offri')]]


def scan_slot(name):
    """`scan_slot` of engine.rs: FNV-1a 64 of the name, cut to 53 bits"""
    return fnv1a(name) >> 11


def norm_count(count, cfg=(10, 1000, 10, 0, 1, 1)):
    return min(count if count != 0 else cfg[0], cfg[1])


# ------------------------------------------------------------------ reference glob (cross-check of Spec)
def ref_glob(p, s):
    """Port of Redis `stringmatchlen` (util.c, case-sensitive) over bytes, every pattern: an independent
    cross-check of Lean's Spec.matchBytes.  `pi` / `si` play the pattern / string pointers."""
    if not s:
        # Redis's function returns 0 for the empty string against `*` (its callers shortcut that pattern);
        # glob semantics, and the Spec, say that a run of `*` matches the empty string
        return all(c == 0x2A for c in p)
    pi, si = 0, 0
    plen, slen = len(p), len(s)
    while plen - pi > 0 and slen - si > 0:
        c = p[pi]
        if c == 0x2A:                                   # '*'
            while plen - pi > 1 and p[pi + 1] == 0x2A:
                pi += 1
            if plen - pi == 1:
                return True
            while slen - si > 0:
                if ref_glob(p[pi + 1:], s[si:]):
                    return True
                si += 1
            return False
        elif c == 0x3F:                                 # '?'
            si += 1
        elif c == 0x5B:                                 # '['
            pi += 1
            neg = plen - pi > 0 and p[pi] == 0x5E
            if neg:
                pi += 1
            match = False
            while True:
                if plen - pi >= 2 and p[pi] == 0x5C:
                    pi += 1
                    if p[pi] == s[si]:
                        match = True
                elif plen - pi == 0:
                    pi -= 1
                    break
                elif p[pi] == 0x5D:
                    break
                elif plen - pi >= 3 and p[pi + 1] == 0x2D:
                    start, end = p[pi], p[pi + 2]
                    if start > end:
                        start, end = end, start
                    pi += 2
                    if start <= s[si] <= end:
                        match = True
                else:
                    if p[pi] == s[si]:
                        match = True
                pi += 1
            if neg:
                match = not match
            if not match:
                return False
            si += 1
        else:
            if c == 0x5C and plen - pi >= 2:            # '\\'
                pi += 1
            if p[pi] != s[si]:
                return False
            si += 1
        pi += 1
        if slen - si == 0:
            while plen - pi > 0 and p[pi] == 0x2A:
                pi += 1
            break
    return plen - pi == 0 and slen - si == 0


# ------------------------------------------------------------------ generators
ALPHA = b"abcxyz01:_"
NAME_POOL = [b"", b"a", b"b", b"c", b"ab", b"abc", b"b1", b"user:1", b"user:2", b"user:10", b"x_y", b"z", b"zz",
             b"[", b"]", b"a*", b"?", b"\\", b"a-c", b"^", b"*",
             "é".encode(), "日本".encode(), "añb".encode(), "€1".encode(), "😀".encode(),
             b"\xff", b"\xfe", b"a\x80", b"\xc3", b"\xe2\x82", b"\xf0\x9f\x98", b"\xed\xa0\x80", b"\xc0\xaf", b"a\xffb", b"a\xfeb"]


def gen_name(r):
    k = r.below(10)
    if k < 3:
        return r.choice(NAME_POOL)
    if k < 8:
        return bytes(r.choice(ALPHA) for _ in range(r.range(1, 4)))
    if k == 8:
        return b"user:" + str(r.below(40)).encode()
    return r.bytes(r.range(1, 3))


def gen_names(r, n):
    out = []
    seen = set()
    tries = 0
    while len(out) < n and tries < 50 * (n + 1):
        tries += 1
        k = gen_name(r)
        if k not in seen:
            seen.add(k)
            out.append(k)
    return out


def gen_class(r, wellformed=True):
    body = b""
    if r.chance(1, 4):
        body += b"^"
    for _ in range(r.range(0 if not wellformed else 1, 3)):
        if r.chance(1, 3):
            lo, hi = sorted([r.choice(ALPHA), r.choice(ALPHA)])
            body += bytes([lo, 0x2D, hi])
        else:
            body += bytes([r.choice(ALPHA + b"*?[^-")])
    return b"[" + body + b"]"


QUIRKY = [b"[", b"[abc", b"a[", b"\\", b"a\\", b"[z-a]", b"[\\]]", b"[\\a]", b"[a-]", b"[]", b"[^]", b"[]a]", b"[^", b"[a-\\]",
          b"*[", b"[[]", b"[a-c-e]", b"[-a]", b"[--0]", b"**", b"*?*", b"?*?", b"\\*", b"\\?", b"\\[", b"\\\\",
          b"\xff", b"\xfe", b"?\x80", b"[\xc3\xa9]", "é".encode(), b"\xc3", "[à-ü]".encode(), "?".encode() * 2, b"*\xff*"]


def gen_pattern(r, names):
    k = r.below(12)
    if k == 0:
        return r.choice([b"*", b"", b"?", b"??", b"???", b"a*", b"*a", b"*a*", b"user:*", b"user:?", b"user:1*", b"*:*", b"[a-c]*", b"*[0-9]"])
    if k == 1:
        return r.choice(QUIRKY)
    if k <= 7 and names:
        # derived from an existing name so that it often matches
        base = r.choice(names)
        out = b""
        i = 0
        while i < len(base):
            c = base[i:i + 1]
            j = r.below(12)
            if j == 0:
                out += b"?"
            elif j == 1:
                out += b"*"
                i += r.below(3)
            elif j == 2 and c[0] < 0x80:
                out += b"[" + c + bytes([r.choice(ALPHA)]) + b"]"
            elif j == 3 and 0x21 <= c[0] < 0x7F:
                out += b"[" + bytes([c[0] - 1]) + b"-" + bytes([c[0] + 1]) + b"]"
            elif j == 4:
                out += b"\\" + c
            elif j == 5 and c[0] < 0x80:
                out += b"[^" + bytes([r.choice(ALPHA)]) + b"]"
            elif c in (b"*", b"?", b"[", b"\\") and r.chance(2, 3):
                out += b"\\" + c
            else:
                out += c
            i += 1
        if r.chance(1, 6):
            out += b"*"
        return out
    # free-form from the token grammar
    out = b""
    for _ in range(r.range(1, 4)):
        j = r.below(9)
        if j < 3:
            out += bytes([r.choice(ALPHA)])
        elif j == 3:
            out += b"*"
        elif j == 4:
            out += b"?"
        elif j == 5:
            out += gen_class(r)
        elif j == 6:
            out += b"\\" + bytes([r.choice(ALPHA + b"*?[]\\")])
        elif j == 7:
            out += r.choice(["é".encode(), b"\xff", b"\x80", "日".encode()])
        else:
            out += gen_class(r, wellformed=False)
    return out


# ---- literal * literal families: what a backtracking matcher must get right -------------------------
STAR_ALPHA = [b"ab", b"ab:", b"abX", b"ax:", b"se:si"]


def overlap_segments(r, k):
    """k literal segments; each following one begins with a non-empty suffix of its predecessor, so the
    text after a `*` can be found inside text that the literal before the `*` has already consumed.
    Returns [(segment, overlap length with the previous segment)]."""
    alpha = r.choice(STAR_ALPHA)
    u = bytes(r.choice(alpha) for _ in range(r.range(1, 4)))
    segs = [(u, 0)]
    for _ in range(k - 1):
        prev = segs[-1][0]
        o = r.range(1, len(prev)) if r.chance(5, 6) else 0
        v = (prev[len(prev) - o:] if o else b"") + bytes(r.choice(alpha) for _ in range(r.range(0 if o else 1, 2)))
        segs.append((v, o))
    return segs, alpha


def vary_literal(r, seg):
    """a literal segment with some characters replaced by `?`, a class, a range, a negated class, an escape"""
    out = b""
    for c in seg:
        j = r.below(10)
        ch = bytes([c])
        if j == 0:
            out += b"?"
        elif j == 1:
            out += b"[" + ch + b"q]"
        elif j == 2 and 0x30 <= c < 0x7A:
            out += b"[" + bytes([c - 1]) + b"-" + bytes([c + 1]) + b"]"
        elif j == 3:
            out += b"[^q]"
        elif j == 4:
            out += b"\\" + ch
        else:
            out += ch
    return out


def gen_star_family(r):
    """Patterns u*v (u*v*w, *u*v, u*v*, star runs, ? and classes mixed in) over overlapping literals, and the
    names that separate a correct matcher from one that backtracks into consumed text:
    merged (u·v with the overlap written once: too short), exact (u·v), padded (u·x·v), and shortenings."""
    k = r.choice([2, 2, 2, 3])
    segs, alpha = overlap_segments(r, k)
    lits = [sg for sg, _ in segs]
    pats = []
    for _ in range(r.range(2, 4)):
        parts = [vary_literal(r, sg) if r.chance(1, 2) else sg for sg in lits]
        star = lambda: r.choice([b"*", b"*", b"*", b"**", b"*?*", b"***", b"?*"])
        body = parts[0]
        for q in parts[1:]:
            body += star() + q
        lead = r.below(6)
        if lead == 0:
            body = b"*" + body
        elif lead == 1:
            body = body + b"*"
        elif lead == 2:
            body = b"*" + body + b"*"
        pats.append(body)
    pats.append(b"*".join(lits))
    merged = lits[0]
    for sg, o in segs[1:]:
        merged += sg[o:]
    exact = b"".join(lits)
    names = {"merged": [merged], "exact": [exact], "padded": [], "short": [], "other": []}
    for _ in range(2):
        x = bytes(r.choice(alpha) for _ in range(r.range(1, 2)))
        names["padded"].append(x.join(lits))
        names["padded"].append(lits[0] + x + b"".join(lits[1:]))
    # shortenings: one or two characters removed, truncations, single segments
    for base in (merged, exact):
        for _ in range(3):
            if len(base) >= 1:
                i = r.below(len(base))
                names["short"].append(base[:i] + base[i + 1:])
        if len(base) >= 2:
            names["short"].append(base[:len(base) - 1])
            names["short"].append(base[1:])
    names["short"] += lits
    names["other"] += [merged + bytes([r.choice(alpha)]), bytes([r.choice(alpha)]) + merged, lits[0] + exact, exact + lits[-1], b""]
    if len(lits) == 3:
        # only one of the two overlaps merged
        names["merged"].append(lits[0] + lits[1][segs[1][1]:] + lits[2])
        names["merged"].append(lits[0] + lits[1] + lits[2][segs[2][1]:])
    return pats, names


def expand_pattern(p):
    """A shortest text the pattern is meant to match (every `*` empty, `?` -> 'a', a class -> one member);
    tolerant of malformed patterns.  Returns the text and the number of one-character tokens."""
    out = b""
    i = 0
    while i < len(p):
        c = p[i]
        if c == 0x2A:
            i += 1
        elif c == 0x3F:
            out += b"a"
            i += 1
        elif c == 0x5C and i + 1 < len(p):
            out += p[i + 1:i + 2]
            i += 2
        elif c == 0x5B and p.find(b"]", i + 1) > 0:
            j = p.find(b"]", i + 1)
            body = p[i + 1:j]
            if body[:1] == b"^":
                out += b"q" if b"q" not in body else b"~"
            elif len(body) >= 3 and body[1:2] == b"-":
                out += body[0:1]
            else:
                out += body[:1] if body else b""
            i = j + 1
        else:
            out += p[i:i + 1]
            i += 1
    return out


def shortenings(r, text, n):
    """`text` with one or two characters removed / cut off: names shorter than the pattern's literal part"""
    out = []
    for _ in range(n):
        if not text:
            break
        t = text
        for _ in range(r.range(1, 2)):
            if t:
                i = r.below(len(t))
                t = t[:i] + t[i + 1:]
        out.append(t)
    if len(text) >= 2:
        out += [text[:-1], text[1:]]
    return out


import struct
import sys as _sys


def f64_bits(x):
    return struct.unpack(">Q", struct.pack(">d", x))[0]


def bits_f64(b):
    return struct.unpack(">d", struct.pack(">Q", b))[0]


def canon_bits(b):
    """the sign of zero is not compared"""
    return 0 if b == 0x8000000000000000 else b


# sorted-set scores by class: ZSCAN's view is the member set, whatever the scores
SCORE_CLASSES = {
    "+inf": [float("inf")], "-inf": [float("-inf")], "+0": [0.0], "-0": [-0.0],
    "denormal": [5e-324, -5e-324, 2.2250738585072009e-308], "max-finite": [_sys.float_info.max, -_sys.float_info.max],
    "small-int": [float(i) for i in range(-5, 6)], "fraction": [0.1, -2.5, 1e-7, 3.141592653589793],
    "large": [9007199254740992.0, -9007199254740993.0, 1e300, -1e300, 1.5e19],
}
SCORE_REGIMES = ["mixed", "mixed", "mixed", "all-equal", "only-infinite", "only+inf", "zeros-and-infinities", "finite"]
VALUE_SIZES = [0, 0, 1, 1, 2, 7, 63, 64, 255, 256, 1000, 4096, 70000]
KEY_STATES = ["plain"] * 7 + ["ttl"] * 2 + ["expired"]


def gen_score(r, regime, fixed):
    """(class, bits) of one score under a set regime"""
    if regime == "all-equal":
        return fixed
    if regime == "only-infinite":
        cls = r.choice(["+inf", "-inf"])
    elif regime == "only+inf":
        cls = "+inf"
    elif regime == "zeros-and-infinities":
        cls = r.choice(["+inf", "-inf", "+0", "-0"])
    elif regime == "finite":
        cls = r.choice(["small-int", "fraction", "large", "denormal", "max-finite", "+0"])
    else:
        cls = r.choice(list(SCORE_CLASSES))
    return cls, f64_bits(r.choice(SCORE_CLASSES[cls]))


def gen_value(r):
    n = r.choice(VALUE_SIZES)
    if n == 0:
        return b""
    if n <= 7:
        return r.bytes(n)
    return bytes([r.below(256)]) * (n - 2) + b"\r\n"


def aux_for(r, kind, ctx=None):
    """what an element is created with: the type (+ttl / +expired) of a key, a hash value, a score (decimal of its bits)"""
    ctx = ctx or {}
    if kind == "keys":
        t = r.choice(ctx.get("pool", TYPES))
        st = r.choice(KEY_STATES) if ctx.get("states") else "plain"
        return t if st == "plain" else t + "+" + st
    if kind == "h":
        return hx(gen_value(r)) if ctx.get("sizes") else hx(r.choice([b"v", b"", b"val\xff", b"1"]))
    if kind == "s":
        return "-"
    cls, bits = gen_score(r, ctx.get("regime", "mixed"), ctx.get("fixed"))
    return str(bits)


def gen_desc(r, count, regime):
    kind = "keys" if r.chance(11, 20) else r.choice(["h", "s", "z"])
    n = r.choice([0, 1, 2, 3, 5, 8, 12, 20, 30, 45, 60]) if r.chance(2, 3) else r.range(0, 60)
    names = gen_names(r, n)
    pat = gen_pattern(r, names) if r.chance(3, 5) else None
    if r.chance(1, 6):
        # MATCH over a literal*literal family: the names that tell a correct backtracking matcher from a wrong one
        pats, fam = gen_star_family(r)
        pat = r.choice(pats)
        for k in [x for xs in fam.values() for x in xs] + shortenings(r, expand_pattern(pat), 3):
            if k not in names and len(names) < 60:
                names.append(k)
    collide = []
    if r.chance(1, 6):
        # names with equal scan slots: a page of the slot cursor must not end between them
        for a, b in [r.choice(SLOT_COLLISIONS) for _ in range(r.range(1, 3))]:
            collide += [a, b]
            for k in (a, b):
                if k not in names and len(names) < 60 and r.chance(3, 4):
                    names.append(k)
        if pat is not None and r.chance(1, 2):
            pat = r.choice([None, b"*", b"?" * 8, collide[0][:2] + b"*"])
    ty = None
    type_class = None
    if kind == "keys" and r.chance(2, 5):
        base_t = r.choice(TYPES)
        k3 = r.below(10)
        if k3 < 5:
            ty, type_class = base_t.encode(), "lower"
        elif k3 < 9:
            ty = r.choice(type_spellings(r, base_t)[1:]).encode()
            type_class = "lower" if ty.decode() == base_t else "other-case"
        else:
            ty, type_class = r.choice(UNKNOWN_TYPES), "unknown"
    # with a TYPE filter draw the types from two kinds so that the view is not tiny
    tl = ty.decode("latin1").lower() if ty is not None else None
    pool = TYPES if tl not in TYPES else [tl, tl, r.choice(TYPES)]
    regime_z = r.choice(SCORE_REGIMES)
    ctx = {"pool": pool, "states": r.chance(1, 3), "sizes": r.chance(1, 3), "regime": regime_z,
           "fixed": gen_score(r, "mixed", None)}
    if kind != "keys" and r.chance(1, 3):
        # extreme names: the empty name and binary names among the fields / members
        for k in [b"", b"\x00", b"\x00\x00", b"\r\n", b"\xff\xfe", b" ", b"a\x00b"]:
            if k not in names and r.chance(1, 2) and len(names) < 60:
                names.append(k)
    initial = [[hx(k), aux_for(r, kind, ctx)] for k in names]
    # stable elements are never touched by the mutation batches
    stable = set(k for k in names if r.chance(1, 2))
    volatile = [k for k in names if k not in stable]
    extra = [k for k in gen_names(r, r.range(2, 25)) + collide if k not in stable and k not in names]
    steps = []
    present = set(volatile)
    nsteps = 0 if regime == "fixed" else r.choice([1, 2, 3, 5, 8, 12])
    for _ in range(nsteps):
        batch = []
        for _ in range(r.range(0, 5)):
            do_add = {"adds": True, "dels": False}.get(regime, r.chance(1, 2))
            if do_add:
                cand = [k for k in extra + volatile if k not in present] or extra
                if not cand:
                    continue
                k = r.choice(cand)
                batch.append(["add", hx(k), aux_for(r, kind, ctx)])
                present.add(k)
            elif present:
                k = r.choice(sorted(present))
                batch.append(["del", hx(k)])
                present.discard(k)
        steps.append(batch)
    return {"kind": kind, "count": count, "pattern": hx(pat) if pat is not None else None,
            "type": hx(ty) if ty is not None else None, "novalues": kind == "h" and r.chance(1, 3),
            # a spelling other than the canonical lower-case name only has a meaning for the command (handle_scan), not for the engine call
            "via_cmd": True if type_class == "other-case" else r.chance(1, 4), "initial": initial, "steps": steps,
            "score_regime": regime_z if kind == "z" else None, "type_class": type_class}


def rand_case(r, s):
    return "".join(c.upper() if r.chance(1, 2) else c.lower() for c in s)


# ------------------------------------------------------------------ the check
class C19:
    def __init__(self, rep):
        self.rep = rep
        self.impl = LineProc([os.environ.get("VERIF_C19_IMPL", os.path.join(IMPL_BIN, "impl_scan"))], "impl-scan")
        self.model = lean_driver("scan")
        self.cfg = scan_cfg()
        self.slot = bool(self.cfg[0][4])          # cursor scheme of the tree: slot (True) or rank (False)
        if self.model.ask("cfg %d %d %d %d %d %d" % self.cfg[0]) != "ok":
            raise InternalError("Lean driver refused the scan constants")
        self.findings = findings()
        self.oracle_failures = []     # (shape, what, desc, detail)
        self.disagreements = []
        self.glob_cache = {}
        self.deviations = {}          # class -> example (observations, not violations)
        self.calls = 0

    def close(self):
        self.impl.close()
        self.model.close()

    def both(self, line):
        a = self.impl.ask(line)
        b = self.model.ask(line)
        if b is None:
            raise InternalError("Lean driver died on: " + line)
        if a is None:
            a = "abort"
        return a, b

    def setup(self, line):
        a, b = self.both(line)
        if a != b:
            self.disagreements.append({"op": line, "impl": a, "code": b})
        return a

    # -- MATCH verdicts: (impl, code, spec) for one (pattern, name) ----------------
    def glob(self, pat, name, record=True):
        key = (pat, name)
        if key in self.glob_cache:
            return self.glob_cache[key]
        line = "glob %s %s" % (hx(pat), hx(name))
        a, b = self.both(line)
        code, spec = b.split(" ")
        self.rep.evaluations += 1
        if a != code:
            self.disagreements.append({"op": line, "impl": a, "code": b})
        specv = None if spec == "x" else spec == "1"
        if specv is not None and ref_glob(pat, name) != specv:
            raise InternalError("Spec.matchBytes disagrees with the reference glob on %s / %s" % (hx(pat), hx(name)))
        implv = a == "1"
        if a not in ("0", "1"):
            self.oracle_failures.append(("total", "matcher failed: " + a, None, {"op": line, "impl": a}))
        res = (implv, code == "1", specv)
        self.glob_cache[key] = res
        if record:
            cls = "agree" if specv is None or specv == implv else ("non-ascii" if any(c >= 0x80 for c in pat + name) else "ascii")
            self.rep.count("glob." + ("no-spec-verdict" if specv is None else cls))
        return res

    def wants(self, pat, name):
        """Does the MATCH filter prescribe `name`?  Spec.matchBytes (Redis's glob over bytes; every pattern has a meaning)."""
        if pat is None:
            return True
        implv, codev, specv = self.glob(pat, name)
        return codev if specv is None else specv

    def match_shape(self, pat, name, default):
        """Shape of a MATCH-related oracle failure: the listed finding only when the deviation is the modelled one
        (a byte >= 0x80 is involved and the code model gives the implementation's verdict, not the spec's)."""
        implv, codev, specv = self.glob(pat, name)
        if any(c >= 0x80 for c in pat + name) and specv is not None and implv == codev and codev != specv:
            return "match-non-ascii"
        return default

    # -- one iteration -----------------------------------------------------------
    def apply(self, kind, op, truth):
        rep = self.rep
        if op[0] == "add":
            name, aux = unhx(op[1]), op[2]
            state = "plain"
            if kind == "keys":
                ty, _, state = aux.partition("+")
                state = state or "plain"
                line = {"plain": "add %s %s" % (ty, op[1]), "ttl": "addttl %s %s 3600000" % (ty, op[1]), "expired": "addexp %s %s" % (ty, op[1])}[state]
                rep.count("scan.key." + state)
                rep.count("scan.key-type." + ty)
            else:
                line = "eadd %s %s %s" % (kind, op[1], aux)
            if self.setup(line) != "ok":
                raise InternalError("set-up failed: " + line)
            if kind == "keys":
                if state == "expired":
                    truth.pop(name, None)          # its TTL has run out: the key does not exist
                else:
                    truth[name] = ty
            elif kind == "z":
                b = int(aux)
                truth[name] = str(canon_bits(b))
                cls = next((c for c, vs in SCORE_CLASSES.items() if any(f64_bits(v) == b for v in vs)), "other")
                rep.count("zscan.score-class." + cls)
            else:
                truth[name] = aux
                if kind == "h":
                    n = 0 if aux == "-" else len(aux) // 2
                    rep.count("hscan.value-size." + ("0" if n == 0 else "1-7" if n <= 7 else "8-255" if n <= 255 else "256-4096" if n <= 4096 else ">4096"))
            if kind != "keys":
                if name == b"":
                    rep.count("name.empty." + kind)
                elif any(c < 0x20 or c >= 0x7F for c in name):
                    rep.count("name.binary." + kind)
        else:
            name = unhx(op[1])
            line = ("del %s" % op[1]) if kind == "keys" else ("edel %s %s" % (kind, op[1]))
            self.setup(line)
            truth.pop(name, None)

    def call_line(self, desc, cursor, r=None):
        kind, cnt, pat, ty = desc["kind"], desc["count"], desc["pattern"], desc["type"]
        if not desc["via_cmd"]:
            if kind == "keys":
                return "scan %d %d %s %s" % (cursor, cnt, pat or "~", ty or "~")
            return "escan %s %d %d %s %d" % (kind, cursor, cnt, pat or "~", 1 if desc["novalues"] else 0)
        opts = []
        if pat is not None:
            opts.append([b"match", unhx(pat)])
        if ty is not None:
            opts.append([b"type", unhx(ty)])
        opts.append([b"count", str(cnt).encode()])
        if desc["novalues"]:
            opts.append([b"novalues"])
        # option order and letter case vary deterministically with the cursor
        rot = cursor % len(opts)
        opts = opts[rot:] + opts[:rot]
        flat = []
        for i, o in enumerate(opts):
            nm = o[0].upper() if (cursor + i) % 2 == 0 else o[0]
            flat += [nm] + o[1:]
        if kind == "keys":
            args = [b"SCAN", str(cursor).encode()] + flat
        else:
            args = [{"h": b"hscan", "s": b"SSCAN", "z": b"ZScan"}[kind], kind.upper().encode(), str(cursor).encode()] + flat
        return "cmd " + "|".join(hx(a) for a in args)

    def parse_items(self, desc, s, side="impl"):
        """reply item list -> list of (name, aux) ; aux = value / score (decimal of the canonical bit pattern) / None"""
        if s == ".":
            return []
        parts = s.split("|")
        kind = desc["kind"]
        if kind == "z":
            if desc["via_cmd"]:
                out = []
                for i in range(0, len(parts) - 1, 2):
                    txt = unhx(parts[i + 1]).decode("latin1")
                    if side == "impl":
                        # handle_zscan prints the score with f64's Display
                        try:
                            sc = str(canon_bits(f64_bits(float(txt))))
                        except ValueError:
                            sc = "unparsable:" + txt
                    else:
                        sc = str(canon_bits(int(txt)))
                    out.append((unhx(parts[i]), sc))
                return out
            return [(unhx(p.split("=")[0]), str(canon_bits(int(p.split("=")[1])))) for p in parts]
        if kind == "h" and not desc["novalues"]:
            return [(unhx(parts[i]), parts[i + 1]) for i in range(0, len(parts) - 1, 2)]
        return [(unhx(p), None) for p in parts]

    def execute(self, desc, tag="gen"):
        """Runs one full iteration on both sides.  Returns a result dict; appends oracle failures and
        model disagreements."""
        rep = self.rep
        kind, cnt = desc["kind"], desc["count"]
        pat = unhx(desc["pattern"]) if desc["pattern"] is not None else None
        ty = unhx(desc["type"]) if desc["type"] is not None else None
        mx = norm_count(cnt, self.cfg[0])
        self.setup("reset")
        truth = {}
        for name_hex, aux in desc["initial"]:
            self.apply(kind, ["add", name_hex, aux], truth)

        def in_view(name, aux):
            # TYPE names the type without regard to case (Redis: strcasecmp); an unknown name selects nothing.
            # (Engine-level calls are only ever given the canonical lower-case names or unknown names.)
            return kind != "keys" or ty is None or aux.encode() == bytes(c + 32 if 0x41 <= c <= 0x5A else c for c in ty)

        snaps, views, cursors, returned, lines = [], [], [0], [], []
        fails = []
        cursor = 0
        last_growth = 0
        calls = 0
        dup = False
        while True:
            snap = dict(truth)
            view = sorted((k for k, a in snap.items() if in_view(k, a)), key=(lambda k: (scan_slot(k), k)) if self.slot else None)
            snaps.append(snap)
            views.append(view)
            line = self.call_line(desc, cursor)
            lines.append(line)
            a, b = self.both(line)
            calls += 1
            self.calls += 1
            rep.evaluations += 1
            bw = b.split(" ")
            aw = a.split(" ")
            fast = len(bw) == 3 and bw[2] == "1"
            if len(aw) != 2 or not aw[0].isdigit():
                fails.append(("total", "call failed on the implementation: %r" % a, {"call": calls - 1, "op": line}))
                if a != " ".join(bw[:2]):
                    self.disagreements.append({"op": line, "impl": a, "code": b, "desc": desc})
                break
            nxt = int(aw[0])
            items = self.parse_items(desc, aw[1])
            if len(bw) < 2:
                self.disagreements.append({"op": line, "impl": a, "code": b, "desc": desc})
            else:
                mitems = self.parse_items(desc, bw[1], "model")
                same = (sorted(items, key=repr) == sorted(mitems, key=repr)) if fast else (items == mitems)
                if aw[0] != bw[0] or not same:
                    self.disagreements.append({"op": line, "impl": a, "code": b, "desc": desc})
            # ---- soundness, judged on the implementation's reply
            for name, aux in items:
                if name not in snap:
                    fails.append(("sound", "returned an element that does not exist at that call", {"call": calls - 1, "element": hx(name)}))
                    continue
                if not in_view(name, snap[name]):
                    fails.append(("sound", "returned a key of another type than TYPE", {"call": calls - 1, "element": hx(name), "type": snap[name]}))
                if aux is not None and aux != snap[name]:
                    fails.append(("sound", "returned a stale or wrong value/score", {"call": calls - 1, "element": hx(name), "got": aux, "want": snap[name]}))
                if pat is not None and not self.wants(pat, name):
                    shape = self.match_shape(pat, name, "sound")
                    fails.append((shape, "returned an element that does not satisfy MATCH", {"call": calls - 1, "element": hx(name), "pattern": desc["pattern"]}))
            if len(set(n for n, _ in items)) < len(items) or any(n in set(x for bt in returned for x in bt) for n, _ in items):
                dup = True
            returned.append([n for n, _ in items])
            if self.slot:
                slots_here = {}
                for k in view:
                    slots_here.setdefault(scan_slot(k), []).append(k)
                got_now = set(n for n, _ in items)
                for sl, grp in slots_here.items():
                    if len(grp) >= 2 and any(k in got_now for k in grp):
                        rep.count("iter.equal-slot-group-in-one-batch")
                        rep.nontrivial(("equal-slot-group", kind, min(cnt, 3), len(grp), pat is not None, len(items) > mx))
            if nxt == 0:
                break
            cursors.append(nxt)
            cursor = nxt
            if calls - 1 < len(desc["steps"]):
                for op in desc["steps"][calls - 1]:
                    self.apply(kind, op, truth)
                    if op[0] == "add":
                        last_growth = calls
            if calls >= MAX_CALLS:
                fails.append(("term", "iteration still running after %d calls" % calls, {}))
                break
        # termination bound once the collection has stopped growing: |view| / max + 1 further calls
        if last_growth < len(views):
            bound = len(views[last_growth]) // mx + 1
            if calls - last_growth > bound:
                fails.append(("term", "iteration needed %d calls after the last addition, bound %d" % (calls - last_growth, bound), {"view": len(views[last_growth]), "max": mx}))
        # ---- completeness: elements present (in the view) at every call and prescribed by MATCH
        got = set(x for bt in returned for x in bt)
        stable = [k for k in views[0] if all(k in snaps[i] and snaps[i][k] == snaps[0][k] for i in range(len(snaps)))]
        missed_known, missed_new = [], []
        ended = not any(f[0] in ("total", "term") for f in fails)
        if ended:
            for k in stable:
                if k in got or not self.wants(pat, k):
                    continue
                if pat is not None:
                    implv, codev, specv = self.glob(pat, k)
                    if specv is not None and codev != specv:
                        fails.append((self.match_shape(pat, k, "complete"),
                                      "an element that satisfies MATCH was never returned (matcher)", {"element": hx(k), "pattern": desc["pattern"]}))
                        continue
                # was its rank pushed below the cursor by a deletion between two calls?
                drop = None
                for i in range(len(views) - 1 if not self.slot else 0):
                    c = cursors[i + 1]
                    if views[i].index(k) >= c > views[i + 1].index(k):
                        gone = [hx(x) for x in views[i][:c] if x not in snaps[i + 1] or x not in views[i + 1]]
                        drop = {"after_call": i, "cursor": c, "rank_before": views[i].index(k), "rank_after": views[i + 1].index(k), "deleted_below_cursor": gone}
                        break
                if drop:
                    missed_known.append((k, drop))
                else:
                    missed_new.append(k)
        for k, drop in missed_known[:1]:
            fails.append(("deletion-below-cursor", "element present during the whole iteration was never returned: a lower-ranked key was deleted between two calls",
                          {"element": hx(k), **drop}))
        for k in missed_new[:1]:
            fails.append(("complete", "element present during the whole iteration was never returned" +
                          ("" if self.slot else " although no key ranked below the cursor disappeared"),
                          {"element": hx(k)}))
        # any key below the cursor deleted at all?  (the hypothesis of scan_complete_partial)
        del_below = (not self.slot) and any(any(x not in views[i + 1] for x in views[i][:cursors[i + 1]]) for i in range(len(views) - 1))
        if self.slot:
            # slot cursor: was anything at all deleted between two calls that lies before the cursor in the walk order?
            if any(any(x not in views[i + 1] for x in views[i] if scan_slot(x) < cursors[i + 1]) for i in range(len(views) - 1)):
                rep.count("iter.deletion-before-slot-cursor")
        outcome = "missed" if missed_known or missed_new else ("dup" if dup else "exact")
        rep.count("iter." + kind)
        if ty is not None:
            tcls = desc.get("type_class") or ("lower" if desc["type"] and unhx(desc["type"]).decode("latin1") in TYPES else "corpus")
            rep.count("scan.type-option.%s.%s" % (tcls, "cmd" if desc["via_cmd"] else "engine"))
            rep.nontrivial(("type-option", tcls, desc["via_cmd"], pat is not None, min(cnt, 3), len(views[0]) > 0, outcome))
        if kind == "z":
            rep.count("zscan.set-regime." + (desc.get("score_regime") or "corpus"))
            rep.nontrivial(("zscan-scores", desc.get("score_regime"), min(cnt, 3), desc["via_cmd"], pat is not None, outcome,
                            any(bits_f64(int(v)) in (float("inf"), float("-inf")) for v in snaps[0].values()) if snaps[0] else False))
        rep.count("iter.outcome." + outcome)
        rep.count("iter.calls", calls)
        if del_below:
            rep.count("iter.deletion-below-cursor")
        regime = ("fixed" if not desc["steps"] else "mutating")
        rep.nontrivial((kind, min(cnt, 13), pat is not None, ty is not None, desc["via_cmd"], regime, del_below, outcome, min(calls, 12), min(len(views[0]), 40) // 10))
        for shape, what, det in fails:
            self.oracle_failures.append((shape, what, desc, dict(det, ops=lines, returned=[[hx(x) for x in bt] for bt in returned], cursors=cursors)))
        return {"fails": fails, "calls": calls, "returned": returned, "cursors": cursors, "lines": lines, "outcome": outcome, "del_below": del_below}

    # -- streams -------------------------------------------------------------------
    def corpus(self):
        """Witnesses of the Lean witness lemmas and of the listed findings: run first."""
        a, b, c = hx(b"a"), hx(b"b"), hx(b"c")
        base = {"kind": "keys", "count": 1, "pattern": None, "type": None, "novalues": False, "via_cmd": False}
        # scan_complete_fails: a b c ; SCAN 0 COUNT 1 -> a ; DEL a ; SCAN 1 COUNT 1 -> c ; b never returned
        r1 = self.execute(dict(base, initial=[[a, "string"], [b, "string"], [c, "string"]], steps=[[["del", a]]]), "corpus")
        # scan_additions_duplicate: b c ; SCAN 0 COUNT 1 -> b ; add a ; SCAN 1 COUNT 1 -> b again
        r2 = self.execute(dict(base, initial=[[b, "string"], [c, "string"]], steps=[[["add", a, "string"]]]), "corpus")
        self.rep.sample({"witness_deletion": r1["lines"], "returned": [[hx(x) for x in bt] for bt in r1["returned"]]})
        self.rep.sample({"witness_addition_duplicates": r2["lines"], "returned": [[hx(x) for x in bt] for bt in r2["returned"]]})
        for kind, aux in (("h", hx(b"v")), ("s", "-"), ("z", str(f64_bits(1.0)))):
            self.execute({"kind": kind, "count": 1, "pattern": None, "type": None, "novalues": False, "via_cmd": False,
                          "initial": [[a, aux], [b, aux], [c, aux]], "steps": [[["del", a]]]}, "corpus")
        # sorted sets whose scores are infinite, zero, denormal, huge: the members are what ZSCAN walks
        inf, ninf = str(f64_bits(float("inf"))), str(f64_bits(float("-inf")))
        zsets = [[[a, inf], [b, ninf], [c, str(f64_bits(0.0))]], [[a, inf], [b, inf], [c, ninf]], [[a, ninf]],
                 [[a, str(f64_bits(-0.0))], [b, str(f64_bits(5e-324))], [c, str(f64_bits(1.7976931348623157e308))], [hx(b"d"), inf]]]
        for zs in zsets:
            for cnt in (1, 10):
                for via in (False, True):
                    self.execute({"kind": "z", "count": cnt, "pattern": None, "type": None, "novalues": False, "via_cmd": via,
                                  "initial": zs, "steps": [], "score_regime": "corpus"}, "corpus")
        # the empty name and binary names; a large value
        for kind, aux in (("h", hx(b"x" * 5000)), ("s", "-"), ("z", inf)):
            self.execute({"kind": kind, "count": 1, "pattern": None, "type": None, "novalues": False, "via_cmd": False,
                          "initial": [["-", aux], ["00", aux], ["0d0a", aux], [a, aux]], "steps": [[["del", "00"]]]}, "corpus")
        # keys with a TTL are live keys, keys whose TTL has run out are not there (every type, with and without TYPE)
        for tyf in (None, hx(b"zset")):
            self.execute(dict(base, count=2, type=tyf, initial=[[a, "zset+ttl"], [b, "zset+expired"], [c, "zset"], [hx(b"d"), "string+ttl"],
                                                               [hx(b"e"), "hash+expired"]], steps=[[["add", hx(b"f"), "zset+ttl"]]]), "corpus")
        # character-class edge patterns (Redis's stringmatchlen): reversed range, escaped ] and - in a class, unterminated class,
        # [^ [ [] [a-] []-a] ... as MATCH of SCAN / HSCAN / SSCAN / ZSCAN (engine call and handler), and as single-key verdicts
        edge_names = [b"a", b"b", b"c", b"d", b"z", b"-", b"]", b"[", b"^", b"\\", b"_", b"`", b"0", b"-a]", b"a]", b"ab", b"b]", b"", b"x", b"[a", b"a-c"]
        edge_pats = [b"[c-a]", b"[z-a]", b"[\\]]", b"[a\\-c]", b"[\\-]", b"[\\\\]", b"[a\\]b]", b"[ab", b"[a-c", b"[^ab", b"[a\\", b"[a-", b"[^", b"[", b"[]", b"[^]",
                     b"[a-]", b"[]-a]", b"[]a]", b"[a-]]", b"[--a]", b"[a-c-e]", b"[^^]", b"[^\\^]", b"[[]", b"[]]", b"*[c-a]", b"[c-a]*", b"[c-a][\\]]",
                     b"?[", b"*[^", b"[a-\\]", b"[\\a-c]", b"[a-c\\", b"x[", b"[a]]", b"[*]", b"[?]", b"[a-a]", b"[b-a-]"]
        for p in edge_pats:
            for t in edge_names:
                self.glob_case(p, t, "class-edge", "corpus")
        kinds_aux = (("keys", "string"), ("h", hx(b"v")), ("s", "-"), ("z", str(f64_bits(float("inf")))))
        for i, p in enumerate(edge_pats):
            for j, (kind, aux) in enumerate(kinds_aux):
                self.execute({"kind": kind, "count": (1, 3, 10, 100)[(i + j) % 4], "pattern": hx(p), "type": None, "novalues": False,
                              "via_cmd": (i + j) % 3 == 0, "initial": [[hx(t), aux] for t in edge_names], "steps": []}, "corpus")
                self.rep.count("iter.class-edge-pattern." + kind)
        # type_filter_case_sensitive_fails: key a is a string; SCAN 0 TYPE STRING / String / string select it alike
        for sp in (b"string", b"STRING", b"String", b"sTRING"):
            self.execute(dict(base, count=10, type=hx(sp), via_cmd=True, initial=[[a, "string"], [b, "hash"]], steps=[], type_class="corpus"), "corpus")
        # MATCH on lossily decoded text: the literal pattern ff selects the key fe
        self.execute(dict(base, count=10, pattern="ff", initial=[["fe", "string"], ["ff", "string"]], steps=[]), "corpus")
        for p, t in [(b"\xff", b"\xfe"), (b"?", "é".encode()), (b"[", b"["), (b"[abc", b"a"), (b"[\\]]", b"]"), (b"[z-a]", b"b"), (b"[a-]", b"-"),
                     (b"\\", b"\\"), (b"*", b""), (b"", b""), (b"a*", b"a"), (b"*a", b"ba"), (b"a*b*c", b"aXbXbXc"), (b"*ab", b"aab"), (b"a?c", b"abc"),
                     (b"[^a]", b"b"), (b"[^]", b"x"), (b"[]", b"x"), (b"[a-c-e]", b"-"), (b"\\*", b"*"), (b"\\*", b"a"), (b"*\\", b"a\\")]:
            self.glob(p, t)
        # literal*literal with overlapping literals: merged (too short), exact, padded
        for p, ts in [(b"user:*:x", [b"user:x", b"user::x", b"user:a:x", b"user:", b"user:x:x"]),
                      (b"*sess*sion", [b"session", b"sesssion", b"sessXsion", b"sesion"]),
                      (b"ab*bX", [b"abX", b"abbX", b"ab_bX", b"abb"]),
                      (b"aXa*aXa", [b"aXaXa", b"aXaaXa", b"aXa"]),
                      (b"a*a*a", [b"a", b"aa", b"aaa", b"aba"]),
                      (b"ab**b", [b"ab", b"abb"]), (b"ab*?*b", [b"abb", b"abxb", b"ab"]), (b"a?*?a", [b"aba", b"abba"])]:
            for t in ts:
                self.glob_case(p, t, "star-overlap", "corpus")

    def slot_groups(self, r, npairs):
        """Equal-slot groups at every page alignment, for all four commands: a collection holding one or two colliding pairs
        and a few neighbours, COUNT 1..4, engine call and handler, unchanged and with one of the pair deleted / re-added."""
        for a, b in [r.choice(SLOT_COLLISIONS) for _ in range(npairs)]:
            for kind in ("keys", "h", "s", "z"):
                for count in (1, 2, 3, 4):
                    others = gen_names(r, r.choice([0, 1, 2, 5]))
                    c2 = r.choice(SLOT_COLLISIONS)
                    names = [a, b] + [k for k in others if k not in (a, b)] + ([c2[0], c2[1]] if r.chance(1, 3) and c2[0] not in (a, b) else [])
                    ctx = {"pool": ["string", "set"], "regime": r.choice(SCORE_REGIMES), "fixed": gen_score(r, "mixed", None)}
                    steps = r.choice([[], [], [[["del", hx(a)]]], [[["del", hx(b)]], [["add", hx(b), aux_for(r, kind, ctx)]]], [[], [["del", hx(a)]]]])
                    desc = {"kind": kind, "count": count, "pattern": r.choice([None, None, b"*", a[:1] + b"*"]), "type": None, "novalues": False,
                            "via_cmd": r.chance(1, 3), "initial": [[hx(k), aux_for(r, kind, ctx)] for k in names], "steps": steps,
                            "score_regime": ctx["regime"] if kind == "z" else None}
                    desc["pattern"] = hx(desc["pattern"]) if desc["pattern"] is not None else None
                    self.execute(desc, "slot-groups")
                    self.rep.count("iter.slot-group-sweep." + kind)

    def type_sweep(self, r, rounds):
        """TYPE with every type name in lower / upper / capitalised / mixed case and with unknown names, combined with MATCH and
        COUNT, through handle_scan, over key spaces holding all six types (some with a TTL), unchanged and with churn."""
        for _ in range(rounds):
            names = gen_names(r, r.choice([6, 12, 30]))
            for i, t in enumerate(TYPES):                       # every type is present at least once
                k = ("k%d:%s" % (i, t)).encode()
                if k not in names:
                    names.append(k)
            ctx = {"pool": TYPES, "states": True}
            initial = [[hx(k), (TYPES[i % 6] if i >= len(names) - 6 else aux_for(r, "keys", ctx))] for i, k in enumerate(names)]
            extra = [k for k in gen_names(r, 6) if k not in names]
            for t in TYPES:
                for sp in type_spellings(r, t):
                    pat = r.choice([None, None, b"*", b"k*", b"?*", b"[a-z]*"])
                    steps = r.choice([[], [], [[["add", hx(r.choice(extra)), t]], [["del", hx(r.choice(names[:6]))]]]]) if extra else []
                    desc = {"kind": "keys", "count": r.choice([1, 2, 3, 7, 100]), "pattern": hx(pat) if pat is not None else None,
                            "type": hx(sp.encode()), "novalues": False, "via_cmd": True, "initial": initial, "steps": steps,
                            "type_class": "lower" if sp == t else "other-case"}
                    self.execute(desc, "type-sweep")
            for u in UNKNOWN_TYPES:
                for via in (True, False):
                    self.execute({"kind": "keys", "count": r.choice([1, 10]), "pattern": None, "type": hx(u), "novalues": False, "via_cmd": via,
                                  "initial": initial, "steps": [], "type_class": "unknown"}, "type-sweep")

    def malformed(self, r, n):
        """option parsing: wrong arity, bad numbers, unknown options (both sides must refuse alike)"""
        self.setup("reset")
        for k in (b"a", b"b", b"c"):
            self.setup("add string " + hx(k))
            self.setup("eadd s %s -" % hx(k))
        heads = [[b"SCAN"], [b"SSCAN", b"S"], [b"HSCAN", b"H"], [b"ZSCAN", b"Z"], [b"HSCAN", b"S"], [b"SSCAN", b"nokey"]]
        toks = [b"MATCH", b"match", b"COUNT", b"count", b"TYPE", b"type", b"NOVALUES", b"*", b"a*", b"0", b"1", b"2", b"10", b"-1", b"+3", b"", b"x",
                b"18446744073709551615", b"18446744073709551616", b"string", b"1.5", b" 1", b"FOO", b"MATCHX"]
        for _ in range(n):
            args = list(r.choice(heads))
            args.append(r.choice([b"0", b"0", b"0", b"1", b"2", b"5", b"-1", b"x", b"", b"+0", b"18446744073709551615", b"18446744073709551616"]))
            if r.chance(1, 2):
                # mostly well-formed options in random order, with repeats (the last one wins)
                for _ in range(r.range(0, 4)):
                    o = r.below(4)
                    if o == 0:
                        args += [rand_case(r, "match").encode(), r.choice([b"*", b"a*", b"[ab]", b"?", b"", b"c"])]
                    elif o == 1:
                        args += [rand_case(r, "count").encode(), r.choice([b"0", b"1", b"2", b"3", b"10", b"+2", b"1000", b"18446744073709551615"])]
                    elif o == 2:
                        args += [rand_case(r, "type").encode(), r.choice([b"string", b"set", b"String", b""])]
                    else:
                        args += [rand_case(r, "novalues").encode()]
            else:
                for _ in range(r.range(0, 4)):
                    args.append(r.choice(toks))
            if r.chance(1, 10):
                args = args[:r.range(1, len(args))]
            line = "cmd " + "|".join(hx(x) for x in args)
            a, b = self.both(line)
            self.rep.evaluations += 1
            bw = b.split(" ")
            ok = a == b or a == " ".join(bw[:2])
            if not ok and len(bw) == 3 and bw[2] == "1" and len(a.split(" ")) == 2 and a.split(" ")[0] == bw[0]:
                ok = sorted(a.split(" ")[1].split("|")) == sorted(bw[1].split("|"))
            if not ok:
                self.disagreements.append({"op": line, "impl": a, "code": b})
            self.rep.count("cmd." + ("err" if a == "err" else "ok"))
            self.rep.nontrivial(("cmd", args[0], a == "err", len(args)))

    def glob_case(self, p, t, family, name_class):
        """one (pattern, name) pair: SCAN MATCH over the single key on the implementation vs Code and Spec"""
        fresh = (p, t) not in self.glob_cache
        implv, codev, specv = self.glob(p, t)
        cls = "x" if specv is None else ("=" if specv == implv else "dev")
        if fresh:
            self.rep.count("glob.family.%s.%s" % (family, name_class))
            self.rep.count("glob.verdict.%s.%s.%s" % (family, name_class, "x" if specv is None else ("match" if specv else "nomatch")))
        self.rep.nontrivial(("glob", family, name_class, cls, implv, min(len(p), 6), min(p.count(b"*"), 3), any(c >= 0x80 for c in p + t),
                             b"[" in p, b"?" in p, b"\\" in p, len(t) < len(expand_pattern(p))))
        if specv is not None and implv != specv:
            shape = self.match_shape(p, t, "sound" if implv else "complete")
            desc = {"kind": "keys", "count": 10, "pattern": hx(p), "type": None, "novalues": False, "via_cmd": False,
                    "initial": [[hx(t), "string"]], "steps": []}
            self.oracle_failures.append((shape, "SCAN MATCH over the single key: implementation %s, glob semantics over bytes %s" % (implv, specv), desc,
                                         {"op": "glob %s %s" % (hx(p), hx(t)), "family": family, "name_class": name_class}))
        elif specv is None:
            key = "no-spec-verdict:" + ("match" if implv else "nomatch")
            self.deviations.setdefault(key, {"pattern": hx(p), "text": hx(t), "impl": implv})

    def globs(self, r, n):
        names = gen_names(r, 40)
        for i in range(n):
            t = r.choice(names) if r.chance(3, 4) else gen_name(r)
            p = gen_pattern(r, [t] if r.chance(1, 2) else names)
            self.glob_case(p, t, "random", "drawn")
            # the pattern against its own shortest expansion, and against names shorter than that
            if r.chance(1, 4):
                e = expand_pattern(p)
                self.glob_case(p, e, "random", "expansion")
                for t2 in shortenings(r, e, 2):
                    self.glob_case(p, t2, "random", "shorter-than-pattern")
        # literal*literal families (overlapping literals, star runs, ? and classes mixed in)
        fr = r.fork("star-families")
        for j in range(max(1, n // 120)):
            pats, fam = gen_star_family(fr)
            if j == 0:
                self.rep.sample({"star_family": {"patterns": [hx(x) for x in pats], "names": {k: [hx(x) for x in v] for k, v in fam.items()}}})
            for p in pats:
                for ncls, ts in fam.items():
                    for t in ts:
                        self.glob_case(p, t, "star-overlap", ncls)
                for t in shortenings(fr, expand_pattern(p), 2):
                    self.glob_case(p, t, "star-overlap", "shorter-than-pattern")

    def exhaustive(self, nkeys, ncalls):
        """every history of `ncalls` key sets over `nkeys` keys, COUNT 1 and 2 (model validation, and the
        classification 'missed => a lower-ranked key was deleted' checked on all of them)"""
        names = [bytes([0x61 + i]) for i in range(nkeys)]
        subsets = [[names[i] for i in range(nkeys) if m >> i & 1] for m in range(1 << nkeys)]
        cnt = 0
        for count in (1, 2):
            for hist in itertools.product(subsets, repeat=ncalls):
                if not hist[0]:
                    continue
                steps = []
                for i in range(ncalls - 1):
                    batch = [["del", hx(k)] for k in hist[i] if k not in hist[i + 1]] + [["add", hx(k), "string"] for k in hist[i + 1] if k not in hist[i]]
                    steps.append(batch)
                desc = {"kind": "keys", "count": count, "pattern": None, "type": None, "novalues": False, "via_cmd": False,
                        "initial": [[hx(k), "string"] for k in hist[0]], "steps": steps}
                self.execute(desc, "exh")
                cnt += 1
        self.rep.extra["exhaustive_small_scope"] = "all %d histories of %d successive key sets over %d keys with COUNT 1 and 2" % (cnt, ncalls, nkeys)

    def run(self, seed, tier):
        rep = self.rep
        r = Rng(seed)
        scale = 12 if tier == "thorough" else 1
        self.corpus()
        ir = r.fork("iterations")
        regimes = ["fixed", "adds", "dels", "both", "both", "both"]
        n = 0
        for rnd in range(40 * scale):
            for count in COUNTS:
                for regime in regimes:
                    desc = gen_desc(ir, count, regime)
                    res = self.execute(desc)
                    n += 1
                    if n <= 3:
                        rep.sample({"iteration": {k: desc[k] for k in ("kind", "count", "pattern", "type", "via_cmd")}, "keys": len(desc["initial"]),
                                    "mutation_batches": len(desc["steps"]), "calls": res["calls"], "outcome": res["outcome"]})
        # COUNT 0 (means 10) and huge counts
        for count in (0, 13, 999, 1001, 10 ** 6, 2 ** 32, 2 ** 64 - 1):
            for _ in range(3 * scale):
                self.execute(gen_desc(ir, count, "both"))
        self.slot_groups(r.fork("slot-groups"), 4 * scale)
        self.type_sweep(r.fork("type-sweep"), 2 * scale)
        self.globs(r.fork("globs"), 12000 * scale)
        self.malformed(r.fork("malformed"), 2500 * scale)
        if tier == "thorough":
            self.exhaustive(4, 3)
            self.exhaustive(3, 4)
        else:
            self.exhaustive(3, 3)


def classify(shape, findings):
    for f in findings:
        if f.get("match") == shape:
            return f
    return None


def shrink_desc(c, desc, shape):
    """ddmin over the initial elements, then over the mutation operations"""
    def fails(d):
        before = len(c.oracle_failures)
        nd = len(c.disagreements)
        try:
            c.execute(d, "shrink")
        except InternalError:
            del c.oracle_failures[before:]
            return False
        hit = any(s == shape for s, _, _, _ in c.oracle_failures[before:])
        del c.oracle_failures[before:]
        del c.disagreements[nd:]
        return hit
    if not fails(desc):
        return desc
    cur = dict(desc)
    if len(cur["initial"]) >= 2:
        cur["initial"] = shrink_list(cur["initial"], lambda xs: fails(dict(cur, initial=xs)), 150)
    flat = [(i, op) for i, b in enumerate(cur["steps"]) for op in b]
    if len(flat) >= 2:
        def rebuild(fl):
            st = [[] for _ in cur["steps"]]
            for i, op in fl:
                st[i].append(op)
            return st
        flat = shrink_list(flat, lambda fl: fails(dict(cur, steps=rebuild(fl))), 150)
        cur["steps"] = rebuild(flat)
    while cur["steps"] and not cur["steps"][-1]:
        cur["steps"] = cur["steps"][:-1]
    return cur


def main(tier, seed):
    rep = Report("C19", tier, seed)
    rep.rule = ("full cursor iterations (SCAN over 0-60 keys of mixed types, HSCAN/SSCAN/ZSCAN over 0-60 elements) for every COUNT in 1..12, 100, 1000, 5000 "
                "(plus 0 and huge values), MATCH patterns from a glob grammar (literals, * ? classes, escapes, malformed classes, non-ASCII and invalid UTF-8), TYPE "
                "filters, engine calls and handle_*scan (option order/case), with random batches of additions/deletions of other elements between calls; every call's "
                "(cursor, items) compared with Code.scan*; soundness, completeness (with the rank of every missed element tracked across deletions) and the termination "
                "bound evaluated on the implementation's replies; single-key MATCH verdicts against Spec.matchBytes; malformed option lists; all histories over 3 keys. "
                "distinct = (kind, COUNT, MATCH?, TYPE?, path, regime, deletion-below-cursor?, outcome, calls, size) and (glob class, shape) tuples reached")
    rep.assumptions = [
        "keys carry no TTL during an iteration (lazy expiry inside scan is C02's subject); the sweeper thread is idle",
        "cursor and COUNT are < 2^64 (u64/usize parse); usize is 64 bits",
        "the order of a fast-path HSCAN/SSCAN reply (hash-table order) is not compared; the model returns it sorted",
        "MATCH semantics: Spec.matchBytes = Redis's stringmatchlen over bytes for every pattern (total tokenisation: escapes inside classes, ordered range "
        "bounds, x-y whenever two more characters follow, unterminated classes run to the end), with a run of * matching the empty string",
        "option names are ASCII (Unicode to_uppercase of non-ASCII option names is not modelled)",
    ]
    ok, log, errs = proof_phase(rep, families=["scan"])
    build_harness("scan")
    c = C19(rep)
    try:
        c.run(seed, tier)
        rep.traces_validated = c.calls
        # ---- verdict (DESIGN 2.5)
        new_fail, seen_known = [], {}
        for shape, what, desc, det in c.oracle_failures:
            f = classify(shape, c.findings)
            if f:
                seen_known.setdefault(f["id"], (f, desc, det))
                rep.count("known." + f["id"])
            else:
                new_fail.append((shape, what, desc, det))
        for fid, (f, desc, det) in seen_known.items():
            rep.known(fid, f["what"])
        for f in c.findings:
            if f["id"] not in seen_known:
                rep.violation("known finding %s no longer reproduces: model/known-findings file is stale" % f["id"],
                              {"finding": f, "obligation": f.get("lean_witness")}, no_input=True)
        if new_fail:
            new_fail.sort(key=lambda x: len(json.dumps(x[2])) if x[2] else 10 ** 9)
            shape, what, desc, det = new_fail[0]
            small = shrink_desc(c, desc, shape) if desc else None
            before = len(c.oracle_failures)
            res = c.execute(small, "final") if small else None
            det2 = next((d for s, _, _, d in c.oracle_failures[before:] if s == shape), det)
            rep.violation("C19 %s oracle fails on the implementation: %s" % (shape, what),
                          {"replay": {"desc": small, "detail": det2}, "family": "scan", "original": {"desc": desc, "detail": det},
                           "others": [{"shape": s, "what": w} for s, w, _, _ in new_fail[1:6]], "lean_errors": errs[:5]})
        elif not ok:
            rep.violation("proof obligations of C19 no longer check against the regenerated model",
                          {"theorem_errors": errs[:10], "log_tail": log[-3000:]}, no_input=True)
        elif c.disagreements:
            rep.violation("correspondence Code.scan* vs implementation broke (%d disagreements) but the property oracles hold on everything explored" % len(c.disagreements),
                          {"correspondence": "Ferrous.Scan.Code.{scan,sscan,hscan,zscan,matchBytes,parseOpts} vs StorageEngine::{scan,hscan,sscan,zscan} / handle_*scan",
                           "disagreements": c.disagreements[:10]}, no_input=True)
    finally:
        c.close()
    rep.extra["cursor_scheme"] = "slot (scan_slot of the next element)" if c.slot else "rank in the list sorted by name"
    rep.extra["model_disagreements"] = len(c.disagreements)
    rep.extra["oracle_failures"] = len(c.oracle_failures)
    rep.extra["glob_pairs_without_spec_verdict"] = c.deviations
    return rep.finish()


def replay(path):
    obj = json.load(open(path))
    rp = obj.get("replay")
    if not rp or not rp.get("desc"):
        print("replay file has no concrete input (broken proof obligation or correspondence):", obj.get("what"))
        print(json.dumps({k: obj[k] for k in obj if k not in ("replay",)}, indent=1)[:4000])
        return 1
    rep = Report("C19", obj.get("tier", "quick"), obj.get("seed", 1))
    build_driver("scan")
    build_harness("scan")
    c = C19(rep)
    try:
        res = c.execute(rp["desc"], "replay")
        for i, line in enumerate(res["lines"]):
            print("call %d: %s" % (i, line))
            print("   impl returned: cursor %s items %s" % (res["cursors"][i + 1] if i + 1 < len(res["cursors"]) else 0, [hx(x) for x in res["returned"][i]]))
            if i < len(rp["desc"]["steps"]):
                print("   then:", rp["desc"]["steps"][i])
        for shape, what, det in res["fails"]:
            f = classify(shape, c.findings)
            print("%s [%s] %s %s" % ("KNOWN-FINDING" if f else "ORACLE-FAILURE", shape, what, json.dumps({k: v for k, v in det.items()})))
        for d in c.disagreements:
            print("MODEL-DISAGREEMENT", json.dumps(d)[:600])
        bad = [1 for shape, _, _ in res["fails"] if not classify(shape, c.findings)]
        print("replay: %s" % ("property violated" if bad else "no violation on the current tree"))
        return 1 if bad else 0
    finally:
        c.close()
