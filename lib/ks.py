"""Key-space machine sessions: the real server over TCP next to the Lean `drv_ks` model.

Used by C01 and C03 (and, with other vocabularies, by later checks).  A session sends each
command to the server, canonicalises the reply, asks the model for its reply to the same
command (passing the observed outcome for commands with random results), and compares;
after a history it compares full dumps of the dataset taken through point reads.
"""
import time

from common import *
from server import Server, Client, Closed, ProtocolError, show_reply

UNORDERED = {"SMEMBERS", "HKEYS", "HVALS", "KEYS", "SUNION", "SINTER", "SDIFF"}
RANDOM = {"SPOP", "SRANDMEMBER", "RANDOMKEY"}


def canon_reply(name, r):
    """canonical text: every error is `( e )`; replies that come out of hash maps/sets are sorted"""
    t = r[0]
    if t == "e":
        return "( e )"
    if name in UNORDERED and t == "a":
        return "( a%s )" % "".join(" " + x for x in sorted(canon_reply("", x) for x in r[1]))
    if name == "HGETALL" and t == "a" and len(r[1]) % 2 == 0:
        pairs = [(r[1][i], r[1][i + 1]) for i in range(0, len(r[1]), 2)]
        pairs.sort(key=lambda p: p[0][1] if p[0][0] == "b" else b"")
        return "( a%s )" % "".join(" %s %s" % (canon_reply("", k), canon_reply("", v)) for k, v in pairs)
    if name in ("SPOP", "SRANDMEMBER") and t == "a":
        return "( a%s )" % "".join(" " + x for x in sorted(canon_reply("", x) for x in r[1]))
    if t in ("a", "m", "S"):
        return "( %s%s )" % (t, "".join(" " + canon_reply("", x) for x in r[1]))
    return show_reply(r)


def observed(name, r):
    """the outcome handed to the model for commands whose result is random"""
    if r[0] == "b":
        return hx(r[1])
    if r[0] == "a":
        xs = [x[1] for x in r[1] if x[0] == "b"]
        return "|".join(hx(x) for x in xs) if xs else "."
    return "."


class KsSession:
    def __init__(self, rep, tag, quirks=None):
        self.rep = rep
        self.srv = Server(tag)
        self.cli = self.srv.client()
        self.model = lean_driver("ks")
        self.t0 = time.monotonic()
        self.quirks = quirks or {}
        self.db = 0
        self.reset_model()
        self.history = []        # (args, impl, model) of the current history
        self.mismatch = None
        self.dead = None

    def reset_model(self):
        assert self.model.ask("reset") == "ok"
        if self.quirks:
            a = self.model.ask("quirks " + " ".join("%s=%d" % (k, int(v)) for k, v in self.quirks.items()))
            if a != "ok":
                raise InternalError("model refused quirks: %r" % a)

    def now(self):
        return int((time.monotonic() - self.t0) * 1000) + 1000

    def close(self):
        self.cli.close()
        self.srv.stop()
        self.model.close()

    def fresh(self):
        """empty dataset on both sides, new history"""
        try:
            r = self.cli.cmd("FLUSHALL")
        except (Closed, TimeoutError, ProtocolError, OSError) as e:
            # the server is gone or does not answer any more (the last command of the previous history was recorded
            # as 'closed:TimeoutError' / 'server-died' there): a new server for the next history
            self.hangs = getattr(self, "hangs", 0) + 1
            self.crash_log = self.srv.log_tail(1500)
            self.cli.close()
            self.srv.stop()
            self.srv = Server(self.srv.tag)
            self.cli = self.srv.client()
            self.restarts = getattr(self, "restarts", 0) + 1
            r = self.cli.cmd("FLUSHALL")
        if r != ("s", b"OK"):
            raise InternalError("FLUSHALL failed: %r" % (r,))
        self.reset_model()
        self.history = []
        self.mismatch = None

    def reconnect(self):
        """new connection; if the server process died, a new server (empty dataset)"""
        self.cli.close()
        time.sleep(0.05)
        if self.srv.alive():
            try:
                self.cli = self.srv.client()
                return True
            except OSError:
                pass
        self.crash_log = self.srv.log_tail(1500)
        self.srv.stop()
        self.srv = Server(self.srv.tag)
        self.cli = self.srv.client()
        self.restarts = getattr(self, "restarts", 0) + 1
        return False

    def do(self, args):
        """args: list of bytes. Returns (impl_canonical, code_model_canonical); the reference reply computed
        from the same pre-state is left in self.last_spec / self.last_same. An implementation that
        closes the connection or dies yields 'closed' / 'server-died'."""
        name = args[0].decode("latin-1").upper()
        now = self.now()
        try:
            r = self.cli.cmd(*args)
            impl = canon_reply(name, r)
            obs = observed(name, r) if name in RANDOM and r[0] != "e" else "_"
        except (Closed, TimeoutError, ProtocolError, OSError) as e:
            time.sleep(0.05)
            impl = "server-died" if not self.srv.alive() else "closed:" + type(e).__name__
            obs = "_"
            r = None
        line = "cmd %d %d %s %s" % (self.db, now, obs, " ".join(hx(a) for a in args))
        ans = self.model.ask(line)
        if ans is None or ans == "bad-op":
            raise InternalError("Lean ks driver failed on: %s -> %r" % (line, ans))
        model, spec, same = ans.split(" # ")
        if name in ("TTL", "PTTL"):
            # remaining time is compared through a window (clock granularity; exact arithmetic is C02's theorem)
            tol = 150 if name == "PTTL" else 1
            mi, mm, ms = (re.fullmatch(r"\( i (\d+) \)", x) for x in (impl, model, spec))
            far = 10 ** 11 if name == "PTTL" else 10 ** 8      # beyond ~3 years: "far future" (the code saturates huge TTLs)
            def close(a, b):
                return abs(a - b) <= tol or (a >= far and b >= far)
            if mi and mm and close(int(mi.group(1)), int(mm.group(1))):
                model = impl
            if mi and ms and close(int(mi.group(1)), int(ms.group(1))):
                spec = impl
        self.last_spec, self.last_same = spec, same == "same"
        self.history.append((args, impl, model, line))
        if impl.startswith(("closed", "server-died")):
            self.dead = impl
            if not self.reconnect():
                impl = "server-died"
                self.history[-1] = (args, impl, model, line)
        return impl, model

    # ---- full dump through point reads (independent of the commands under test where possible)
    def dump_impl(self):
        c = self.cli
        keys = c.cmd("KEYS", "*")
        if keys[0] != "a":
            return "dump-failed:KEYS"
        out = []
        for k in sorted(x[1] for x in keys[1]):
            t = c.cmd("TYPE", k)[1].decode()
            if t == "string":
                v = "string " + hx(c.cmd("GET", k)[1])
            elif t == "list":
                xs = c.cmd("LRANGE", k, "0", "-1")[1]
                v = "list " + ("|".join(hx(x[1]) for x in xs) if xs else ".")
            elif t == "set":
                xs = sorted(x[1] for x in c.cmd("SMEMBERS", k)[1])
                v = "set " + ("|".join(hx(x) for x in xs) if xs else ".")
            elif t == "hash":
                fl = c.cmd("HGETALL", k)[1]
                ps = sorted((fl[i][1], fl[i + 1][1]) for i in range(0, len(fl), 2))
                v = "hash " + ("|".join(hx(f) + "=" + hx(x) for f, x in ps) if ps else ".")
            elif t == "zset":
                fl = c.cmd("ZRANGE", k, "0", "-1", "WITHSCORES")[1]
                ps = sorted((fl[i][1], fl[i + 1][1]) for i in range(0, len(fl), 2))
                v = "zset " + ("|".join(hx(f) + "=" + hx(x) for f, x in ps) if ps else ".")
            elif t == "stream":
                v = "stream %d" % c.cmd("XLEN", k)[1]
            else:
                v = "type-" + t
            ttl = c.cmd("PTTL", k)
            out.append("%s %s %s" % (hx(k), v, "ttl" if ttl[0] == "i" and ttl[1] >= 0 else "nottl"))
        return " ; ".join(out) if out else "."

    def dump_model(self):
        return self.model.ask("dump %d %d" % (self.db, self.now()))


class ServerDied(Exception):
    pass
