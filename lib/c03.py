"""C03 — list, set and hash commands follow the Redis reference semantics.

Deciding artefact: lean/FerrousSpec/Props/C03.lean.  Correspondence: the same key-space
machine as C01 driven with the list/set/hash vocabulary (random picks are checked relations:
the observed outcome is handed to the model, which accepts it iff the reference allows it)."""
from common import *
from ks import KsSession
import ksgen
import c01

PID = "C03"


def main(tier, seed):
    rep = Report(PID, tier, seed)
    rep.rule = ("histories of 20-60 list/set/hash commands over colliding keys of all six types, elements with duplicates, every index form "
                "(0, +-1, +-len, beyond either end, i64 edges), counts for LREM/SPOP/SRANDMEMBER incl. negative, multi-key set algebra over existing/missing/"
                "wrong-type keys; replies compared with the Lean model, random picks checked as relations, full dump after each history and after a third of the "
                "refused commands. distinct = (command, outcome class, argument-shape tag) triples reached")
    rep.assumptions = [
        "numeric argument syntax is Rust's str::parse (accepts +5 and 007)",
        "error replies are compared as 'an error' only",
        "replies that come out of hash maps/sets (SMEMBERS, HGETALL, HKEYS, HVALS, SUNION...) are compared as sorted collections",
        "SINTER scans keys in order (a missing key ends the scan before later keys are type-checked), as Redis does",
    ]
    ok, log, errs = proof_phase(rep, families=["ks"])
    build_server()
    findings = [f for f in load_known_findings()["open"] if f["property"] == PID]
    sess = KsSession(rep, "c03", ksgen.code_quirks())
    r = Rng(seed)
    try:
        n = 300 if tier == "quick" else 6000
        of, dis = c01.run_histories(rep, sess, r, ksgen.COLL_VOCAB, n, findings, "c03", corpus=ksgen.coll_corpus())
        c01.verdict(rep, ok, log, errs, of, dis, findings, sess, "C03")
    finally:
        sess.close()
    return rep.finish()
