"""C16 — consumer groups: exactly-once delivery under `>`, pending-list accounting, group administration.

Deciding artefact: lean/FerrousSpec/Props/C16.lean (representation-agreement invariant preserved by
ack / claim / delete-consumer / fresh deliveries for EVERY state; exactly-once for every history; XACK counts once;
XCLAIM moves; XPENDING equals the actual pending set).  This module ties `Ferrous.Grp.Code.*` to the real
`Stream` + `ConsumerGroup` (in-process, `verif_dump()` after EVERY operation: all representations must be
identical to the model's), and evaluates the property's own oracle (`Spec.gstep` on the abstraction of the
IMPLEMENTATION's dumps, `Agree` preservation, and a direct global exactly-once ledger) to find a concrete
failing history when a tie breaks.
"""
import time

from common import *

FAMILY = "grp"
PENDING_FINDINGS = os.path.join(VERIF, "pending_repo_patches", "C16_findings.json")
QUIRK_NAMES = ["startFix", "noackFix", "rangeFix", "histFix", "redeliverFix", "filterFix", "multiFix", "nameFix", "maxIdFix", "forceFix", "countZeroFix", "createParseFix", "boundFix"]
MAXID = "18446744073709551615-18446744073709551615"
BINARY = (100, 101)          # the two distinct non-UTF-8 names g\\xff / g\\xfe (c\\xff / c\\xfe); 199 = their lossy image


# ------------------------------------------------------------------ which repairs does the tree have?
def detect_quirks():
    """Syntactically local facts of /repo/src (same role as the translator's switches).
    Returns ({name: bool}, [extraction problems])."""
    problems = []

    def read(rel):
        with open(os.path.join(REPO, "src", rel), encoding="utf-8", errors="replace") as f:
            s = f.read()
        s = re.sub(r"//[^\n]*", "", s)
        return s

    def body(text, header_re):
        m = re.search(header_re, text)
        if not m:
            return None
        i = text.index("{", m.end() - 1) + 1 if text[m.end() - 1] != "{" else m.end()
        depth, j = 1, i
        while j < len(text) and depth:
            depth += {"{": 1, "}": -1}.get(text[j], 0)
            j += 1
        return text[i:j - 1]

    cg = read("storage/consumer_groups.rs")
    st = read("storage/stream.rs")
    q = {}
    new_body = body(cg, r"pub\s+fn\s+new\s*\(\s*name\s*:\s*String\s*,\s*stream_id\s*:\s*StreamId\s*\)[^{]*\{")
    if new_body is None or "last_delivered_id" not in new_body:
        problems.append("ConsumerGroup::new not found")
        q["startFix"] = False
    else:
        m = re.search(r"last_delivered_id\s*:\s*Arc::new\(\s*Mutex::new\(\s*([^)]*\)?)", new_body)
        q["startFix"] = bool(m and "stream_id" in m.group(1))
        if m and "stream_id" not in m.group(1) and not re.search(r"StreamId::new\(\s*0\s*,\s*0\s*\)", m.group(1)):
            problems.append("ConsumerGroup::new initialises the cursor with an unrecognised expression")
    rg = body(st, r"pub\s+fn\s+read_group\s*\([^{]*\{")
    if rg is None:
        problems.append("Stream::read_group not found")
        q["noackFix"] = q["histFix"] = False
    else:
        # repaired form: on a NOACK read the group's cursor is moved (`set_id`/`advance_last_id` reached from a `noack` test)
        q["noackFix"] = bool(re.search(r"\bnoack\b[^;]*\{[^}]*(set_id|advance_last_id|last_delivered_id)", rg, re.S))
        q["histFix"] = bool(re.search(r"pending_history|get_pending_range|history", rg))
    gr = body(cg, r"pub\s+fn\s+get_range\s*\([^{]*\{")
    if gr is None:
        problems.append("PendingEntryList::get_range not found")
        q["rangeFix"] = q["filterFix"] = False
    else:
        # the reversed-range test must guard the unfiltered walk (it may also appear in the consumer branch)
        unfiltered = gr[gr.rfind("} else {"):] if "} else {" in gr else gr
        q["rangeFix"] = bool(re.search(r"\bstart\s*>\s*end\b|\bend\s*<\s*start\b", unfiltered))
        # repaired form: the consumer's rows are selected from a range walk of entries_by_id by comparing the row's consumer
        q["filterFix"] = bool(re.search(r"\.range\([^)]*\)[^;]*\.filter\([^;]*\.consumer\s*==", gr, re.S)) and "consumer_ids" not in gr
    ap = body(cg, r"pub\s+fn\s+add_pending\s*(?:<[^>]*>)?\s*\([^{]*\{")
    if ap is None:
        problems.append("ConsumerGroup::add_pending not found")
        q["redeliverFix"] = False
    else:
        # repaired form: an id that is already pending is moved with transfer_ownership and only new ids are counted
        q["redeliverFix"] = bool(re.search(r"get_entry_mut\([^)]*\)[^;]*\{.*transfer_ownership\(", ap, re.S)) and not re.search(r"\+=\s*entries\.len\(\)", ap)
    hc = read("storage/commands/consumer_groups.rs")
    xr = body(hc, r"pub\s+fn\s+handle_xreadgroup\s*\([^{]*\{")
    if xr is None:
        problems.append("handle_xreadgroup not found")
        q["multiFix"] = q["maxIdFix"] = False
    else:
        # repaired form: the group of every stream is looked up (validation pass) before the first read_group call
        first_read = xr.find("read_group(")
        q["multiFix"] = first_read >= 0 and "get_consumer_group(" in xr[:first_read]
        # repaired form: an explicit id equal to the marker is told apart from `>`
        q["maxIdFix"] = bool(re.search(r'after_id\s*==\s*StreamId::max\(\)\s*&&\s*id_str\s*!=\s*">"', xr))
        q["countZeroFix"] = bool(re.search(r"count\s*==\s*Some\(0\)", xr))
    if xr is None:
        q["countZeroFix"] = False
    cm = body(cg, r"pub\s+fn\s+claim_messages\s*\([^{]*\{")
    if cm is None:
        problems.append("ConsumerGroup::claim_messages not found")
        q["forceFix"] = False
    else:
        # repaired form: the idle test is not guarded by `!force`, and a missing pending entry can be created (add_entry)
        q["forceFix"] = not re.search(r"if\s+!\s*force\b", cm) and "add_entry(" in cm
    xc = body(hc, r"fn\s+handle_xgroup_create\s*\([^{]*\{")
    if xc is None:
        problems.append("handle_xgroup_create not found")
        q["createParseFix"] = False
    else:
        # repaired form: the start id is parsed before the stream is stored
        a, b = xc.find("StreamId::from_string("), xc.find("set_value(")
        q["createParseFix"] = 0 <= a < b
    xp = body(hc, r"pub\s+fn\s+handle_xpending\s*\([^{]*\{")
    if xp is None:
        problems.append("handle_xpending not found")
        q["boundFix"] = False
    else:
        # repaired form: the bounds go through a parser that tells "unbounded" from "invalid" (no bare from_string on the bound text)
        q["boundFix"] = not re.search(r"StreamId::from_string\(\s*&(start|end)_str\s*\)", xp) and bool(re.search(r"\w*bound\w*\(\s*&start_str", xp))
    # repaired form: no group / consumer name is converted lossily any more
    name_sites = re.findall(r"(?:group_name|consumer_name|let\s+consumer)\s*=\s*(?:if[^{]*\{\s*)?match[^{]*\{\s*RespFrame::BulkString\(Some\(bytes\)\)\s*=>\s*(?:Some\()?([A-Za-z_:0-9]+)", hc)
    if not name_sites:
        problems.append("no group/consumer name parsing site found in commands/consumer_groups.rs")
    q["nameFix"] = bool(name_sites) and not any("from_utf8_lossy" in x for x in name_sites)
    return q, problems


# ------------------------------------------------------------------ parsing of driver answers
def parse_id(s):
    a, b = s.split("-")
    return (int(a), int(b))


def parse_ids(s):
    return [] if s == "." else [parse_id(x) for x in s.split("|")]


def sid(i):
    return "%d-%d" % i


def sids(l):
    return "|".join(sid(i) for i in l) if l else "."


class Ids(list):
    """the ids of the stream plus whether the key exists at all (`S ~` = no such key, `S .` = an empty stream)"""

    def __init__(self, items, exists=True):
        super().__init__(items)
        self.exists = exists

    def __eq__(self, other):
        return list.__eq__(self, other) and getattr(other, "exists", True) == self.exists

    def __ne__(self, other):
        return not self.__eq__(other)


class Dump:
    """One group of an answer: `G g last byid byc cons total min max`."""

    def __init__(self, words):
        self.text = " ".join(words)
        self.g = int(words[1])
        self.last = parse_id(words[2])
        self.by_id = [] if words[3] == "." else [(parse_id(x.split(":")[0]), int(x.split(":")[1]), int(x.split(":")[2])) for x in words[3].split("|")]
        self.pending_ids = [e[0] for e in self.by_id]


def parse_answer(ans):
    """-> (reply text, stream ids, {g: Dump})"""
    secs = [s.strip() for s in ans.split(" ;; ")]
    reply = secs[0]
    stok = secs[1].split(" ")[1]
    stream = Ids([] if stok == "~" else parse_ids(stok), stok != "~")
    groups = {}
    for s in secs[2:]:
        d = Dump(s.split(" "))
        groups[d.g] = d
    return reply, stream, groups


def name_words(w):
    """the group / consumer name tokens of a request"""
    if w[0] == "bad":
        return [w[2]]
    if w[0] in ("createc", "delc", "read", "claim", "autoclaim", "mread"):
        return [w[1], w[2]]
    if w[0] == "prange":
        return [w[1], w[5]]
    if w[0] in ("reset", "add", "del", "sleep"):
        return []
    return [w[1]]


def uses_binary_name(op):
    return any(t.isdigit() and int(t) in BINARY for t in name_words(op.split(" ")))


def handler_only(op):
    """input classes that exist only at command level: binary names (the typed API takes Rust strings), reads over several
    streams, and the explicit id that equals the API's own marker for `>`"""
    w = op.split(" ")
    if w[0] in ("mread", "bad") or uses_binary_name(op) or (w[0] == "read" and (w[3] == MAXID or w[4] == "0")):
        return True
    # XPENDING bounds other than `-` as start, `+` as end and complete ids are text for the handler's parser
    return w[0] == "prange" and not (re.match(r"^(-|\d+-\d+)$", w[2]) and re.match(r"^(\+|\d+-\d+)$", w[3]))


def op_group(op):
    w = op.split(" ")
    if w[0] in ("reset", "add", "del"):
        return None
    return int(w[2]) if w[0] == "bad" else int(w[1])


# ------------------------------------------------------------------ history generator
GROUPS = [1, 2]
CONSUMERS = [1, 2, 3]
BAD_KINDS = ["create-badid", "create-arity", "create-wrongtype", "setid-badid", "setid-arity", "setid-wrongtype", "destroy-arity",
             "destroy-wrongtype", "delc-arity", "delc-wrongtype", "createc-arity", "unknown-sub", "ack-badid", "ack-arity", "ack-wrongtype",
             "claim-badidle", "claim-badid", "claim-arity", "read-badid", "read-unbalanced", "read-syntax", "pending-badcount", "pending-syntax"]
REFUSALS = ("busy", "nogroup", "err", "refused")


class Gen:
    """Builds one history step by step, looking at the implementation's last dump so that acknowledgements,
    claims and ranges mostly hit real pending ids (plus repeats and unknown ids)."""

    def __init__(self, r, clean, quirks=None):
        self.r = r
        self.clean = clean          # clean = no operation that triggers a known deviation
        self.quirks = quirks or {}  # repairs present in the tree: what they repair is allowed in clean histories
        self.top = (0, 0)           # largest id ever added

    def some_ids(self, stream, groups, g, n_max=4):
        r = self.r
        pool = list(stream)
        if g in groups:
            pool += groups[g].pending_ids * 2
        out = []
        for _ in range(r.range(1, n_max)):
            k = r.below(10)
            if pool and k < 7:
                out.append(r.choice(pool))
            elif k < 8 and out:
                out.append(r.choice(out))            # a repeat
            else:
                out.append((r.range(0, self.top[0] + 3), r.below(2)))   # probably unknown
        return out

    def any_id(self, stream):
        r = self.r
        k = r.below(6)
        if stream and k < 3:
            return r.choice(stream)
        if k == 3:
            return (0, 0)
        return (r.range(0, self.top[0] + 3), r.below(2))

    def start_id(self, stream, groups, g):
        """start id of an XGROUP CREATE: 0 / $ / an explicit id (clean histories: only what the tree handles as prescribed)"""
        r = self.r
        if self.clean and not self.quirks.get("startFix"):
            return "0-0"
        s = r.below(7)
        if s < 2:
            return "$"
        if s < 4:
            return "0-0"
        if s < 5 and g in groups:
            return sid(groups[g].last)                 # the group's present cursor
        return sid(self.any_id(stream))

    def admin_on_state(self, stream, groups):
        """administration aimed at groups that HAVE STATE (pending entries, a moved cursor): a second XGROUP CREATE
        (must be refused with BUSYGROUP and change nothing), DELCONSUMER / CREATECONSUMER / SETID / DESTROY, and malformed commands"""
        r = self.r
        loaded = [g for g in groups if groups[g].pending_ids or groups[g].last != (0, 0)]
        g = r.choice(loaded) if loaded and r.chance(4, 5) else r.choice(GROUPS)
        k = r.below(20)
        if k < 8:
            return "create %d %s" % (g, self.start_id(stream, groups, g))
        if k < 11:
            owners = sorted({e[1] for e in groups[g].by_id}) if g in groups else []
            return "delc %d %d" % (g, r.choice(owners) if owners and r.chance(2, 3) else r.choice(CONSUMERS))
        if k < 13:
            return "createc %d %d" % (g, r.choice(CONSUMERS))
        if k < 15:
            if self.clean and not self.quirks.get("redeliverFix"):
                cur = groups[g].last if g in groups else (0, 0)
                return "setid %d %s" % (g, sid(r.choice([i for i in stream if i >= cur] + [cur])))
            return "setid %d %s" % (g, r.choice(["$", "0-0", sid(self.any_id(stream))]))
        if k < 16:
            return "destroy %d" % g
        kinds = BAD_KINDS if (not self.clean or self.quirks.get("createParseFix")) else [k for k in BAD_KINDS if k != "create-badid"]
        return "bad %s %d" % (r.choice(kinds), g)

    def handler_level(self, stream, groups):
        """input classes of the command level: reads over two streams with a failing later stream, binary (non-UTF-8) group
        and consumer names, border ids as explicit read ids"""
        r = self.r
        have = [g for g in groups if g in GROUPS]
        g = r.choice(have) if have and r.chance(4, 5) else r.choice(GROUPS)
        c = r.choice(CONSUMERS)
        k = r.below(12)
        fixed = self.quirks
        if k < 4 and (not self.clean or fixed.get("multiFix")):
            return "mread %d %d %s %d %s" % (g, c, r.choice(["-", "1", "2"]), 1 if r.chance(1, 6) else 0, r.choice(["nogroup", "wrongtype", "badid"]))
        if k < 8 and (not self.clean or fixed.get("nameFix")):
            bg, bc = r.choice(BINARY), r.choice(BINARY)
            return r.choice(["create %d 0-0" % bg, "create %d $" % bg, "read %d %d > - 0" % (bg, bc), "read %d %d > 1 0" % (g, bc), "delc %d %d" % (g, bc),
                             "createc %d %d" % (g, bc), "claim %d %d 0 0 %s" % (g, bc, sids(self.some_ids(stream, groups, g, 2))), "pending %d" % bg,
                             "destroy %d" % bg, "setid %d $" % bg, "ack %d %s" % (bg, sids(self.some_ids(stream, groups, g, 2))), "prange %d - + 10 %d" % (g, bc)])
        if not self.clean or (fixed.get("histFix") and fixed.get("maxIdFix")):
            border = r.choice([MAXID, MAXID, "18446744073709551615-0", "0-18446744073709551615", "18446744073709551615-18446744073709551614", "0-1", "0-0"])
            return "read %d %d %s %s 0" % (g, c, border, r.choice(["-", "1"]))
        return "pending %d" % g

    def next_op(self, stream, groups):
        r, clean = self.r, self.clean
        missing = [g for g in GROUPS if g not in groups]
        k = r.below(100)
        if not getattr(stream, "exists", True) and r.chance(1, 3) and (not clean or self.quirks.get("createParseFix")):
            return "bad create-badid %d" % r.choice(GROUPS)        # a refused CREATE … MKSTREAM on a key that does not exist
        if r.chance(1, 14):
            return self.handler_level(stream, groups)
        if missing and (k < 25 or (len(missing) == len(GROUPS) and k < 60)):
            g = r.choice(missing)
            return "create %d %s" % (g, self.start_id(stream, groups, g))
        if r.chance(1, 9):
            return self.admin_on_state(stream, groups)
        g = r.choice(GROUPS)
        c = r.choice(CONSUMERS)
        if k < 22:
            if r.chance(1, 15):
                return "add " + sid(self.any_id(stream))            # often stale: refused
            ms, sq = self.top
            nid = (ms, sq + 1) if r.chance(1, 4) else (ms + r.range(1, 3), r.below(2))
            self.top = nid
            return "add " + sid(nid)
        if k < 27:
            return "del " + sids(self.some_ids(stream, groups, g, 2))
        if k < 52:
            count = r.choice(["-", "-", "1", "2", "2", "3", "0"] if (not clean or self.quirks.get("countZeroFix")) else ["-", "-", "1", "2", "2", "3"])
            noack = 0 if (clean and not self.quirks.get("noackFix")) else (1 if r.chance(1, 6) else 0)
            return "read %d %d > %s %d" % (g, c, count, noack)
        if k < 55:
            if clean and not self.quirks.get("histFix"):
                return "read %d %d > 1 0" % (g, c)
            return "read %d %d %s %s %d" % (g, c, sid(self.any_id(stream)), r.choice(["-", "1", "2"]), r.below(2) if r.chance(1, 4) else 0)
        if k < 68:
            return "ack %d %s" % (g, sids(self.some_ids(stream, groups, g)))
        if k < 77:
            force = 1 if r.chance(1, 3) and (not clean or self.quirks.get("forceFix")) else 0
            ids = self.some_ids(stream, groups, g, 3)
            if force and stream and r.chance(1, 2):
                ids.append(r.choice(stream))            # FORCE on an entry that exists and may be pending for nobody
            return "claim %d %d %s %d %s" % (g, c, r.choice(["0", "0", "huge"]), force, sids(ids))
        if k < 79:
            return "autoclaim %d %d %s %s %d" % (g, c, r.choice(["0", "0", "huge"]), sid(self.any_id(stream)), r.range(0, 3))
        if k < 83:
            return "delc %d %d" % (g, c)
        if k < 85:
            return "createc %d %d" % (g, c)
        if k < 87:
            if clean and not self.quirks.get("redeliverFix"):
                # forwards only (never below the cursor): moving the cursor back re-delivers pending entries
                cur = groups[g].last if g in groups else (0, 0)
                cand = [i for i in stream if i >= cur] + [cur]
                return "setid %d %s" % (g, sid(r.choice(cand)))
            return "setid %d %s" % (g, r.choice(["$", "0-0", sid(self.any_id(stream))]))
        if k < 88:
            return "destroy %d" % g
        if k < 94:
            return "pending %d" % g
        # XPENDING with a range
        a, b = self.any_id(stream), self.any_id(stream)
        if clean and self.quirks.get("rangeFix") and r.chance(1, 4):
            return "prange %d %s %s %d -" % (g, sid(max(a, b)), sid(min(a, b)), r.choice([1, 10]))      # reversed (or equal) bounds
        if clean:
            lo, hi = min(a, b), max(a, b)
            form = r.below(3)
            s, e = [("-", "+"), (sid(lo), sid(hi)), (sid(lo), "+")][form]
            cf = str(c) if self.quirks.get("filterFix") and r.chance(1, 2) else "-"
            if self.quirks.get("boundFix") and r.chance(1, 3):
                s = r.choice([str(lo[0]), "(" + sid(lo), "-", "(" + str(lo[0]), "junk", "+"])
                e = r.choice([str(hi[0]), "(" + sid(hi), "+", "%d-" % hi[0], "-"])
            return "prange %d %s %s %d %s" % (g, s, e, r.choice([1, 2, 10]), cf)
        s = "-" if r.chance(1, 3) else sid(a)
        e = "+" if r.chance(1, 3) else sid(b)
        if r.chance(1, 3):
            # bounds as text: incomplete ids, exclusive bounds, - / + in the other position, garbage
            forms = lambda i: r.choice([str(i[0]), "(" + sid(i), "(" + str(i[0]), "+", "-", "junk", "%d-" % i[0], sid(i), "(+", "(-", "(0-0"])
            s, e = forms(a), forms(b)
        cf = "-" if r.chance(1, 2) else str(c)
        return "prange %d %s %s %d %s" % (g, s, e, r.choice([0, 1, 2, 10]), cf)


# ------------------------------------------------------------------ running one history on both sides
def impl_driver_mode(handlers):
    if not handlers:
        return impl_driver(FAMILY)
    return LineProc([os.path.join(IMPL_BIN, "impl_" + FAMILY), "handlers"], "impl-" + FAMILY + "-h")


class Runner:
    def __init__(self, rep, quirks, handlers=False):
        self.rep = rep
        # handlers=True: the same protocol answered through the real RESP handlers (handle_xgroup, handle_xreadgroup,
        # handle_xack, handle_xclaim, handle_xautoclaim, handle_xpending, handle_xadd, handle_xdel) on a StorageEngine
        self.handlers = handlers
        self.impl = impl_driver_mode(handlers)
        self.model = lean_driver(FAMILY)
        self.quirks = quirks
        self.qline = "quirks " + " ".join("1" if quirks[n] else "0" for n in QUIRK_NAMES)
        if self.model.ask(self.qline) != "ok":
            raise InternalError("Lean driver refused: " + self.qline)

    def close(self):
        self.impl.close()
        self.model.close()

    def ask_model(self, line):
        b = self.model.ask(line)
        if b is None:
            # restarted: restore the switches
            self.model.ask(self.qline)
            raise InternalError("Lean driver died on: " + line)
        return b

    def start(self):
        a = self.impl.ask("reset")
        b = self.ask_model("reset")
        if a != b:
            raise InternalError("reset answers differ: %r / %r" % (a, b))
        self.prev = parse_answer(a)
        self.ledger = {}      # g -> {"floor": id, "causes": set()}   (global exactly-once bookkeeping)

    def step(self, op, judge_op=None):
        """Returns a dict: op, impl, code, verdict (judge answer or None), failures (list of (kind, detail)).
        `judge_op`: the operation as the Spec oracle should see it (real-time layer: the idle token replaced by the
        outcome the clock prescribes); "" = do not judge this step."""
        rep = self.rep
        if not self.handlers and handler_only(op):
            return {"op": op, "impl": "skipped", "code": "skipped", "verdict": None, "oracle": []}
        a = self.impl.ask(op)
        b = self.ask_model(op)
        rep.evaluations += 1
        if uses_binary_name(op) and a and b:
            # every way of turning a command with a non-UTF-8 name down (error, NOGROUP, refusal) is one class: `refused`
            a = re.sub(r"^(err|nogroup)( ;;|$)", r"refused\2", a)
            b = re.sub(r"^(err|nogroup)( ;;|$)", r"refused\2", b)
        out = {"op": op, "impl": a, "code": b, "verdict": None, "oracle": []}
        if op.startswith("pidle ") and a and b:
            # reported idle times are compared through windows by the caller, never as text
            ra, rb = a.split(" ;; ")[0], b.split(" ;; ")[0]
            out["idle"] = (ra, rb)
            if ra.isdigit() and rb.isdigit():
                a = "idle" + a[len(ra):]
                b = "idle" + b[len(rb):]
                out["impl"], out["code"] = a, b
            judge_op = ""
        if a is None:
            out["oracle"].append(("abort", "implementation process died: " + self.impl.stderr_tail[-300:]))
            self.impl.ask("reset")
            self.ask_model("reset")
            self.prev = parse_answer("ok ;; S ~")
            return out
        if a == "bad-op" or b == "bad-op":
            if a != b:
                out["oracle"] = []
            return out
        reply, stream, groups = parse_answer(a)
        p_reply, p_stream, p_groups = self.prev
        w = op.split(" ")
        g = op_group(op)
        # ---- first-class oracle: a REFUSED command (BUSYGROUP, NOGROUP, refused XADD, malformed / wrong-type command) changes
        #      nothing: the stream and every representation of every group are exactly what they were
        if uses_binary_name(op):
            judge_op = ""         # judged by the name oracle / the refusal oracle: the Spec step has no group to start from
        if uses_binary_name(op) and reply not in REFUSALS:
            # distinct names are distinct groups / consumers: the command either is refused or acts under exactly its names
            rep.count("binary-name." + w[0])
            if re.search(r"(^| )199=|:199:|\|199=", " ".join(d.text for d in groups.values())) or 199 in groups:
                out["oracle"].append(("names", "`%s` uses a non-UTF-8 name; the dump shows it merged into the replacement-character name (199): %s"
                                      % (op, [d.text for d in groups.values()])))
        if w[0] == "mread":
            rep.count("multi-stream-read." + w[5] + ("" if reply == "refused" else ".answered"))
            if reply != "refused":
                out["oracle"].append(("refused-op", "XREADGROUP over two streams with a failing second stream (%s) was not refused: %s" % (w[5], reply)))
        if reply in REFUSALS or w[0] in ("bad", "mread"):
            cls = "%s.%s" % (w[0] if w[0] != "bad" else "bad-" + w[1], reply.split(":")[0])
            loaded = g in p_groups and bool(p_groups[g].pending_ids or p_groups[g].last != (0, 0))
            rep.count("refused." + cls + (".group-with-state" if loaded else ""))
            rep.nontrivial(("refused", cls, loaded, self.handlers))
            if w[0] == "bad" and reply != "refused":
                out["oracle"].append(("refused-op", "malformed command `%s` was not refused: %s" % (op, reply)))
            before = {h: d.text for h, d in p_groups.items()}
            after = {h: d.text for h, d in groups.items()}
            if before != after or p_stream != stream:
                changed = sorted(h for h in set(before) | set(after) if before.get(h) != after.get(h))
                out["oracle"].append(("refused-op", "`%s` was refused (%s) but changed %s: before %s / after %s" % (
                    op, reply, "group(s) %s" % changed if changed else ("the keyspace (the stream key exists now)" if not getattr(p_stream, "exists", True) and getattr(stream, "exists", True) else "the stream"),
                    [before.get(h) for h in changed] or sids(p_stream), [after.get(h) for h in changed] or sids(stream))))
            if w[0] in ("bad", "mread"):
                self.prev = (reply, stream, groups)
                return out
        if g is not None and judge_op != "" and not (reply == "nogroup" and g not in p_groups):
            pre = p_groups[g].text if g in p_groups else "none"
            post = groups[g].text if g in groups else "none"
            line = "judge %s ;; S %s ;; %s ;; %s ;; %s" % (judge_op or op, sids(p_stream), pre, reply, post)
            v = self.ask_model(line)
            rep.evaluations += 1
            out["verdict"] = v
            out["judge_line"] = line
            if v == "bad-op":
                raise InternalError("judge refused: " + line)
            if v.startswith("fail"):
                out["oracle"].append(("step", v))
            # other groups must be untouched ("these effects and no others")
            for h in set(p_groups) | set(groups):
                if h != g and (p_groups.get(h) and p_groups[h].text) != (groups.get(h) and groups[h].text):
                    out["oracle"].append(("isolation", "operation on group %d changed group %d" % (g, h)))
            created = w[0] == "create" and reply == "ok"       # XGROUP CREATE … MKSTREAM creates a missing key, nothing else may
            if list(p_stream) != list(stream) or (getattr(p_stream, "exists", True) != getattr(stream, "exists", True) and not created):
                out["oracle"].append(("isolation", "group operation changed the stream"))
        elif g is None:
            for h in set(p_groups) | set(groups):
                if (p_groups.get(h) and p_groups[h].text) != (groups.get(h) and groups[h].text):
                    out["oracle"].append(("isolation", "stream operation changed group %d" % h))
        # ---- global exactly-once ledger (independent of the Lean oracle)
        if g is not None and reply not in ("nogroup", "panic", "refused", "err", "busy"):
            if w[0] == "create" and reply == "ok":
                start = (p_stream[-1] if p_stream else (0, 0)) if w[2] == "$" else parse_id(w[2])
                self.ledger[g] = {"floor": start}
            elif w[0] == "destroy":
                self.ledger.pop(g, None)
            elif w[0] == "setid" and g in self.ledger:
                self.ledger[g]["floor"] = (p_stream[-1] if p_stream else (0, 0)) if w[2] == "$" else parse_id(w[2])
            elif w[0] == "read" and w[3] == ">" and g in self.ledger:
                floor = self.ledger[g]["floor"]
                want = [i for i in p_stream if i > floor]
                if w[4] not in ("-", "0"):                     # COUNT 0 = no limit
                    want = want[:int(w[4])]
                got = parse_ids(reply)
                if got != want:
                    out["oracle"].append(("exactly-once", "XREADGROUP > delivered %s; entries after the last delivery/start %s are %s" % (sids(got), sid(floor), sids(want))))
                if got:
                    self.ledger[g]["floor"] = max(got[-1], floor)
        self.prev = (reply, stream, groups)
        return out

    def run_history(self, ops):
        self.start()
        return [self.step(op) for op in ops]


# ------------------------------------------------------------------ real-time layer: XCLAIM's idle threshold
def timed_timeline(T):
    """One timeline exercising a REAL min-idle threshold T (ms).  `sleep` is a pseudo-operation.  Two sleeps of T+150 ms."""
    t = str(T)
    return ["add 1-0", "add 2-0", "add 3-0", "create 1 0-0", "read 1 1 > - 0",
            "claim 1 2 %s 0 1-0" % t,                    # freshly delivered: idle ~ 0 < T  -> refused
            "sleep %d" % (T + 150),
            "pidle 1 1-0",
            "claim 1 2 %s 0 1-0" % t,                    # idle >= T -> moves to c2, last_delivery restarts
            "pidle 1 1-0",                               # XPENDING's idle restarted (< T/2)
            "claim 1 3 %s 0 1-0" % t,                    # immediately after c2's claim: must be REFUSED, owner stays c2
            "claim 1 3 %s 1 1-0" % t,                    # ... with FORCE too: FORCE does not replace the idle threshold
            "claim 1 3 %s 1 2-0" % t,                    # FORCE bypasses the test (and restarts the idle time)
            "claim 1 2 %s 0 2-0" % t,                    # ... so this one is refused
            "claim 1 1 0 0 3-0",                         # min-idle 0 always passes (and restarts the idle time)
            "claim 1 2 %s 0 3-0" % t,                    # ... refused
            "add 4-0", "read 1 1 > - 0",
            "claim 1 2 %s 0 4-0|1-0" % t,                # a fresh delivery and a fresh claim: both refused
            "pending 1",
            "sleep %d" % (T + 150),
            "pidle 1 1-0",
            "claim 1 3 %s 0 1-0" % t,                    # now the threshold has elapsed again
            "claim 1 2 %s 0 2-0|3-0|4-0" % t,
            "pidle 1 4-0",
            "pending 1"]


class Timed:
    """Runs timelines on several runners in lockstep (they share the sleeps).  The runner's Lean driver is given the
    check's own clock (`tnow`) before every operation, so `Code.claimT` decides with the same times; an outcome is
    judged only when the clock leaves no doubt (interval of possible real idle times on one side of T with margin)."""

    def __init__(self, runners, T):
        self.runners, self.T = runners, T
        self.t0 = time.monotonic()
        self.last = [{} for _ in runners]          # per runner: id -> (clock before, clock after) of its last delivery/claim
        self.indeterminate = 0

    def now(self):
        return int((time.monotonic() - self.t0) * 1000)

    def run(self, ops):
        for r in self.runners:
            r.start()
        steps = [[] for _ in self.runners]
        alive = [True] * len(self.runners)
        for op in ops:
            if op.startswith("sleep "):
                time.sleep(int(op.split(" ")[1]) / 1000.0)
                continue
            for k, r in enumerate(self.runners):
                if alive[k]:
                    st = self.one(k, r, op)
                    if st is None:
                        alive[k] = False          # scheduling noise: the rest of this timeline is not judged
                        self.indeterminate += 1
                    else:
                        steps[k].append(st)
        return steps

    def one(self, k, r, op):
        T, last = self.T, self.last[k]
        w = op.split(" ")
        p_reply, p_stream, p_groups = r.prev
        b = self.now()
        r.ask_model("tnow %d" % b)
        if w[0] == "claim":
            ids = parse_ids(w[5])
            minidle = 2 ** 64 - 1 if w[3] == "huge" else int(w[3])
            pend = set(p_groups[int(w[1])].pending_ids) if int(w[1]) in p_groups else set()
            st = r.step(op, judge_op="")          # judged below, once the expectation is known
            a = self.now()
            want, doubt = [], False
            for i in ids:
                if i not in pend:
                    continue
                if minidle == 0:
                    ok = True                # FORCE does not replace the idle test (it only creates missing rows)
                else:
                    lo = b - last.get(i, (0, 0))[1]
                    hi = a - last.get(i, (0, 0))[0]
                    if lo >= minidle + 50:
                        ok = True
                    elif hi <= minidle // 2:
                        ok = False
                    else:
                        doubt = True
                        break
                if ok:
                    want.append(i)
            if doubt:
                return None
            got = parse_ids(st["impl"].split(" ;; ")[0]) if st["impl"] and re.match(r"^(\.|\d+-\d+)", st["impl"]) else None
            want_reply = [i for i in want if i in p_stream]
            if got != want_reply:
                st["oracle"].append(("idle", "XCLAIM min-idle %s at clock %d..%d ms claimed %s; by the last deliveries %s the eligible ids are %s"
                                     % (w[3], b, a, sids(got or []), {sid(i): last.get(i) for i in ids}, sids(want_reply))))
            # the Spec oracle (owner map, Agree preservation) with the outcome the clock prescribes
            if len(want) in (0, len([i for i in ids if i in pend])):
                tok = "0" if want else "huge"
                jop = " ".join(w[:3] + [tok, "0"] + w[5:])
                post = parse_answer(st["impl"])[2]
                g = int(w[1])
                line = "judge %s ;; S %s ;; %s ;; %s ;; %s" % (jop, sids(p_stream), p_groups[g].text if g in p_groups else "none",
                                                            st["impl"].split(" ;; ")[0], post[g].text if g in post else "none")
                v = r.ask_model(line)
                st["verdict"], st["judge_line"] = v, line
                if v.startswith("fail"):
                    st["oracle"].append(("step", v))
            for i in (got or []):
                last[i] = (b, a)
            r.rep.nontrivial(("timed-claim", w[3] == "0", w[4], bool(want), bool(got), "h" if r.handlers else "api"))
            return st
        st = r.step(op)
        a = self.now()
        if w[0] == "read" and st["impl"] and w[5] == "0":
            for i in parse_ids(st["impl"].split(" ;; ")[0]) if re.match(r"^\d+-\d+", st["impl"]) else []:
                last[i] = (b, a)
        if w[0] == "pidle" and "idle" in st and st["idle"][0].isdigit():
            i = parse_id(w[2])
            lo = b - last.get(i, (0, 0))[1]
            hi = a - last.get(i, (0, 0))[0]
            for who, val in (("implementation", int(st["idle"][0])), ("model", int(st["idle"][1]))):
                if not (lo - 10 <= val <= hi + 10):
                    kind = "idle" if who == "implementation" else "idle-model"
                    st["oracle"].append((kind, "XPENDING reports idle %d ms (%s) for %s; its last delivery/claim was %d..%d ms ago" % (val, who, w[2], lo, hi)))
            r.rep.nontrivial(("pidle", int(st["idle"][0]) < T // 2, "h" if r.handlers else "api"))
        return st


# ------------------------------------------------------------------ classification against known findings
def load_findings():
    fs = [f for f in load_known_findings().get("open", []) if isinstance(f, dict) and f.get("property") == "C16"]
    if os.path.exists(PENDING_FINDINGS):
        have = {f["id"] for f in fs}
        for f in json.load(open(PENDING_FINDINGS)):
            if f.get("property") == "C16" and f["id"] not in have:
                fs.append(f)
    return fs


def shapes_of(step, taint):
    """The shapes (`match` keys of findings) that explain the oracle failures of this step; [] = unexplained.
    `taint` = {g: set of shapes} already seen in this history (later steps can be consequences)."""
    op = step["op"]
    w = op.split(" ")
    g = op_group(op)
    v = step["verdict"] or ""
    aspects = v.split(" ")[1:] if v.startswith("fail") else []
    core = [a for a in aspects if not a.startswith("pre-disagrees")]
    pre_bad = any(a.startswith("pre-disagrees") for a in aspects)
    shapes = set()
    if uses_binary_name(op):
        return ["binary-names-collide"]           # every symptom of a step that names a binary group / consumer
    if w[0] == "claim" and w[4] == "1":
        return ["xclaim-force-backwards"]          # FORCE: replaces the idle test / creates no row
    if w[0] == "read" and w[4] == "0":
        return ["xreadgroup-count-zero"]
    if w[0] == "bad" and w[1] == "create-badid":
        return ["refused-create-leaves-stream"] if all(k == "refused-op" and "keyspace" in d for k, d in step["oracle"]) else []
    if w[0] == "prange" and handler_only(op):
        return ["xpending-unparsed-bound-is-unbounded"] if all(k == "step" for k, d in step["oracle"]) else []
    if w[0] == "mread":
        return ["multi-stream-partial-delivery"] if all(k == "refused-op" and "changed" in d for k, d in step["oracle"]) else []
    for kind, det in step["oracle"]:
        if kind == "step" and w[0] == "read" and w[3] == MAXID:
            shapes.add("explicit-max-id-read-as-gt")
        elif kind == "step":
            if w[0] == "create" and core == ["cursor"] and w[2] != "0-0":
                shapes.add("start-ignored")
            elif w[0] == "read" and w[3] == ">" and w[5] == "1" and core == ["cursor"]:
                shapes.add("noack-no-advance")
            elif w[0] == "read" and w[3] != ">":
                shapes.add("explicit-id-rereads-stream")
            elif w[0] == "read" and w[3] == ">" and core and all(a.startswith("agree:") for a in core):
                # a delivered id was already pending (cursor moved back by SETID, or left behind by NOACK / ignored start)
                shapes.add("redelivery-breaks-accounting")
            elif w[0] == "prange" and w[5] == "-" and core == ["reply"] and step["impl"].startswith("panic"):
                shapes.add("xpending-reversed-range-panics")
            elif w[0] == "prange" and w[5] != "-" and core == ["reply"] and not pre_bad:
                shapes.add("xpending-consumer-filter-ignores-range")
            elif pre_bad and taint.get(g):
                shapes.add("consequence")
            else:
                return []
        elif kind == "exactly-once":
            t = taint.get(g, set())
            if t & {"start-ignored", "noack-no-advance", "explicit-id-rereads-stream", "multi-stream-partial-delivery", "explicit-max-id-read-as-gt",
                    "xreadgroup-count-zero"}:
                shapes.add("consequence")
            else:
                return []
        else:
            return []
    return sorted(shapes)


def first_failures(steps):
    """Walks a history; returns (known {shape: (index, step)}, unexplained [(index, step)])."""
    taint, known, unexplained = {}, {}, []
    for i, st in enumerate(steps):
        if st["op"].startswith("destroy") or (st["op"].startswith("create") and st["impl"] and st["impl"].startswith("ok")):
            taint.pop(op_group(st["op"]), None)
        if not st["oracle"]:
            continue
        sh = shapes_of(st, taint)
        if not sh:
            unexplained.append((i, st))
            continue
        g = op_group(st["op"])
        for s in sh:
            if s != "consequence":
                taint.setdefault(g, set()).add(s)
                known.setdefault(s, (i, st))
    return known, unexplained


# ------------------------------------------------------------------ the check
CORPUS = {
    "xclaim-force-backwards": ["add 1-0", "add 2-0", "add 3-0", "create 1 0-0", "read 1 1 > 1 0", "claim 1 2 huge 0 1-0", "claim 1 2 huge 1 1-0",
                               "claim 1 3 0 1 3-0|9-9", "pending 1"],
    # witnesses of the Lean witness lemmas / proposed known findings (replayed first, every run)
    "start-ignored": ["add 1-0", "add 2-0", "create 1 $", "read 1 1 > - 0"],
    "noack-no-advance": ["add 1-0", "create 1 0-0", "read 1 1 > - 1", "read 1 2 > - 1"],
    "explicit-id-rereads-stream": ["add 1-0", "create 1 0-0", "read 1 1 > - 0", "read 1 1 0-0 - 0", "pending 1", "ack 1 1-0", "pending 1"],
    "redelivery-breaks-accounting": ["add 1-0", "create 1 0-0", "read 1 1 > - 0", "setid 1 0-0", "read 1 2 > - 0", "pending 1"],
    "xpending-reversed-range-panics": ["add 1-0", "create 1 0-0", "read 1 1 > - 0", "prange 1 5-0 1-0 10 -"],
    "xpending-consumer-filter-ignores-range": ["add 1-0", "add 2-0", "create 1 0-0", "read 1 1 > - 0", "prange 1 2-0 2-0 10 1"],
}
CORPUS_H = {
    "xreadgroup-count-zero": ["add 1-0", "add 2-0", "create 1 0-0", "read 1 1 > 0 0", "pending 1", "read 1 1 > - 0", "read 1 1 0-0 0 0"],
    "refused-create-leaves-stream": ["bad create-badid 1", "bad create-badid 2", "create 1 $"],
    "xpending-unparsed-bound-is-unbounded": ["add 1-0", "add 2-0", "add 2-1", "add 3-0", "create 1 0-0", "read 1 1 > 3 0", "read 1 2 > - 0",
                                             "prange 1 2 2 10 -", "prange 1 3 + 10 -", "prange 1 (2-0 + 10 -", "prange 1 - (3-0 10 -", "prange 1 + + 10 -",
                                             "prange 1 3 + 10 1", "prange 1 junk + 10 -", "prange 1 - 7- 10 -"],
    # witnesses that exist only at command level (run through the handlers)
    "multi-stream-partial-delivery": ["add 1-0", "add 2-0", "create 1 0-0", "mread 1 1 - 0 nogroup", "read 1 2 > - 0"],
    "binary-names-collide": ["add 1-0", "create 100 0-0", "create 101 0-0", "read 100 100 > - 0", "read 101 101 > - 0", "pending 101"],
    "explicit-max-id-read-as-gt": ["add 1-0", "create 1 0-0", "read 1 1 %s - 0" % MAXID, "pending 1"],
}
EXTRA_CORPUS = [
    # refused administration on a group WITH STATE changes nothing (second CREATE at the same / another start id / $, NOGROUP, malformed)
    ["add 1-0", "add 2-0", "add 3-0", "create 1 0-0", "read 1 1 > 2 0", "read 1 2 > 1 0", "ack 1 1-0", "create 1 0-0", "pending 1",
     "create 1 $", "pending 1", "create 1 2-0", "prange 1 - + 10 -", "add 4-0", "read 1 3 > - 0", "ack 1 2-0|3-0|4-0", "pending 1",
     "setid 2 0-0", "delc 2 1", "createc 2 1", "ack 2 1-0", "claim 2 1 0 0 1-0", "read 2 1 > - 0", "pending 2", "bad create-badid 1",
     "bad create-arity 1", "bad setid-badid 1", "bad delc-arity 1", "bad create-wrongtype 1", "bad unknown-sub 1", "pending 1",
     "create 2 $", "create 2 0-0", "add 5-0", "read 2 1 > - 0", "destroy 2", "create 2 0-0", "read 2 1 > 1 0", "create 2 5-0", "read 2 2 > 1 0", "pending 2"],
    ["add 1-0", "add 2-0", "add 3-0", "create 1 0-0", "create 2 0-0", "read 1 1 > 1 0", "read 1 2 > 1 0", "read 2 3 > - 0",
     "claim 1 3 0 0 1-0|1-0|9-9", "ack 1 2-0|2-0|7-7", "pending 1", "pending 2", "delc 2 3", "pending 2", "del 1-0", "claim 1 1 huge 0 1-0",
     "claim 1 1 huge 1 1-0", "prange 1 - + 10 -", "destroy 2", "pending 2", "read 1 1 > - 0", "add 4-0", "read 1 1 > 0 0", "read 1 1 > 2 0"],
]


def quirk_of_shape(shape):
    return {"start-ignored": "startFix", "noack-no-advance": "noackFix", "xpending-reversed-range-panics": "rangeFix",
            "explicit-id-rereads-stream": "histFix", "redelivery-breaks-accounting": "redeliverFix",
            "xpending-consumer-filter-ignores-range": "filterFix", "multi-stream-partial-delivery": "multiFix",
            "binary-names-collide": "nameFix", "explicit-max-id-read-as-gt": "maxIdFix", "xclaim-force-backwards": "forceFix",
            "xreadgroup-count-zero": "countZeroFix", "refused-create-leaves-stream": "createParseFix",
            "xpending-unparsed-bound-is-unbounded": "boundFix"}.get(shape)


def shrink_history(runner, ops, still_fails):
    return shrink_list(ops, lambda cand: still_fails(runner.run_history(cand)))


def replay_obj(ops, steps, idx, quirks):
    return {"family": FAMILY, "ops": ops, "failing_step": idx, "quirks": quirks,
            "steps": [{"op": s["op"], "impl": s["impl"], "code": s["code"], "spec_verdict": s["verdict"], "oracle": s["oracle"]} for s in steps]}


def main(tier, seed):
    rep = Report("C16", tier, seed)
    rep.rule = ("histories of 15-45 operations over one stream, 2 groups x 3 consumers: XADD/XDEL in between, XGROUP CREATE at 0 / $ / explicit id, "
                "DESTROY, SETID backwards/forwards/$, CREATECONSUMER, DELCONSUMER, XREADGROUP > with COUNT 0/1/2/3/none with and without NOACK, "
                "XREADGROUP with explicit ids, XACK with repeats and unknown ids, XCLAIM with min-idle 0/huge and FORCE, XAUTOCLAIM, XPENDING summary and "
                "ranges (bounded, open, reversed, per consumer); after EVERY operation the reply and verif_dump() of every group are compared with the Lean "
                "Code model, and the Spec oracle is evaluated on the implementation's own dumps. 'clean' histories contain no operation that triggers a "
                "listed finding and must pass every oracle. distinct = (operation, reply class, oracle verdict, profile) tuples reached")
    rep.assumptions = [
        "generated histories use only uniform idle tests (min-idle 0 or FORCE passes, u64::MAX fails; `claim_timed` proves the timed claim is then the Boolean one); a REAL threshold is exercised by the real-time layer (fixed timelines, thresholds 300-400 ms, outcomes judged only when the check's own clock leaves a margin of 50 ms / T/2), with `Code.claimT` given the check's clock",
        "StreamData::range_after (binary search) is modelled as a filter over the strictly sorted id list (the search itself is C15's subject)",
        "entry fields are not modelled (ids only); names are ASCII tokens; HashMap iteration order is canonicalised by sorting",
        "FORCE is specified as bypassing the idle test only (Redis' creation of missing PEL entries is outside the property text)",
        "XAUTOCLAIM is compared with the Code model and judged for representation agreement only",
        "two in-process modes: directly on Stream/ConsumerGroup, and (corpus + every third history) through the real RESP handlers of commands/consumer_groups.rs and commands/streams.rs on a StorageEngine; the TCP layer (server.rs dispatch, connection loop) is not exercised here (C05), nor are operations on a missing group/key at handler level (answered `nogroup` by the driver)",
    ]
    ok, log, errs = proof_phase(rep, families=[FAMILY])
    build_harness(FAMILY)
    quirks, problems = detect_quirks()
    forced = os.environ.get("C16_FORCE_QUIRKS")          # sanity-testing of the violation path only
    if forced:
        quirks = {n: forced[i] == "1" for i, n in enumerate(QUIRK_NAMES)}
    rep.extra["tree_switches"] = quirks
    rep.extra["extraction_problems"] = problems
    findings = load_findings()
    if os.environ.get("C16_IGNORE_FINDING"):             # sanity-testing of the violation path only
        findings = [f for f in findings if f["id"] != os.environ["C16_IGNORE_FINDING"]]
    # a finding whose repair is in the tree is closed: if its shape shows up again it is a NEW violation, not a known one
    by_shape = {f["match"]: f for f in findings if not (quirk_of_shape(f["match"]) and quirks.get(quirk_of_shape(f["match"])))}
    rep.extra["open_findings_expected"] = sorted(f["id"] for f in by_shape.values())

    run = Runner(rep, quirks)
    hrun = Runner(rep, quirks, handlers=True)
    disagreements = []       # impl vs Code
    new_failures = []        # (ops, steps, idx)  unexplained oracle failures
    known_seen = {}          # shape -> (ops, idx, step)
    r = Rng(seed)

    def account(ops, steps, profile, timed=None):
        for i, s in enumerate(steps):
            if s["impl"] != s["code"]:
                disagreements.append({"ops": ops if timed else ops[:i + 1], "op": s["op"], "impl": s["impl"], "code": s["code"], "timed": timed, "handlers": "handlers" in profile,
                                      "steps": steps if timed else None})
                break
        known, unexplained = first_failures(steps)
        for sh, (i, s) in known.items():
            if sh in by_shape:
                known_seen.setdefault(sh, (ops, i, s))
            else:
                unexplained.append((i, s))
        if unexplained:
            i = min(u[0] for u in unexplained)
            new_failures.append((ops, steps, i, timed, "handlers" in profile))
        for s in steps:
            w = s["op"].split(" ")
            reply = (s["impl"] or "abort").split(" ;; ")[0]
            cls = "ids" if re.match(r"^\d+-\d+", reply) else ("n" if reply.isdigit() else reply.split(" ")[0] if not reply[0].isdigit() else "summary")
            verdict = (s["verdict"] or "-").split(" ")
            rep.count("op." + w[0])
            rep.nontrivial((w[0], w[3] if w[0] == "read" else "", cls, tuple(sorted(set(x.split(":")[0] for x in verdict))), profile))
        rep.traces_validated += 1

    try:
        # ---- corpus: witnesses first
        for shape, ops in CORPUS.items():
            steps = run.run_history(ops)
            account(ops, steps, "corpus")
            known, unexplained = first_failures(steps)
            reproduced = shape in known
            qn = quirk_of_shape(shape)
            if shape in by_shape and not reproduced and not (qn and quirks.get(qn)):
                rep.violation("known finding %s no longer reproduces on its witness: the known-findings list / model is stale" % by_shape[shape]["id"],
                              {"finding": by_shape[shape], "replay": replay_obj(ops, steps, len(ops) - 1, quirks)}, no_input=True)
        for shape, ops in CORPUS_H.items():
            steps = hrun.run_history(ops)
            account(ops, steps, "corpus-handlers")
            known, unexplained = first_failures(steps)
            if shape in by_shape and shape not in known:
                rep.violation("known finding %s no longer reproduces on its witness: the known-findings list / model is stale" % by_shape[shape]["id"],
                              {"finding": by_shape[shape], "replay": replay_obj(ops, steps, len(ops) - 1, quirks)}, no_input=True)
        for ops in EXTRA_CORPUS:
            account(ops, run.run_history(ops), "corpus")
        for ops in list(CORPUS.values()) + EXTRA_CORPUS:
            account(ops, hrun.run_history(ops), "corpus-handlers")
        # ---- real-time layer: a REAL min-idle threshold (both drivers in lockstep; 2 sleeps of T+150 ms per timeline)
        indeterminate = 0
        for T in ([300] if tier == "quick" else [300, 400, 350, 300]):
            tl = timed_timeline(T)
            tm = Timed([run, hrun], T)
            res = tm.run(tl)
            indeterminate += tm.indeterminate
            account(tl, res[0], "timed", timed=T)
            account(tl, res[1], "timed-handlers", timed=T)
        rep.extra["timed_layer"] = {"thresholds_ms": [300] if tier == "quick" else [300, 400, 350, 300], "indeterminate_timelines": indeterminate,
                                    "rule": "outcome judged only if the possible real idle time is >= T+50 ms (must pass) or <= T/2 (must be refused) by the check's own clock"}
        # ---- generated histories
        n_hist = 600 if tier == "quick" else 12000
        for h in range(n_hist):
            hr = r.fork("h%d" % h)
            clean = hr.chance(1, 2)
            gen = Gen(hr, clean, quirks)
            run.start()
            ops, steps = [], []
            for _ in range(hr.range(15, 45)):
                op = gen.next_op(run.prev[1], run.prev[2])
                st = run.step(op)
                ops.append(op)
                steps.append(st)
            account(ops, steps, "clean" if clean else "quirky")
            if h % 2 == 0:
                # the same history through the command handlers
                account(ops, hrun.run_history(ops), "clean-handlers" if clean else "quirky-handlers")
            if h < 3:
                rep.sample({"history": ops[:12], "profile": "clean" if clean else "quirky"})
        if tier == "thorough":
            # exhaustive small scope (validation of the model, flagged as such): every sequence of <= 4 operations over a
            # 10-letter alphabet that contains every deviation trigger, after a fixed prefix
            import itertools
            prefix = ["add 1-0", "add 2-0", "create 1 0-0"]
            alphabet = ["add 3-0", "read 1 1 > 1 0", "read 1 2 > - 0", "read 1 1 > - 1", "read 1 2 0-0 - 0", "ack 1 1-0|1-0|9-9",
                        "claim 1 2 0 0 1-0|2-0", "delc 1 1", "setid 1 0-0", "del 1-0"]
            cnt = 0
            for k in range(1, 5):
                for tup in itertools.product(alphabet, repeat=k):
                    ops = prefix + list(tup) + ["pending 1"]
                    account(ops, run.run_history(ops), "exhaustive")
                    cnt += 1
            rep.extra["exhaustive_small_scope"] = "all %d sequences of <= 4 operations over %d operations (incl. NOACK, explicit id, SETID back, XDEL) after %s" % (cnt, len(alphabet), prefix)
        # ---- verdict (DESIGN 2.5)
        for sh, (ops, i, s) in known_seen.items():
            f = by_shape[sh]
            rep.known(f["id"], f["what"])
        if new_failures and new_failures[0][3] is None and any(t[3] for t in new_failures):
            new_failures.sort(key=lambda t: (t[3] is not None, len(t[0])))
        if new_failures and new_failures[0][3]:
            # a real-time failure: the timeline is its own minimal replay (it cannot be shrunk without its sleeps)
            ops, steps, idx, T, _h = new_failures[0]
            what = "; ".join("%s: %s" % kd for kd in steps[idx]["oracle"])
            ro = replay_obj(ops, steps, idx, quirks)
            ro["timed_T"] = T
            rep.violation("C16 oracle fails on the implementation at `%s` (real-time layer, min-idle %d ms): %s" % (steps[idx]["op"], T, what),
                          {"replay": ro, "lean_errors": errs[:5], "obligation": "Ferrous.C16.claim_resets_idle"})
        elif new_failures:
            new_failures.sort(key=lambda t: len(t[0]))
            ops, steps, idx, _, via_handlers = new_failures[0]
            ops = ops[:idx + 1]
            srun = hrun if via_handlers else run

            def still(steps2):
                k, u = first_failures(steps2)
                u += [(i, s) for sh, (i, s) in k.items() if sh not in by_shape]
                return bool(u)
            small = shrink_history(srun, ops, still)
            steps2 = srun.run_history(small)
            k, u = first_failures(steps2)
            u += [(i, s) for sh, (i, s) in k.items() if sh not in by_shape]
            i = min(x[0] for x in u) if u else len(small) - 1
            what = "; ".join("%s: %s" % kd for kd in steps2[i]["oracle"]) if u else "oracle failure (not reproduced after shrinking)"
            rep.violation("C16 oracle fails on the implementation at `%s`: %s" % (small[i], what),
                          {"replay": dict(replay_obj(small, steps2, i, quirks), handlers=via_handlers), "lean_errors": errs[:5],
                           "other_failing_histories": [t[0][:t[2] + 1] for t in new_failures[1:4] if not t[3]]})
        elif not ok:
            rep.violation("proof obligations of C16 no longer check", {"theorem_errors": errs[:10], "log_tail": log[-3000:]}, no_input=True)
        elif disagreements:
            disagreements.sort(key=lambda d: (d["timed"] is not None, len(d["ops"])))
            d = disagreements[0]
            drun = hrun if d["handlers"] else run
            small = d["ops"] if d["timed"] else shrink_list(d["ops"], lambda cand: any(s["impl"] != s["code"] for s in drun.run_history(cand)))
            rep.violation("correspondence Code (Lean model of consumer_groups.rs / read_group) vs implementation broke (%d histories) but the property oracles hold on everything explored"
                          % len(disagreements),
                          {"correspondence": "Ferrous.Grp.Code.gstep / St.* vs Stream + ConsumerGroup with verif_dump()", "tree_switches": quirks,
                           "extraction_problems": problems, "timed_T": d["timed"],
                           "replay": dict(replay_obj(small, d["steps"] if d["timed"] else drun.run_history(small), len(small) - 1, quirks), handlers=d["handlers"])}, no_input=True)
    finally:
        run.close()
        hrun.close()
    rep.extra["model_disagreements"] = len(disagreements)
    rep.extra["histories_with_unexplained_oracle_failures"] = len(new_failures)
    rep.extra["known_shapes_seen"] = sorted(known_seen)
    return rep.finish()


def replay(path):
    """Re-executes a replay file against the current tree and prints the three outputs per step."""
    obj = json.load(open(path))
    rp = obj.get("replay") or obj
    ops = rp["ops"]
    rep = Report("C16", "replay", obj.get("seed", 0))
    build_driver(FAMILY)
    build_harness(FAMILY)
    quirks, _ = detect_quirks()
    findings = load_findings()
    by_shape = {f["match"]: f for f in findings}
    run = Runner(rep, quirks, handlers=bool(rp.get("handlers")))
    try:
        if rp.get("timed_T"):
            steps = Timed([run], rp["timed_T"]).run(ops)[0]
        else:
            steps = run.run_history(ops)
    finally:
        run.close()
    bad = False
    for i, s in enumerate(steps):
        print("%3d  %s" % (i, s["op"]))
        print("       impl: %s" % s["impl"])
        if s["impl"] != s["code"]:
            print("       CODE: %s   <-- model disagrees" % s["code"])
            bad = True
        if s["verdict"]:
            print("       spec: %s" % s["verdict"])
        for kd in s["oracle"]:
            print("       ORACLE %s: %s" % kd)
    known, unexplained = first_failures(steps)
    unexplained += [(i, s) for sh, (i, s) in known.items() if sh not in by_shape]
    for sh in known:
        if sh in by_shape:
            print("KNOWN-FINDING: property=C16 %s %s" % (by_shape[sh]["id"], by_shape[sh]["what"]))
    if unexplained:
        print("VIOLATION property=C16 replay=%s" % path)
        return 1
    if bad:
        print("VIOLATION property=C16 replay=%s no-failing-input-found" % path)
        return 1
    print("OK property=C16 replay reproduced no unexplained oracle failure")
    return 0
