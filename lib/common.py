"""Shared machinery of the ferrous verification checks (see DESIGN.md sections 2-3).

Everything here is orchestration: building the Lean project and the Rust
harness, talking to the two line-protocol drivers and to a real server,
auditing axioms, writing evidence and reporting violations.  The deciding
artefacts are the Lean theorems; the correspondence run ties the Lean `Code`
models to /repo's current working tree.
"""
import fcntl
import json
import os
import re
import shutil
import signal
import socket
import subprocess
import sys
import time

VERIF = os.path.dirname(os.path.dirname(os.path.abspath(__file__)))
REPO = os.environ.get("FERROUS_REPO", "/repo")
LEAN = os.environ.get("VERIF_LEAN", os.path.join(VERIF, "lean"))
CACHE = os.environ.get("VERIF_CACHE", os.path.join(VERIF, ".cache"))
HARNESS = os.path.join(VERIF, "harness")
LEAN_BIN = os.path.join(LEAN, ".lake", "build", "bin")
IMPL_BIN = os.path.join(CACHE, "target-harness", "debug")
SERVER_BIN = os.environ.get("VERIF_SERVER_BIN_ALL") or os.path.join(CACHE, "target-bin", "debug", "ferrous")      # (override: exploration against another build of the same tree only)
REPLAYS = os.environ.get("VERIF_REPLAYS", os.path.join(VERIF, "replays"))
EVIDENCE = os.environ.get("VERIF_EVIDENCE", os.path.join(VERIF, "evidence"))
ALLOWED_AXIOMS = {"propext", "Classical.choice", "Quot.sound"}

ENV = dict(os.environ)
ENV.update({"CARGO_NET_OFFLINE": "true", "RUST_BACKTRACE": "0"})


class InternalError(Exception):
    """The machinery itself failed (not a verdict about ferrous)."""


class ModelBroken(Exception):
    """The executable model no longer builds against the tables regenerated from the current sources
    (an extraction pattern no longer matches, or a generated table contradicts the model's types):
    the tie to the code is broken before any search can run."""


# --------------------------------------------------------------------------
# PRNG: every random choice of a run derives from one SplitMix64 state.
# --------------------------------------------------------------------------
class Rng:
    M = (1 << 64) - 1

    def __init__(self, seed):
        self.s = (seed * 0x9E3779B97F4A7C15 + 0x1234567) & self.M

    def next(self):
        self.s = (self.s + 0x9E3779B97F4A7C15) & self.M
        z = self.s
        z = ((z ^ (z >> 30)) * 0xBF58476D1CE4E5B9) & self.M
        z = ((z ^ (z >> 27)) * 0x94D049BB133111EB) & self.M
        return z ^ (z >> 31)

    def below(self, n):
        return self.next() % n if n > 0 else 0

    def range(self, a, b):
        """inclusive"""
        return a + self.below(b - a + 1)

    def choice(self, xs):
        return xs[self.below(len(xs))]

    def chance(self, num, den):
        return self.below(den) < num

    def bytes(self, n):
        return bytes(self.below(256) for _ in range(n))

    def shuffle(self, xs):
        for i in range(len(xs) - 1, 0, -1):
            j = self.below(i + 1)
            xs[i], xs[j] = xs[j], xs[i]

    def fork(self, tag):
        return Rng(self.next() ^ (hash_str(tag) & self.M))


def hash_str(s):
    h = 0xCBF29CE484222325
    for c in s.encode():
        h = ((h ^ c) * 0x100000001B3) & ((1 << 64) - 1)
    return h


def fnv1a(key: bytes) -> int:
    """The shard hash of ferrous (FNV-1a 64)."""
    h = 0xCBF29CE484222325
    for c in key:
        h = ((h ^ c) * 0x100000001B3) & ((1 << 64) - 1)
    return h


def hx(b: bytes) -> str:
    return b.hex() if b else "-"


def unhx(s: str) -> bytes:
    return b"" if s == "-" else bytes.fromhex(s)


# --------------------------------------------------------------------------
# Build steps (serialised by a lock: checks may be started concurrently).
# --------------------------------------------------------------------------
class BuildLock:
    def __init__(self, name):
        os.makedirs(CACHE, exist_ok=True)
        self.path = os.path.join(CACHE, name + ".lock")   # "lean.lock" is shared with tools/lake-locked

    def __enter__(self):
        self.f = open(self.path, "w")
        fcntl.flock(self.f, fcntl.LOCK_EX)
        return self

    def __exit__(self, *a):
        fcntl.flock(self.f, fcntl.LOCK_UN)
        self.f.close()


def run(cmd, cwd=None, timeout=3600, env=None):
    p = subprocess.run(cmd, cwd=cwd, env=env or ENV, stdout=subprocess.PIPE,
                       stderr=subprocess.STDOUT, text=True, timeout=timeout)
    return p.returncode, p.stdout


def run_translator():
    """Regenerate lean/FerrousSpec/Gen/*.lean from /repo's current sources."""
    with BuildLock("lean"):
        rc, out = run([sys.executable, os.path.join(VERIF, "translator", "extract.py")])
    if rc != 0:
        raise InternalError("translator failed:\n" + out)
    return out


def lake_build(targets, timeout=3600):
    with BuildLock("lean"):
        rc, out = run(["lake", "build"] + list(targets), cwd=LEAN, timeout=timeout)
    return rc == 0, out


def build_driver(family):
    ok, out = lake_build(["drv_" + family])
    if not ok:
        if "extraction_failed" in out or "/Gen/" in out or "FerrousSpec.Gen." in out:
            raise ModelBroken("Lean driver drv_%s does not build against the regenerated tables:\n%s" % (family, out[-3000:]))
        raise InternalError("Lean driver drv_%s does not build:\n%s" % (family, out[-4000:]))


def theorem_names(prop_id):
    """Names of the theorems stated in Props/<id>.lean (the obligations)."""
    path = os.path.join(LEAN, "FerrousSpec", "Props", prop_id + ".lean")
    src = open(path).read()
    src = strip_lean_comments(src)
    ns = re.findall(r"^namespace\s+(\S+)", src, re.M)
    prefix = ns[0] + "." if ns else ""
    names = re.findall(r"^\s*(?:private\s+|protected\s+)?theorem\s+([^\s:({\[]+)", src, re.M)
    return [prefix + n for n in names]


def strip_lean_comments(src):
    out, i, depth = [], 0, 0
    while i < len(src):
        if src.startswith("/-", i):
            depth += 1
            i += 2
        elif depth and src.startswith("-/", i):
            depth -= 1
            i += 2
        elif depth:
            i += 1
        elif src.startswith("--", i):
            j = src.find("\n", i)
            i = len(src) if j < 0 else j
        else:
            out.append(src[i])
            i += 1
    return "".join(out)


FORBIDDEN = re.compile(r"\b(sorry|admit|native_decide|bv_decide|implemented_by|unsafe)\b|^\s*axiom\s|maxHeartbeats\s+0\b", re.M)


def import_closure(prop_id):
    """Lean source files the property module depends on (transitively, within this project)"""
    seen, todo = set(), ["FerrousSpec.Props." + prop_id]
    while todo:
        m = todo.pop()
        if m in seen:
            continue
        path = os.path.join(LEAN, *m.split(".")) + ".lean"
        if not os.path.exists(path):
            continue
        seen.add(m)
        for imp in re.findall(r"^import\s+(FerrousSpec\.\S+)", open(path).read(), re.M):
            todo.append(imp)
    return [os.path.join(LEAN, *m.split(".")) + ".lean" for m in sorted(seen)]


def forbidden_tokens(prop_id):
    """grep the Lean sources this property depends on (comments discarded) for constructs the design forbids"""
    hits = []
    for p in import_closure(prop_id):
        src = strip_lean_comments(open(p).read())
        for m in FORBIDDEN.finditer(src):
            hits.append("%s: %s" % (os.path.relpath(p, LEAN), m.group(0).strip()))
    return hits


def audit_axioms(prop_id, names):
    """`#print axioms` for every obligation; returns {name: [axioms]} or raises."""
    os.makedirs(os.path.join(CACHE, "audit"), exist_ok=True)
    f = os.path.join(CACHE, "audit", "Audit_%s_%d.lean" % (prop_id, os.getpid()))
    with open(f, "w") as fh:
        fh.write("import FerrousSpec.Props.%s\n" % prop_id)
        for n in names:
            fh.write("#print axioms %s\n" % n)
    try:
        rc, out = run(["lake", "env", "lean", f], cwd=LEAN)
    finally:
        os.unlink(f)
    if rc != 0:
        raise InternalError("axiom audit failed:\n" + out[-3000:])
    res = {}
    for m in re.finditer(r"'([^']+)' depends on axioms: \[([^\]]*)\]|'([^']+)' does not depend on any axioms", out):
        if m.group(1):
            res[m.group(1)] = [a.strip() for a in m.group(2).replace("\n", " ").split(",") if a.strip()]
        else:
            res[m.group(3)] = []
    return res


def build_harness(family, checked=False):
    """The in-process implementation driver `impl_<family>` against the working tree of REPO.
    `checked=True`: a second build of the same driver with the arithmetic of a plain `cargo build` (overflow checks and
    debug assertions ON) into target-harness-checked: inputs that only panic there are panics of the default build.

    Normally REPO is /repo and the crate in /verif/harness is built as it is.  When FERROUS_REPO points
    elsewhere (a scratch worktree with a seeded change, so that /repo itself stays untouched while other
    work goes on) a copy of the crate with the path dependency rewritten is built into the alternative cache."""
    with BuildLock("cargo-harness"):
        src_dir = HARNESS
        if os.path.realpath(REPO) != "/repo":
            src_dir = os.path.join(CACHE, "harness-copy")
            if os.path.exists(src_dir):
                shutil.rmtree(src_dir)
            shutil.copytree(HARNESS, src_dir, ignore=shutil.ignore_patterns("target"))
            ct = os.path.join(src_dir, "Cargo.toml")
            text = open(ct).read().replace('path = "/repo"', 'path = "%s"' % os.path.realpath(REPO))
            open(ct, "w").write(text)
            cfgp = os.path.join(src_dir, ".cargo", "config.toml")
            if os.path.exists(cfgp):
                ctext = re.sub(r'(?m)^target-dir\s*=.*$', 'target-dir = "%s"' % os.path.join(CACHE, "target-harness"), open(cfgp).read())
                open(cfgp, "w").write(ctext)
            shutil.copy(os.path.join(REPO, "Cargo.lock"), os.path.join(src_dir, "Cargo.lock"))
        lock_src = os.path.join(REPO, "Cargo.lock")
        lock_dst = os.path.join(src_dir, "Cargo.lock")
        if not os.path.exists(lock_dst):
            shutil.copy(lock_src, lock_dst)
        argv = ["cargo", "build", "--offline", "--quiet", "--bin", "impl_" + family,
                "--target-dir", os.path.join(CACHE, "target-harness-checked" if checked else "target-harness")]
        if checked:
            argv += ["--config", "profile.dev.overflow-checks=true", "--config", "profile.dev.debug-assertions=true"]
        rc, out = run(argv, cwd=src_dir)
    if rc != 0:
        raise InternalError("harness does not build against %s:\n%s" % (REPO, out[-4000:]))


def build_server(checked=False):
    """The real `ferrous` binary from /repo's working tree, feature `verif`, release arithmetic.
    `checked=True`: a second build with the arithmetic of a plain `cargo build` (overflow checks and debug assertions ON) into
    target-bin-checked; returns the path of the binary built."""
    with BuildLock("cargo-bin"):
        cmd = ["cargo", "build", "--offline", "--quiet", "--bin", "ferrous",
               "--manifest-path", os.path.join(REPO, "Cargo.toml"),
               "--features", "verif", "--target-dir", os.path.join(CACHE, "target-bin-checked" if checked else "target-bin"),
               "--config", "profile.dev.opt-level=1",
               "--config", "profile.dev.overflow-checks=%s" % ("true" if checked else "false"),
               "--config", "profile.dev.debug-assertions=%s" % ("true" if checked else "false"),
               "--config", "profile.dev.debug=false",
               "--config", "profile.dev.incremental=false"]
        rc, out = run(cmd, cwd=CACHE)
    if rc != 0:
        raise InternalError("ferrous does not build:\n" + out[-4000:])
    return os.path.join(CACHE, "target-bin-checked" if checked else "target-bin", "debug", "ferrous")


# --------------------------------------------------------------------------
# Line-protocol processes
# --------------------------------------------------------------------------
class DriverHang(Exception):
    """A driver did not answer one request within ASK_TIMEOUT: for an implementation driver this is the code under
    test not terminating (reported as a violation with the request history as replay), for a Lean driver an internal error."""
    def __init__(self, name, line, recent):
        Exception.__init__(self, "%s did not answer within %d s: %s" % (name, LineProc.ASK_TIMEOUT, line[:300]))
        self.name, self.line, self.recent = name, line, recent


class LineProc:
    """A driver process answering one line per request line.  A death is an
    observable outcome (`None`), after which the process is restarted."""

    ASK_TIMEOUT = float(os.environ.get("VERIF_ASK_TIMEOUT", "180"))

    def __init__(self, argv, name):
        self.argv, self.name = argv, name
        self.p = None
        self.deaths = 0
        self.hangs = 0
        self.stderr_tail = ""
        self._deadline = None
        self._hung = False
        self._closed = False
        self.recent = []
        self.start()
        import threading
        threading.Thread(target=self._watchdog, daemon=True).start()

    def _watchdog(self):
        # a driver that does not answer (an endless loop in the code under test) is killed: the request is then
        # answered `None` like a death, with stderr_tail saying so — a check never waits for ever
        while not self._closed:
            time.sleep(1.0)
            d = self._deadline
            if d is not None and time.time() > d:
                self._hung = True
                self._deadline = None
                try:
                    self.p.kill()
                except Exception:
                    pass

    def start(self):
        self.errf = open(os.path.join(CACHE, "%s.%d.stderr" % (self.name, os.getpid())), "w+")
        self.p = subprocess.Popen(self.argv, stdin=subprocess.PIPE, stdout=subprocess.PIPE,
                                  stderr=self.errf, text=True, bufsize=1, env=ENV)

    def ask(self, line):
        self._hung = False
        self.recent.append(line if len(line) < 4000 else line[:4000] + "…")
        if len(self.recent) > 200:
            del self.recent[:100]
        self._deadline = time.time() + self.ASK_TIMEOUT
        try:
            self.p.stdin.write(line + "\n")
            self.p.stdin.flush()
            ans = self.p.stdout.readline()
        except (BrokenPipeError, OSError):
            ans = ""
        self._deadline = None
        if ans == "":
            self.p.wait()
            self.deaths += 1
            self.errf.seek(0)
            self.stderr_tail = self.errf.read()[-2000:]
            if self._hung:
                self.hangs += 1
                self.stderr_tail = "HANG: no answer within %d s, driver killed (request: %s)\n" % (self.ASK_TIMEOUT, line[:300]) + self.stderr_tail
                recent = list(self.recent)
                self._close_err()
                self.start()
                raise DriverHang(self.name, line, recent)
            self._close_err()
            self.start()
            return None
        return ans.rstrip("\n")

    def _close_err(self):
        try:
            n = self.errf.name
            self.errf.close()
            os.unlink(n)
        except OSError:
            pass

    def close(self):
        self._closed = True
        try:
            self.p.stdin.close()
            self.p.wait(timeout=10)
        except Exception:
            self.p.kill()
        self._close_err()


def lean_driver(family):
    return LineProc([os.path.join(LEAN_BIN, "drv_" + family)], "lean-" + family)


def impl_driver(family):
    return LineProc([os.path.join(IMPL_BIN, "impl_" + family)], "impl-" + family)


# --------------------------------------------------------------------------
# Evidence, known findings, verdicts
# --------------------------------------------------------------------------
def load_known_findings():
    p = os.path.join(VERIF, "KNOWN_FINDINGS.json")
    if not os.path.exists(p):
        return {"open": [], "fixed": []}
    return json.load(open(p))


class Report:
    """Collects what a check run did and turns it into evidence + exit status."""

    def __init__(self, prop_id, tier, seed):
        self.prop_id, self.tier, self.seed = prop_id, tier, seed
        self.t0 = time.time()
        self.obligations = []      # theorem names
        self.discharged = []       # those that built with acceptable axioms
        self.axioms = {}
        self.evaluations = 0
        self.distinct = set()
        self.hist = {}
        self.samples = []
        self.assumptions = []
        self.trusted_base = []
        self.violations = []       # (what, replay_path, no_input)
        self.known_confirmed = []
        self.extra = {}
        self.rule = ""
        self.traces_validated = 0
        self.exhaustive = False
        self.checker_cmd = ""

    def count(self, key, n=1):
        self.hist[key] = self.hist.get(key, 0) + n

    def nontrivial(self, key):
        self.distinct.add(key)

    def sample(self, s, cap=12):
        if len(self.samples) < cap:
            self.samples.append(s)

    def violation(self, what, replay_obj, no_input=False):
        os.makedirs(REPLAYS, exist_ok=True)
        path = os.path.join(REPLAYS, "%s_%d_%d.json" % (self.prop_id, self.seed, len(self.violations)))
        replay_obj = dict(replay_obj)
        replay_obj.update({"property": self.prop_id, "seed": self.seed, "tier": self.tier, "what": what,
                           "no_failing_input_found": no_input})
        with open(path, "w") as f:
            json.dump(replay_obj, f, indent=1)
        self.violations.append((what, path, no_input))

    def known(self, fid, what):
        self.known_confirmed.append((fid, what))

    def finish(self):
        wall = time.time() - self.t0
        cov = {
            "obligations": len(self.obligations),
            "discharged": len(self.discharged),
            "checker_cmd": self.checker_cmd or ("cd /verif/lean && lake build FerrousSpec.Props.%s && lake env lean <audit: #print axioms per theorem>" % self.prop_id),
            "trusted_base": self.trusted_base,
            "evaluations": self.evaluations,
            "distinct_nontrivial": len(self.distinct),
            "rule": self.rule,
            "samples": self.samples[:12] + [{"obligations": self.obligations[:60]}],
            "traces_validated_against_impl": self.traces_validated,
            "exhaustive": self.exhaustive,
            "histogram": dict(sorted(self.hist.items())),
            "axioms": self.axioms,
            "known_findings_confirmed": [f for f, _ in self.known_confirmed],
        }
        if not self.discharged:
            # proof obligations did not check on this run: the proof-level keys would be invalid (minimum 1);
            # the exploration-style counts remain and the failure is recorded explicitly
            cov["obligations_stated"] = cov.pop("obligations")
            cov["obligations_discharged"] = cov.pop("discharged")
        cov.update(self.extra)
        ev = {
            "property_id": self.prop_id, "tier": self.tier, "seed": self.seed, "level": "proof",
            "coverage": cov, "assumptions": self.assumptions, "wall_s": round(wall, 2),
            "violations": len(self.violations),
        }
        os.makedirs(EVIDENCE, exist_ok=True)
        with open(os.path.join(EVIDENCE, self.prop_id + ".json"), "w") as f:
            json.dump(ev, f, indent=1, sort_keys=True)
        for fid, what in self.known_confirmed:
            print("KNOWN-FINDING: property=%s %s %s" % (self.prop_id, fid, what))
        if self.violations:
            # exactly one VIOLATION line per property: prefer one with a concrete failing input
            vs = sorted(self.violations, key=lambda v: v[2])
            what, path, no_input = vs[0]
            for w, p, n in vs:
                print("  violation detail: %s -> %s%s" % (w, p, " (no failing input found)" if n else ""))
            print("VIOLATION property=%s replay=%s%s" % (self.prop_id, path, " no-failing-input-found" if no_input else ""))
            return 1
        print("OK property=%s tier=%s seed=%d obligations=%d/%d evaluations=%d distinct=%d wall=%.1fs" % (
            self.prop_id, self.tier, self.seed, len(self.discharged), len(self.obligations),
            self.evaluations, len(self.distinct), wall))
        return 0


def proof_phase(rep, families=(), extra_targets=()):
    """Translator, Lean build of the property module, forbidden-token grep and axiom audit.

    Returns (ok, log).  On failure the caller enters the search phase of the
    violation protocol (DESIGN 2.5)."""
    run_translator()
    for fam in families:
        build_driver(fam)
    pid = rep.prop_id
    rep.obligations = theorem_names(pid)
    ok, out = lake_build(["FerrousSpec.Props." + pid] + list(extra_targets))
    if not ok:
        errs = re.findall(r"error: ([^\n]*\n(?:[^\n]*\n){0,6})", out)
        return False, out[-6000:], errs
    bad = forbidden_tokens(pid)
    if bad:
        raise InternalError("forbidden constructs in Lean sources: " + "; ".join(bad[:10]))
    ax = audit_axioms(pid, rep.obligations)
    rep.axioms = {k: v for k, v in ax.items()}
    for n in rep.obligations:
        if n in ax and set(ax[n]) <= ALLOWED_AXIOMS:
            rep.discharged.append(n)
    missing = [n for n in rep.obligations if n not in rep.discharged]
    if missing:
        raise InternalError("theorems with unacceptable or unknown axioms: %s" % missing)
    if rep.tier == "thorough":
        rc, o = run(["lake", "env", "leanchecker", "FerrousSpec.Props." + pid], cwd=LEAN, timeout=3600)
        rep.extra["leanchecker_rc"] = rc
        if rc != 0:
            raise InternalError("leanchecker rejected the compiled module:\n" + o[-3000:])
    rep.trusted_base = [
        "Lean 4.33.0 kernel; axioms allowed: propext, Classical.choice, Quot.sound (audited per theorem)",
        "translator/extract.py (regenerates lean/FerrousSpec/Gen/*.lean from /repo/src on every run)",
        "correspondence harness (lib/*.py, harness/ Rust impl_driver) tying the hand-written Code.* models to /repo's working tree by differential execution",
        "Lean compiler for the driver executable; rustc/cargo",
    ]
    return True, out, []


# --------------------------------------------------------------------------
# Shrinking (delta debugging over a list)
# --------------------------------------------------------------------------
def shrink_list(items, fails, max_steps=400):
    """Greedy ddmin: smallest sublist (order kept) on which `fails` still holds."""
    steps = 0
    n = 2
    cur = list(items)
    while len(cur) >= 2 and steps < max_steps:
        chunk = max(1, len(cur) // n)
        reduced = False
        for i in range(0, len(cur), chunk):
            cand = cur[:i] + cur[i + chunk:]
            steps += 1
            if cand and fails(cand):
                cur = cand
                n = max(n - 1, 2)
                reduced = True
                break
            if steps >= max_steps:
                break
        if not reduced:
            if chunk == 1:
                break
            n = min(len(cur), n * 2)
    return cur
