"""C06 — no client input can crash, hang or wedge the server.

Honest scope (DESIGN 5 C06): a theorem cannot exhibit a panic, an allocation abort or a stack
overflow.  What IS logic is the arithmetic that decides whether those happen: every index, count,
offset, length, TTL and nesting computation fed by client input is modelled (Model/Arith.lean and
the index functions of the other models) and proved in-range for ALL arguments
(Props/C06.lean); the translator lists every risky construct in the sources and the table theorem
fails when an unreviewed one appears.  This module is the tie and the failing-input search:
a hostile sweep over the real server — every dispatched command, every argument position, every
boundary literal, keys of every type, malformed and absurd frames — after which the process must
be alive, a fresh connection must be served and canary data intact.
"""
import time

from common import *
from server import Server, Client, Closed, ProtocolError

PID = "C06"
NEVER = {"SHUTDOWN", "SLEEP", "DEBUG", "REPLICAOF", "SLAVEOF", "MONITOR", "SYNC", "PSYNC", "CLIENT", "CONFIG", "VERIF", "FLUSHALL", "FLUSHDB", "QUIT", "AUTH",
         "SAVE", "BGSAVE", "BGREWRITEAOF"}
LITS = [b"0", b"1", b"-1", b"2", b"-2", b"2147483647", b"2147483648", b"-2147483649", b"4294967296", b"9223372036854775807", b"9223372036854775808",
        b"-9223372036854775808", b"-9223372036854775809", b"18446744073709551615", b"18446744073709551616", b"4611686018427387904", b"-4611686018427387904",
        b"1e400", b"nan", b"inf", b"-inf", b"-0", b"", b"9" * 1024, b"+1", b" 1", b"1.5", b"1e3", b"0x10", b"-", b"+", b"$", b">", b"*", b"0-0", b"1-1",
        b"18446744073709551615-18446744073709551615", b"5-", b"\xff\xfe", b"a\r\nb", b"COUNT", b"MATCH", b"WITHSCORES", b"EX", b"PX", b"NX", b"MAXLEN", b"STREAMS", b"NOACK", b"LIMIT"]
KEYS = [b"cs", b"cl", b"cset", b"ch", b"cz", b"cx", b"missing"]
CANARY = [[b"SET", b"cs", b"canary"], [b"RPUSH", b"cl", b"a", b"b", b"c"], [b"SADD", b"cset", b"a", b"b", b"c"], [b"HSET", b"ch", b"f", b"1"],
          [b"ZADD", b"cz", b"1", b"a", b"2", b"b", b"3", b"c"], [b"XADD", b"cx", b"1-1", b"f", b"v"], [b"XGROUP", b"CREATE", b"cx", b"g", b"0"],
          [b"SET", b"keep", b"intact"]]
BLOCKING = {"BLPOP", "BRPOP", "SUBSCRIBE", "PSUBSCRIBE", "XREAD", "XREADGROUP", "WAIT"}


def home_key(name):
    """the canary key whose type the command operates on (so that arguments reach the arithmetic, not WRONGTYPE)"""
    if name in ("SET", "SETEX", "SETNX", "SETRANGE", "STRLEN", "SCAN", "SELECT", "SCRIPT", "SLOWLOG", "SUBSCRIBE"):
        return b"cs"
    if name in ("LPUSH", "RPUSH", "LPOP", "RPOP", "LLEN", "LRANGE", "LINDEX", "LSET", "LTRIM", "LREM", "BLPOP", "BRPOP", "RPOPLPUSH"):
        return b"cl"
    if name.startswith("S"):
        return b"cset"
    if name.startswith("H"):
        return b"ch"
    if name.startswith("Z"):
        return b"cz"
    if name.startswith("X"):
        return b"cx"
    return b"cs"


HOSTILE_GLOBS = [b"news.\\", b"\\", b"*\\", b"?\\", b"[", b"[a", b"[a-", b"[^", b"[]", b"[]]", b"[\\", b"[a-\\", b"*[", b"a[b-", b"[z-a]", b"[!", b"\\[", b"***************a", b"*" * 300 + b"x",
                 b"?" * 300, b"[" * 300, b"\\" * 301, b"", b"\xff[\xfe-", b"a\x00*"]
HOSTILE_TEXTS = [b"news.sport", b"news.", b"", b"a", b"[", b"\\", b"a" * 66 + b"b", b"\xff\xfe", b"x" * 400]


class C06:
    def __init__(self, rep):
        self.rep = rep
        self.srv = None
        self.failures = []
        self.restart()

    def restart(self):
        if self.srv:
            self.srv.stop()
        self.srv = Server("c06")
        c = self.srv.client()
        for cmd in CANARY:
            c.cmd(*cmd)
        c.close()

    def reseed(self):
        """hostile commands destroy the data they are aimed at: put it back before the next family"""
        try:
            c = self.srv.client(timeout=3.0)
            c.cmd("DEL", *KEYS[:6])
            for cmd in CANARY:
                c.cmd(*cmd)
            c.close()
        except (Closed, TimeoutError, ProtocolError, OSError):
            pass

    def alive(self):
        """process alive, a fresh connection is served, the untouched canary is intact"""
        if not self.srv.alive():
            return "server process exited: " + self.srv.log_tail(300)
        try:
            c = self.srv.client(timeout=3.0)
            r = c.cmd("PING", timeout=3.0)
            k = c.cmd("GET", "keep", timeout=3.0)
            c.close()
        except (Closed, TimeoutError, ProtocolError, OSError) as e:
            time.sleep(0.2)
            if not self.srv.alive():
                return "server process exited: " + self.srv.log_tail(300)
            return "fresh connection not served (%s)" % type(e).__name__
        if r != ("s", b"PONG"):
            return "PING answered %r" % (r,)
        if k != ("b", b"intact"):
            return "canary key changed: %r" % (k,)
        return None

    def fire(self, variants, per_conn=40):
        """send hostile commands without caring about their replies; liveness is judged afterwards"""
        i = 0
        while i < len(variants):
            batch = variants[i:i + per_conn]
            i += per_conn
            if i % (per_conn * 4) == 0:
                self.reseed()
            try:
                c = self.srv.client(timeout=0.5)
                c.send_raw(b"".join(Client.encode(v) for v in batch) + Client.encode([b"PING"]))
                t0 = time.time()
                # drain whatever comes for a short while (replies, or nothing for blocking commands)
                while time.time() - t0 < 1.5:
                    try:
                        r = c.read_reply(timeout=0.3)
                        if r == ("s", b"PONG"):
                            break
                    except TimeoutError:
                        break
                    except (Closed, ProtocolError):
                        break
                c.close()
            except OSError:
                pass
            self.rep.evaluations += len(batch)

    def bisect(self, variants, what):
        """find one variant that by itself reproduces the failure on a fresh server"""
        cur = variants
        while len(cur) > 1:
            half = cur[:len(cur) // 2]
            self.restart()
            self.fire(half)
            if self.alive() is not None:
                cur = half
            else:
                rest = cur[len(cur) // 2:]
                self.restart()
                self.fire(rest)
                if self.alive() is not None:
                    cur = rest
                else:
                    break       # needs both halves: keep the current set
        self.restart()
        return cur

    def sweep_commands(self, r, tier):
        src = open(os.path.join(REPO, "src", "network", "server.rs"), encoding="utf-8", errors="replace").read()
        names = sorted(set(re.findall(r'"([A-Z]{2,})"', src)) - NEVER)
        names = [n for n in names if re.search(r'"%s"\s*(\|[^=]*)?=>' % n, src)]
        self.rep.extra["swept_command_names"] = len(names)
        lits = LITS if tier == "thorough" else LITS
        for name in names:
            self.reseed()
            variants = []
            nb = name.encode()
            maxar = 5 if tier == "thorough" else 4
            for arity in range(0, maxar + 1):
                base = [KEYS[0]] + [b"1"] * (arity - 1) if arity else []
                if arity == 0:
                    variants.append([nb])
                    continue
                for pos in range(arity):
                    for li, lit in enumerate(lits):
                        args = list(base)
                        args[0] = home_key(name) if (li + pos) % 8 else KEYS[(li + pos) % len(KEYS)]
                        if pos == 0 and li % 3 == 0:
                            args[0] = lit
                        elif pos > 0:
                            args[pos] = lit
                        variants.append([nb] + args)
            # a few shapes with option keywords
            for k in KEYS[:6]:
                variants += [[nb, k, b"0", b"-1", b"WITHSCORES"], [nb, k, b"COUNT", r.choice(lits)], [nb, b"g", b"c", b"COUNT", r.choice(lits), b"STREAMS", k, b">"],
                             [nb, k, b"g", r.choice(lits), r.choice(lits), r.choice(lits)], [nb, k, b"MAXLEN", r.choice(lits)], [nb, r.choice(lits), k, b"0"]]
            if name in BLOCKING:
                variants = [v for v in variants if len(v) <= 4]
                self.fire(variants, per_conn=1 if tier == "thorough" else 6)
            else:
                self.fire(variants)
            self.rep.count("cmd." + name, len(variants))
            self.rep.nontrivial(("cmd", name))
            why = self.alive()
            if why:
                culprit = self.bisect(variants, why)
                self.failures.append({"why": why, "commands": [[a.decode("latin-1") for a in v] for v in culprit[:5]], "name": name,
                                      "raw": [hx(Client.encode(v)) for v in culprit[:5]]})
                self.rep.count("crash." + name)

    def sweep_sequences(self, r, tier):
        """State left behind by one command must not wedge a later one: after a blocking pop that timed out / was served /
        whose client went away, after an aborted or discarded transaction, after a refused script — every way an element can
        then reach the key (direct, inside EXEC, script, RENAME) and a few reads must be answered, the process alive."""
        enders = {
            "bpop-timeout": lambda c2: self._quiet(c2, ["BLPOP", "sq", "sq2", "0.05"], 0.4),
            "brpop-timeout": lambda c2: self._quiet(c2, ["BRPOP", "sq", "0.05"], 0.4),
            "bpop-hangup": lambda c2: (c2.send("BLPOP", "sq", "sq2", "0"), time.sleep(0.05), c2.close()),
            "bpop-served": lambda c2: (c2.send("BLPOP", "sq", "0"), time.sleep(0.05), self._quiet(self.srv.client(timeout=1.0), ["RPUSH", "sq", "s"], 0.5), self._quiet(c2, None, 0.3)),
            "multi-discard": lambda c2: [self._quiet(c2, x, 0.5) for x in (["MULTI"], ["BLPOP", "sq", "0"], ["RPUSH", "sq", "q"], ["DISCARD"])],
            "multi-exec-bpop": lambda c2: [self._quiet(c2, x, 0.5) for x in (["MULTI"], ["BLPOP", "sq", "0"], ["BRPOP", "sq2", "0"], ["EXEC"])],
            "watch-abort": lambda c2: [self._quiet(c2, x, 0.5) for x in (["WATCH", "sq"], ["MULTI"], ["RPUSH", "sq", "w"])] + [self._quiet(self.srv.client(timeout=1.0), ["DEL", "sq"], 0.5), self._quiet(c2, ["EXEC"], 0.5)],
            "subscribe-then-close": lambda c2: (c2.send("SUBSCRIBE", "sq"), time.sleep(0.03), c2.close()),
            # hostile glob patterns are evaluated LATER, by somebody else's PUBLISH / KEYS
            "psubscribe-hostile-patterns": lambda c2: ([c2.send("PSUBSCRIBE", p) for p in HOSTILE_GLOBS], time.sleep(0.05),
                                                       [self._quiet(self.srv.client(timeout=1.0), ["PUBLISH", ch, "m"], 0.5) for ch in HOSTILE_TEXTS]),
            "keys-hostile-patterns": lambda c2: [self._quiet(c2, [cmd, *pre, p], 0.5) for p in HOSTILE_GLOBS for cmd, pre in (("KEYS", []), ("SCAN", ["0", "MATCH"]), ("SSCAN", ["cset", "0", "MATCH"]))],
            # values that compare equal to nothing (NaN) or to several things (signed zeros, infinities) inside ordered structures
            "zset-inf-arith": lambda c2: [self._quiet(c2, x, 1.5) for x in (["ZADD", "sqz", "1", "b", "inf", "a", "-inf", "c", "0", "z", "-0", "y"], ["ZINCRBY", "sqz", "-inf", "a"], ["ZINCRBY", "sqz", "inf", "c"],
                                                                          ["ZINCRBY", "sqz", "nan", "b"], ["ZADD", "sqz", "nan", "n"], ["ZRANK", "sqz", "a"], ["ZRANGE", "sqz", "0", "-1", "WITHSCORES"], ["ZRANGEBYSCORE", "sqz", "-inf", "+inf"],
                                                                          ["ZCOUNT", "sqz", "(inf", "(-inf"], ["ZREM", "sqz", "a"], ["ZPOPMIN", "sqz", "9223372036854775807"], ["ZPOPMAX", "sqz", "9223372036854775807"], ["ZCARD", "sqz"])],
        }
        followers = [["RPUSH", "sq", "a"], ["LPUSH", "sq2", "a", "b"], ["MULTI"], ["RPUSH", "sq", "b"], ["LPOP", "sq"], ["EXEC"],
                     ["EVAL", "return redis.call('RPUSH', KEYS[1], 'c')", "1", "sq"], ["RPUSH", "sq:src", "d"], ["RENAME", "sq:src", "sq"], ["RENAME", "sq", "sq2"],
                     ["LRANGE", "sq", "0", "-1"], ["DEL", "sq", "sq2"], ["PUBLISH", "sq", "m"], ["FLUSHDB"]]
        for tag, ender in enders.items():
            self.reseed()
            self.rep.evaluations += 1
            try:
                c2 = self.srv.client(timeout=1.0)
                ender(c2)
                try:
                    c2.close()
                except Exception:
                    pass
            except (OSError, Closed, TimeoutError, ProtocolError):
                pass
            time.sleep(0.08)
            done = []
            for cmd in followers:
                done.append(cmd)
                try:
                    c3 = self.srv.client(timeout=2.0)
                    c3.cmd(*cmd, timeout=2.0)
                    c3.close()
                    why = None
                except TimeoutError:
                    why = "no answer to %s within 2 s" % " ".join(cmd)
                except (OSError, Closed, ProtocolError) as e:
                    why = self.alive() or "connection refused/closed (%s)" % type(e).__name__
                if cmd == ["MULTI"] or (done.count(["MULTI"]) > done.count(["EXEC"])):
                    pass        # MULTI…EXEC of the followers are sent on separate connections on purpose: each is one harmless command there
                if why:
                    why = self.alive() or why
                    self.failures.append({"why": "after %s: %s" % (tag, why), "commands": [["<%s>" % tag]] + done, "name": "sequence", "raw": []})
                    self.restart()
                    break
            self.rep.nontrivial(("sequence", tag, len(done)))
        # the same followers inside ONE transaction on one connection after each ender
        for tag, ender in enders.items():
            self.reseed()
            self.rep.evaluations += 1
            try:
                c2 = self.srv.client(timeout=1.0)
                ender(c2)
                try:
                    c2.close()
                except Exception:
                    pass
            except (OSError, Closed, TimeoutError, ProtocolError):
                pass
            time.sleep(0.08)
            seq = [["MULTI"], ["RPUSH", "sq", "a"], ["RPUSH", "sq2", "b"], ["LPOP", "sq"], ["EVAL", "return redis.call('RPUSH', KEYS[1], 'c')", "1", "sq"], ["RENAME", "sq2", "sq"], ["EXEC"], ["PING"]]
            try:
                c3 = self.srv.client(timeout=3.0)
                for cmd in seq:
                    c3.cmd(*cmd, timeout=3.0)
                c3.close()
                why = None
            except TimeoutError:
                why = "transaction after %s not answered within 3 s" % tag
            except (OSError, Closed, ProtocolError) as e:
                why = "connection closed (%s)" % type(e).__name__
            if why:
                why = self.alive() or why
                self.failures.append({"why": "after %s: %s" % (tag, why), "commands": [["<%s>" % tag]] + seq, "name": "sequence-tx", "raw": []})
                self.restart()
            self.rep.nontrivial(("sequence-tx", tag, why is None))

    def _quiet(self, c, cmd, timeout):
        try:
            if cmd is None:
                return c.read_reply(timeout=timeout)
            return c.cmd(*cmd, timeout=timeout)
        except (TimeoutError, Closed, ProtocolError, OSError):
            return None

    def sweep_frames(self, r, tier):
        frames = [b"*1\r\n" * n + tail for n in (10, 128, 129, 1000, 20000, 200000) for tail in (b"", b"$4\r\nPING\r\n", b":1\r\n")]
        # nesting through every aggregate type and every position inside it (a level that forgets to count is a stack overflow)
        frames += [op * 300000 + b":1\r\n" for op in (b"~1\r\n", b">1\r\n", b"%1\r\n+k\r\n", b"%1\r\n", b"|1\r\n+k\r\n", b"|1\r\n", b"*2\r\n:1\r\n", b"~2\r\n:1\r\n",
                                                            b"*1\r\n~1\r\n", b"%1\r\n+k\r\n*1\r\n", b"*1\r\n%1\r\n:1\r\n")]
        frames += [b"*%d\r\n" % n for n in (10 ** 6, 10 ** 9, 2 ** 31, 2 ** 62, 2 ** 63 - 1)]
        frames += [b"$%d\r\n" % n + b"abc" for n in (10 ** 6, 10 ** 9, 2 ** 31, 2 ** 62, 2 ** 63 - 1)]
        frames += [b"%%%d\r\n" % n for n in (10 ** 9, 2 ** 63, 2 ** 64 - 1)] + [b"~%d\r\n" % n for n in (10 ** 9, 2 ** 64 - 1)]
        frames += [b"*-2\r\n", b"$-2\r\n", b"*99999999999999999999\r\n", b"$99999999999999999999\r\n", b"\x00" * 100, b"\xff" * 5000, b"PING" * 5000, b"+" + b"A" * 100000,
                   b"*3\r\n$3\r\nSET\r\n$1\r\nk\r\n$100000000\r\n" + b"x" * 1000, b"*2\r\n$4\r\nECHO\r\n$10\r\nshort\r\n", b",nan\r\n", b",1e999\r\n", b"#x\r\n", b"_x\r\n"]
        mr = r.fork("frames")
        for _ in range(150 if tier == "quick" else 3000):
            base = Client.encode([mr.choice([b"SET", b"GET", b"LRANGE", b"EVAL", b"ZADD"]), b"k", mr.choice(LITS), mr.choice(LITS)])
            d = bytearray(base)
            for _ in range(mr.range(1, 4)):
                k = mr.below(4)
                i = mr.below(len(d)) if d else 0
                if k == 0 and d:
                    d[i] = mr.below(256)
                elif k == 1:
                    d[i:i] = mr.choice([b"*", b"$", b"-1", b"\r\n", b"9999999999", b"%", b"~"])
                elif k == 2 and d:
                    del d[i:i + mr.range(1, 4)]
                else:
                    d = d[:i]
            frames.append(bytes(d))
        # every short frame of every type byte, valid and truncated, delivered in TWO reads at every cut: a guard that
        # tests the wrong number of buffered bytes shows only when the tail of a frame arrives in the next segment
        shorts = [b"+OK\r\n", b"+\r\n", b"-ERR x\r\n", b"-\r\n", b":1\r\n", b":\r\n", b":-\r\n", b"$0\r\n\r\n", b"$-1\r\n", b"$1\r\na\r\n", b"*0\r\n", b"*-1\r\n",
                  b"*1\r\n:1\r\n", b"_\r\n", b"#t\r\n", b"#f\r\n", b"#\r\n", b",1.5\r\n", b",\r\n", b"(123\r\n", b"!3\r\nerr\r\n", b"=7\r\ntxt:abc\r\n",
                  b"%1\r\n:1\r\n:2\r\n", b"~1\r\n:1\r\n", b">1\r\n:1\r\n", b"|1\r\n:1\r\n:2\r\n", b"*2\r\n:1\r\n#t\r\n", b"PING\r\n", b"\r\n", b"\r", b"\n"]
        ping = Client.encode([b"PING"])
        for f in shorts:
            for cut in range(1, len(f) + 1):
                self.rep.evaluations += 1
                try:
                    c = self.srv.client(timeout=0.5)
                    c.send_raw(f[:cut])
                    time.sleep(0.004)
                    c.send_raw(f[cut:] + ping)
                    try:
                        c.read_reply(timeout=0.1)
                    except (TimeoutError, Closed, ProtocolError):
                        pass
                    c.close()
                except OSError:
                    pass
            self.rep.nontrivial(("split-frame", f[:1], len(f)))
            why = self.alive()
            if why:
                self.failures.append({"why": why, "raw": [hx(f)], "raw_len": len(f), "commands": [["<frame %r delivered in two reads at some cut>" % f]], "name": "split-frame"})
                self.restart()
        for f in frames:
            self.rep.evaluations += 1
            try:
                c = self.srv.client(timeout=0.5)
                c.send_raw(f)
                try:
                    c.read_reply(timeout=0.15)
                except (TimeoutError, Closed, ProtocolError):
                    pass
                c.close()
            except OSError:
                pass
            self.rep.nontrivial(("frame", f[:1], min(len(f), 64) // 8))
            if len(f) > 10000 or f[:1] in (b"*", b"$", b"%", b"~"):
                why = self.alive()
                if why:
                    self.failures.append({"why": why, "raw": [hx(f[:200])], "raw_len": len(f), "commands": [["<frame %r… (%d bytes)>" % (f[:30], len(f))]], "name": "frame"})
                    self.restart()
        why = self.alive()
        if why:
            self.failures.append({"why": why, "commands": [["<one of the mutated frames>"]], "name": "frame", "raw": []})
            self.restart()

    def site_grid(self, r):
        """the arithmetic-site models (Model/Arith.lean) against the server: same arguments, same outcome class"""
        m = lean_driver("arith")
        self.reseed()
        c = self.srv.client(timeout=5.0)
        dis = []
        E = [0, 1, -1, 2, -2, 3, -3, 4, -4, 5, 100, -100, 2 ** 31, -2 ** 31, 2 ** 63 - 1, -2 ** 63, 2 ** 63 - 2, -2 ** 63 + 1]
        for val in (b"", b"a", b"abc", b"x" * 64):
            c.cmd("SET", "g", val) if val else c.cmd("DEL", "g")
            for s0 in E:
                for e0 in E:
                    self.rep.evaluations += 1
                    got = c.cmd("GETRANGE", "g", str(s0), str(e0))
                    want = m.ask("getrange %d %d %d" % (len(val), s0, e0))
                    exp = b"" if want == "none" else (val[int(want.split()[1]):int(want.split()[2]) + 1] if want.startswith("ok") else None)
                    self.rep.nontrivial(("getrange", len(val), want.split()[0]))
                    if got != ("b", exp):
                        dis.append({"cmd": "GETRANGE g %d %d on %d bytes" % (s0, e0, len(val)), "impl": repr(got), "model": want})
        for cur in (None, 3):
            for off, vlen in [(0, 0), (5, 0), (0, 1), (5, 2), (536870912, 1), (536870910, 3), (2 ** 62, 1), (2 ** 63 - 1, 0), (2 ** 63 - 1, 1), (2 ** 63, 0), (2 ** 64 - 1, 1), (2 ** 64 - 1, 0)]:
                self.rep.evaluations += 1
                c.cmd("DEL", "g")
                if cur:
                    c.cmd("SET", "g", "abc")
                got = c.cmd("SETRANGE", "g", str(off), "z" * vlen)
                # the handler converts the offset text to i64 first (since 06ab2bf): what is above i64::MAX never reaches engine.rs setrange
                want = "refused" if off > 2 ** 63 - 1 else m.ask("setrange %s %d %d" % ("-" if cur is None else cur, off, vlen))
                cls = "refused" if got[0] == "e" else "ok %d" % got[1]
                self.rep.nontrivial(("setrange", cur, want.split()[0]))
                if cls != want:
                    dis.append({"cmd": "SETRANGE g %d <%d bytes> (cur %s)" % (off, vlen, cur), "impl": repr(got), "model": want})
        # time arguments with every option combination that selects another storage function (set_string_ex, set_string_nx_ex,
        # expire, pexpire, setex…): the deadline arithmetic `now + duration` must saturate at every one of them
        BIG = [2 ** 31, 2 ** 53, 2 ** 62, 2 ** 63 - 1, (2 ** 63 - 1) // 1000, (2 ** 63 - 1) // 1000 + 1, 2 ** 63, 2 ** 64 - 1, 2 ** 64]
        for t in BIG:
            for unit in ("EX", "PX"):
                for flag in ((), ("NX",), ("XX",)):
                    for present in (False, True):
                        self.rep.evaluations += 1
                        cl = ["SET", "g", "v", unit, str(t)] + list(flag)
                        try:
                            c.cmd("DEL", "g")
                            if present:
                                c.cmd("SET", "g", "old")
                            got = c.cmd(*cl)
                            self.rep.nontrivial(("set-time", unit, flag, present, got[0]))
                        except (Closed, OSError, TimeoutError, ProtocolError):
                            why = self.alive() or "connection closed without a reply"
                            self.failures.append({"why": why, "commands": [(["SET", "g", "old"] if present else ["DEL", "g"]), cl], "name": "time-grid", "raw": []})
                            self.restart()
                            c = self.srv.client(timeout=5.0)
            for cmdline in (["SETEX", "g", str(t), "v"], ["PSETEX", "g", str(t), "v"], ["EXPIRE", "g", str(t)], ["PEXPIRE", "g", str(t)], ["GETEX", "g", "EX", str(t)],
                            ["EXPIREAT", "g", str(t)], ["PEXPIREAT", "g", str(t)], ["BLPOP", "g:none", str(t)], ["BRPOP", "g:none", str(t)]):
                self.rep.evaluations += 1
                c.cmd("SET", "g", "v")
                try:
                    if cmdline[0] in ("BLPOP", "BRPOP"):
                        c2 = self.srv.client(timeout=0.3)
                        try:
                            c2.cmd(*cmdline, timeout=0.2)
                        except (TimeoutError, Closed):
                            pass
                        c2.close()
                    else:
                        c.cmd(*cmdline)
                except (Closed, OSError, TimeoutError):
                    pass
            why = self.alive()
            if why:
                self.failures.append({"why": why, "commands": [["SET g v EX|PX %d [NX|XX] / SETEX / PSETEX / EXPIRE / PEXPIRE / BLPOP with time %d" % (t, t)]], "name": "time-grid", "raw": []})
                self.restart()
                c = self.srv.client(timeout=5.0)
        for cnt in (-1, -3, -10, -10000001, -2 ** 31, -2 ** 62, -2 ** 63, -2 ** 63 + 1):
            self.rep.evaluations += 1
            got = c.cmd("SRANDMEMBER", "cset", str(cnt))
            want = m.ask("srand %d" % cnt)
            cls = "refused" if got[0] == "e" else "ok %d" % len(got[1])
            self.rep.nontrivial(("srand", want.split()[0]))
            if cls != want:
                dis.append({"cmd": "SRANDMEMBER cset %d" % cnt, "impl": repr(got)[:80], "model": want})
        for nk in (0, 1, 2, 3, 4, 2 ** 31, 2 ** 63, 2 ** 64 - 4, 2 ** 64 - 3, 2 ** 64 - 1):
            self.rep.evaluations += 1
            args = ["EVAL", "return #KEYS", str(nk), "a", "b"]
            got = c.cmd(*args)
            want = m.ask("evalkeys %d %d" % (len(args), nk))
            cls = "refused" if got[0] == "e" else "ok"
            self.rep.nontrivial(("evalkeys", want))
            if cls != want:
                dis.append({"cmd": "EVAL 'return #KEYS' %d a b" % nk, "impl": repr(got)[:80], "model": want})
        for i in E:
            self.rep.evaluations += 1
            got = c.cmd("LINDEX", "cl", str(i))
            want = m.ask("lindex 3 %d" % i)
            cls = "none" if got == ("nb",) else ("ok %d" % [b"a", b"b", b"c"].index(got[1]) if got[0] == "b" else repr(got))
            if cls != want:
                dis.append({"cmd": "LINDEX cl %d" % i, "impl": repr(got), "model": want})
        c.close()
        m.close()
        return dis

    def close(self):
        if self.srv:
            self.srv.stop()


def classify(det, findings):
    for f in findings:
        m = f.get("match", "")
        if m.startswith("cmd:") and det.get("name") in m[4:].split(","):
            return f
    return None


def script_time_limit_ms():
    """the run-time limit of scripts as lua_engine.rs states it (0 = none): `const SCRIPT_TIME_LIMIT: Duration = Duration::from_secs(5)` used by a count hook"""
    try:
        src = open(os.path.join(REPO, "src", "storage", "lua_engine.rs"), encoding="utf-8", errors="replace").read()
    except OSError:
        return 0
    m = re.search(r"const\s+\w*TIME_LIMIT\w*\s*:\s*Duration\s*=\s*Duration::from_(secs|millis)\((\d+)\)", src)
    if not m or not re.search(r"set_(global_)?hook\(", src):
        return 0
    return int(m.group(2)) * (1000 if m.group(1) == "secs" else 1)


def main(tier, seed):
    rep = Report(PID, tier, seed)
    rep.rule = ("hostile sweep over the real server: every dispatched command name (except those whose purpose is to stop/pause/re-wire the server) x arity 0..4 x every argument "
                "position x 50 boundary literals (0, +-1, i32/i64/u64/usize edges and one past them, 1e400, nan, inf, -0, empty, 1 KiB of digits, stream-id and option-keyword shapes) "
                "against keys of all six types + missing; malformed, truncated, absurd-length and deeply nested frames; byte-mutated commands. After each family: process alive, fresh "
                "connection served, canary intact. distinct = command names and frame shape classes reached")
    rep.assumptions = [
        "LEVEL: proof for the modelled arithmetic sites only (release arithmetic: wrapping +,-,*; `as` casts; slice and capacity panics); process liveness is explored, not proved",
        "unmodelled: allocator behaviour under memory pressure, stack cost per recursion level, Lua run time beyond the 5 s limit's granularity and Lua memory beyond the limit of 67d6403 (both limits are explored on address-space-capped servers, not modelled), "
        "lock-order deadlocks between the command thread and BGSAVE/sweeper (none found by reading)",
        "SHUTDOWN, SLEEP, DEBUG, CLIENT, CONFIG, REPLICAOF, MONITOR, SYNC are excluded from the sweep (their documented purpose is to stop, pause or re-wire the server)",
    ]
    ok, log, errs = proof_phase(rep, families=["arith"])
    build_server()
    c = C06(rep)
    r = Rng(seed)
    site_dis = []
    try:
        site_dis = c.site_grid(r)
        c.sweep_frames(r, tier)
        c.sweep_sequences(r, tier)
        c.sweep_commands(r, tier)
    finally:
        c.close()
    if tier == "thorough":
        # the same sweeps once more against the SAME tree built like a plain `cargo build` (overflow checks and debug assertions
        # on): an input that only panics there is a crash of the default build (the arithmetic sites are proved for release
        # arithmetic; this pass is what would show a site the inventory does not list)
        import server as _server
        normal = _server.SERVER_BIN
        _server.SERVER_BIN = build_server(checked=True)
        n0 = len(c.failures)
        ev0 = rep.evaluations
        c2 = C06(rep)
        try:
            c2.site_grid(Rng(seed))
            c2.sweep_frames(Rng(seed + 1), "quick")
            c2.sweep_sequences(Rng(seed + 2), "quick")
            c2.sweep_commands(Rng(seed + 3), "quick")
        finally:
            c2.close()
            _server.SERVER_BIN = normal
        for det in c2.failures:
            det["build"] = "overflow-checks on (plain cargo build)"
        c.failures += c2.failures
        rep.count("checked-arithmetic-pass.evaluations=%d.failures=%d" % (rep.evaluations - ev0, len(c2.failures)))
    rep.traces_validated = rep.evaluations
    findings = [f for f in load_known_findings()["open"] if f["property"] == PID]
    new_fail, seen = [], {}
    for det in c.failures:
        f = classify(det, findings)
        if f:
            seen.setdefault(f["id"], f)
        else:
            new_fail.append(det)
    for fid, f in seen.items():
        rep.known(fid, f["what"])
    # ---- scripts that do not end by themselves: each on a dedicated server whose address space is capped (so that a script
    # that eats memory cannot take the sandbox with it); all at once
    limit_ms = script_time_limit_ms()
    rep.extra["script_time_limit_ms"] = limit_ms
    AS_CAP = 3 << 30

    def cap():
        import resource
        resource.setrlimit(resource.RLIMIT_AS, (AS_CAP, AS_CAP))

    def run_script(script, wait_s):
        """-> (outcome, seconds, fresh connection served afterwards, process alive)"""
        s2 = Server("c06-script", preexec_fn=cap, quiet=True)
        try:
            a = s2.client(timeout=wait_s)
            a.cmd("SET", "before", "1")
            t0 = time.time()
            try:
                rp = a.cmd("EVAL", script, "0", timeout=wait_s)
                out = "error-reply" if rp[0] == "e" else "reply:" + rp[0]
            except TimeoutError:
                out = "no-reply"
            except (Closed, ProtocolError, OSError):
                out = "closed"
            dt = time.time() - t0
            try:
                b = s2.client(timeout=2.0)
                served = b.cmd("GET", "before", timeout=2.0) == ("b", b"1")
            except (Closed, TimeoutError, ProtocolError, OSError):
                served = False
            return out, dt, served, s2.alive()
        finally:
            s2.stop()

    RUNAWAY = {
        "plain-loop": "while true do end",
        "pcall-inner": "pcall(function() while true do end end) return 1",
        "pcall-loop": "while true do pcall(function() while true do end end) end",
        "calls-in-loop": "while true do redis.call('INCR', 'n') end",
        "string-work": "local s = 'x' while true do s = string.rep(s, 2):sub(1, 1000) end",
        "coroutine": "local co = coroutine.create(function() while true do end end) coroutine.resume(co) return 1",
        "recursion": "local function f(n) return f(n + 1) end return f(1)",
        "deep-nonTail-recursion": "local function f(n) return 1 + f(n + 1) end return f(1)",
        "huge-table-literal-loop": "local t = {} for i = 1, 1e12 do t[1] = i end",
    }
    try:
        mem_limited = "set_memory_limit(" in open(os.path.join(REPO, "src", "storage", "lua_engine.rs"), encoding="utf-8", errors="replace").read()
    except OSError:
        mem_limited = False
    rep.extra["script_memory_limited"] = mem_limited
    if tier == "quick":
        # the quick tier keeps the cheap, time-bound shapes (how fast gigabytes are copied depends on the machine)
        RUNAWAY = {k: v for k, v in RUNAWAY.items() if k in ("plain-loop", "pcall-loop", "calls-in-loop", "recursion", "coroutine")}
    if mem_limited:
        # scripts that eat memory (only sent when the source sets a Lua memory limit; always on servers with a capped address space)
        MEM = {
            "memory-bomb": "local t={} while true do t[#t+1]=string.rep('x',1000000)..#t end",
            "doubling-concat": "local s='x' while true do s=s..s end",
            "table-growth": "local t={} local i=0 while true do i=i+1 t[i]={i,i,i} end",
            "expensive-c-calls": "while true do string.rep('x', 3e8) end",
            "bomb-under-pcall": "while true do pcall(function() local t={} while true do t[#t+1]=string.rep('y',1000000)..#t end end) end",
        }
        RUNAWAY.update({"memory-bomb": MEM["memory-bomb"]} if tier == "quick" else MEM)
    if limit_ms > 0:
        import concurrent.futures
        wait_s = limit_ms / 1000.0 + 12.0
        with concurrent.futures.ThreadPoolExecutor(max_workers=4) as ex:      # at most 4 spinning / allocating servers at a time
            futs = {tag: ex.submit(run_script, sc, wait_s) for tag, sc in RUNAWAY.items()}
            for tag, fu in futs.items():
                out, dt, served, alive = fu.result()
                rep.evaluations += 1
                rep.count("runaway-script." + out)
                rep.nontrivial(("runaway", tag, out, served, alive))
                rep.extra.setdefault("runaway_scripts", {})[tag] = {"outcome": out, "seconds": round(dt, 2), "served_afterwards": served}
                # the script must END (an error reply, or whatever it returns after catching the error) and the server must go on
                if not (out == "error-reply" or out.startswith("reply:")) or not served or not alive:
                    new_fail.append({"why": "a script that does not end by itself (%s): %s after %.1f s, fresh connection %s, process %s (script time limit %d ms)" % (
                        tag, out, dt, "served" if served else "NOT served", "alive" if alive else "DEAD", limit_ms),
                        "commands": [["EVAL", RUNAWAY[tag], "0"]], "name": "runaway-script", "raw": []})
    for f in findings:
        if f.get("confirm") == "dies-under-aslimit":
            # the witness script on a dedicated server with a capped address space: the finding stands while the process dies or wedges
            out, dt, served, alive = run_script(f["witness"][1], 60.0)
            rep.evaluations += 1
            rep.extra.setdefault("capped_memory_scripts", {})[f["id"]] = {"outcome": out, "seconds": round(dt, 2), "served_afterwards": served, "alive": alive, "address_space_cap": AS_CAP}
            if out == "error-reply" and served and alive:
                rep.violation("known finding %s no longer reproduces: the known-findings file is stale" % f["id"], {"finding": f}, no_input=True)
            else:
                rep.known(f["id"], f["what"])
        if f.get("confirm") == "wedge":
            # replay the witness on a dedicated server: afterwards a fresh connection must NOT be served
            s2 = Server("c06-wedge")
            try:
                a = s2.client(timeout=1.0)
                a.send(*f["witness"])
                time.sleep(0.5)
                try:
                    b = s2.client(timeout=1.5)
                    b.cmd("PING", timeout=1.5)
                    still = False
                except (Closed, TimeoutError, ProtocolError, OSError):
                    still = True
            finally:
                s2.stop()
            if still:
                rep.known(f["id"], f["what"])
            else:
                rep.violation("known finding %s no longer reproduces: the known-findings file is stale" % f["id"], {"finding": f}, no_input=True)
    if new_fail:
        det = new_fail[0]
        rep.violation("C06: %s after %s" % (det["why"][:160], det["commands"][0]), {"replay": det, "more": [(d["name"], d["why"][:100]) for d in new_fail[1:10]], "lean_errors": errs[:5]})
    elif not ok:
        rep.violation("proof obligations of C06 no longer check against the regenerated tables", {"theorem_errors": errs[:10], "log_tail": log[-3000:]}, no_input=True)
    elif site_dis:
        rep.violation("correspondence Model/Arith.lean vs server broke at %d grid points although the server stayed alive" % len(site_dis),
                      {"correspondence": "Ferrous.Arith.{getrange,setrange,srandPicks,evalKeys,listIndex} vs GETRANGE/SETRANGE/SRANDMEMBER/EVAL/LINDEX over TCP",
                       "disagreements": site_dis[:10]}, no_input=True)
    rep.extra["crashes_found"] = len(c.failures)
    rep.extra["site_grid_disagreements"] = len(site_dis)
    return rep.finish()
