"""A real `ferrous` server process (built from /repo's working tree with feature `verif`)
and an independent minimal RESP client (its reader shares no code with ferrous's parser)."""
import os
import shutil
import socket
import subprocess
import time

from common import CACHE, SERVER_BIN, ENV, InternalError


def free_port():
    s = socket.socket()
    s.bind(("127.0.0.1", 0))
    p = s.getsockname()[1]
    s.close()
    return p


class Server:
    def __init__(self, tag, password=None, appendonly=False, extra=(), keep_dir=None, preexec_fn=None, quiet=False,
                 config_lines=None, config_flag=None, password_flag="--requirepass", probe=True):
        """config_lines: lines of a configuration file `<dir>/ferrous.conf`, passed positionally (config_flag=None) or after
        `--config` / `-c`; password_flag: `--requirepass` or `--password`; probe=False: readiness is read from /proc/net/tcp
        instead of a TCP connect, so that the FIRST connection the server ever accepts is the caller's."""
        self.tag = tag
        self.port = free_port()
        self.dir = keep_dir or os.path.join(CACHE, "run", "%s-%d-%d" % (tag, os.getpid(), self.port))
        os.makedirs(self.dir, exist_ok=True)
        self.password = password
        argv = [SERVER_BIN]
        if config_lines is not None:
            conf = os.path.join(self.dir, "ferrous.conf")
            with open(conf, "w", encoding="utf-8") as f:
                f.write("".join(l + "\n" for l in config_lines))
            argv += [config_flag, conf] if config_flag else [conf]
        argv += ["--port", str(self.port), "--dir", self.dir]
        if password is not None:
            argv += [password_flag, password]
        if appendonly:
            argv += ["--appendonly", "yes"]
        argv += list(extra)
        self.argv = argv
        # quiet: the server's own output goes to /dev/null (a character device is not subject to RLIMIT_FSIZE)
        self.log = open(os.devnull if quiet else os.path.join(self.dir, "server.log"), "ab")
        self.p = subprocess.Popen(argv, cwd=self.dir, stdout=self.log, stderr=self.log, env=ENV, preexec_fn=preexec_fn)
        if probe:
            self.wait_ready()
        else:
            self.wait_listening()

    def wait_listening(self):
        """ready when the kernel shows a LISTEN socket on the port (no connection is made)"""
        want = "%04X" % self.port
        t0 = time.time()
        while time.time() - t0 < 20:
            if self.p.poll() is not None:
                raise InternalError("server exited at start-up: " + self.log_tail())
            for table in ("/proc/net/tcp", "/proc/net/tcp6"):
                try:
                    with open(table) as f:
                        for line in f.readlines()[1:]:
                            w = line.split()
                            if len(w) > 3 and w[3] == "0A" and w[1].rsplit(":", 1)[-1] == want:
                                return
                except OSError:
                    pass
            time.sleep(0.01)
        raise InternalError("server did not start listening: " + self.log_tail())

    def wait_ready(self):
        t0 = time.time()
        while time.time() - t0 < 20:
            if self.p.poll() is not None:
                raise InternalError("server exited at start-up: " + self.log_tail())
            try:
                s = socket.create_connection(("127.0.0.1", self.port), timeout=0.5)
                s.close()
                return
            except OSError:
                time.sleep(0.02)
        raise InternalError("server did not start listening: " + self.log_tail())

    def alive(self):
        return self.p.poll() is None

    def log_tail(self, n=600):
        try:
            self.log.flush()
            with open(os.path.join(self.dir, "server.log"), "rb") as f:
                return f.read()[-n:].decode("utf-8", "replace")
        except OSError:
            return ""

    def client(self, timeout=5.0):
        return Client(self.port, timeout)

    def stop(self, remove=True):
        if self.p.poll() is None:
            self.p.terminate()
            try:
                self.p.wait(timeout=5)
            except subprocess.TimeoutExpired:
                self.p.kill()
                self.p.wait()
        self.log.close()
        if remove:
            shutil.rmtree(self.dir, ignore_errors=True)

    def kill9(self):
        self.p.kill()
        self.p.wait()


class ProtocolError(Exception):
    pass


class Closed(Exception):
    pass


class Client:
    """Replies are Python values: ('s',bytes) ('e',bytes) ('i',int) ('b',bytes) ('nb',) ('a',[..]) ('na',)
    and the RESP3 forms ('n',) ('t',) ('f',) ('d',bytes) ('m',[..]) ('S',[..])."""

    def __init__(self, port, timeout=5.0):
        self.s = socket.create_connection(("127.0.0.1", port), timeout=timeout)
        self.s.setsockopt(socket.IPPROTO_TCP, socket.TCP_NODELAY, 1)
        self.buf = b""
        self.timeout = timeout

    def close(self):
        try:
            self.s.close()
        except OSError:
            pass

    @staticmethod
    def encode(args):
        out = [b"*%d\r\n" % len(args)]
        for a in args:
            if isinstance(a, str):
                a = a.encode()
            elif isinstance(a, int):
                a = str(a).encode()
            out.append(b"$%d\r\n%s\r\n" % (len(a), a))
        return b"".join(out)

    def send_raw(self, data):
        self.s.sendall(data)

    def send(self, *args):
        self.s.sendall(self.encode(args))

    def cmd(self, *args, timeout=None):
        self.send(*args)
        return self.read_reply(timeout)

    # ---- independent RESP reader
    def _fill(self, timeout):
        self.s.settimeout(self.timeout if timeout is None else timeout)
        try:
            d = self.s.recv(65536)
        except socket.timeout:
            raise TimeoutError()
        except OSError:
            raise Closed()
        if not d:
            raise Closed()
        self.buf += d

    def _line(self, timeout):
        while True:
            i = self.buf.find(b"\r\n")
            if i >= 0:
                l, self.buf = self.buf[:i], self.buf[i + 2:]
                return l
            self._fill(timeout)

    def _exact(self, n, timeout):
        while len(self.buf) < n:
            self._fill(timeout)
        d, self.buf = self.buf[:n], self.buf[n:]
        return d

    def read_reply(self, timeout=None):
        l = self._line(timeout)
        if not l:
            raise ProtocolError("empty line where a reply type byte was expected")
        t, rest = l[:1], l[1:]
        if t == b"+":
            return ("s", rest)
        if t == b"-":
            return ("e", rest)
        if t == b":":
            return ("i", self._int(rest))
        if t == b"$":
            n = self._int(rest)
            if n == -1:
                return ("nb",)
            if n < 0:
                raise ProtocolError("bad bulk length %r" % rest)
            d = self._exact(n + 2, timeout)
            if d[-2:] != b"\r\n":
                raise ProtocolError("bulk not terminated by CRLF")
            return ("b", d[:-2])
        if t == b"*":
            n = self._int(rest)
            if n == -1:
                return ("na",)
            if n < 0:
                raise ProtocolError("bad array length %r" % rest)
            return ("a", [self.read_reply(timeout) for _ in range(n)])
        if t == b"_":
            return ("n",)
        if t == b"#":
            return ("t",) if rest == b"t" else ("f",)
        if t == b",":
            return ("d", rest)
        if t == b"%":
            return ("m", [self.read_reply(timeout) for _ in range(2 * self._int(rest))])
        if t == b"~":
            return ("S", [self.read_reply(timeout) for _ in range(self._int(rest))])
        raise ProtocolError("unknown reply type byte %r (line %r)" % (t, l[:60]))

    @staticmethod
    def _int(b):
        try:
            return int(b)
        except ValueError:
            raise ProtocolError("bad integer %r" % b[:40])

    def nothing_pending(self, wait=0.05):
        """True iff no further byte arrives within `wait` seconds."""
        if self.buf:
            return False
        self.s.settimeout(wait)
        try:
            d = self.s.recv(65536)
        except socket.timeout:
            return True
        except OSError:
            return True
        if not d:
            return True   # closed
        self.buf += d
        return False


ERR_CLASSES = [b"WRONGTYPE", b"NOAUTH", b"NOSCRIPT", b"BUSYGROUP", b"NOGROUP", b"EXECABORT", b"BUSY", b"NOPROTO", b"READONLY"]


def err_class(msg: bytes) -> str:
    for c in ERR_CLASSES:
        if msg.startswith(c):
            return c.decode()
    return "ERR"


def show_reply(r, sort=False):
    """Canonical text of a reply: error wording reduced to its class; `sort=True` sorts array
    elements at the top level (for replies that come out of a hash map / hash set)."""
    t = r[0]
    if t == "e":
        return "( e %s )" % err_class(r[1])
    if t in ("s", "b", "d"):
        return "( %s %s )" % (t, r[1].hex() if r[1] else "-")
    if t == "i":
        return "( i %d )" % r[1]
    if t in ("nb", "na", "n", "t", "f"):
        return "( %s )" % t
    if t in ("a", "m", "S"):
        items = [show_reply(x) for x in r[1]]
        if sort:
            items.sort()
        return "( %s%s )" % (t, "".join(" " + x for x in items))
    raise ValueError(r)
