"""C04 — sorted sets stay totally ordered and consistent.

Deciding artefact: lean/FerrousSpec/Props/C04.lean (skip-list invariant for every operation
sequence and every tower height, refinement of level 0 to the sorted (score, member) list,
query-consistency laws, rank-range index arithmetic for all integers, NaN / refused-ZADD
statements with witness lemmas for the tree as it is).

This module ties `Ferrous.ZSet.Code.*` to the code on three layers, all driven by one PRNG:
  sl   the real `SkipList<Vec<u8>, f64>` in-process; after every operation the level dump of
       `verif_dump_levels()` must equal the model's levels/index/length (the tower height of the
       new node is inferred from the dump and passed to the model);
  zs   the real `StorageEngine::z*` functions in-process (with the engine's own skip list dumped
       through `get`), every reply compared with the model;
  tcp  the real server: ZADD (multi-pair, unusable scores), ZINCRBY, ZPOPMIN/ZPOPMAX with counts,
       ZRANGE/ZREVRANGE, read back with ZRANGE 0 -1 WITHSCORES / ZCARD / EXISTS.
and judges every observation with the property's own oracle (`Spec.*`, evaluated by the Lean
driver): oracle failures are violations unless they have the shape of a listed known finding.
"""
import struct

from common import *
import server as srvmod

FAM = "zset"

# ------------------------------------------------------------------ scores
PINF, NINF, NAN = 0x7FF0000000000000, 0xFFF0000000000000, 0x7FF8000000000000


def bits_of(x):
    return struct.unpack(">Q", struct.pack(">d", x))[0]


def float_of(b):
    return struct.unpack(">d", struct.pack(">Q", b))[0]


def is_nan_bits(b):
    return (b >> 52) & 0x7FF == 0x7FF and (b & ((1 << 52) - 1)) != 0


NZERO = 0x8000000000000000


def key_of_bits(b):
    """the model's exact value token: sign-magnitude bits -> monotone integer (+0.0 -> 0), -0.0 -> nz
    (injective on non-NaN values: the sign of zero stays observable in every compared reply)"""
    if is_nan_bits(b):
        return "nan"
    if b == NZERO:
        return "nz"
    if b == PINF:
        return "pinf"
    if b == NINF:
        return "ninf"
    mag = b & 0x7FFFFFFFFFFFFFFF
    return str(-mag if b >> 63 else mag)


def hexbits(b):
    return "%016x" % b


SCORES = [bits_of(x) for x in (0.0, -0.0, 1.0, -1.0, 2.0, 3.0, 1.5, -2.5, 0.1, 100.0, 1e300, -1e300,
                               5e-324, -5e-324, 1.7976931348623157e308, -1.7976931348623157e308)] + \
         [0x3FF0000000000001, 0x3FEFFFFFFFFFFFFF, 0x4000000000000001, PINF, NINF]
# values that compare equal or are adjacent around zero / at the top of the range (re-scores between them)
ZEROISH = [bits_of(x) for x in (0.0, -0.0, 0.0, -0.0, 5e-324, -5e-324, 1e-320, -1e-320)]
EDGES = [bits_of(1.7976931348623157e308), 0x7FEFFFFFFFFFFFFE, PINF, bits_of(-1.7976931348623157e308), NINF, bits_of(0.0), bits_of(-0.0)]


def score_class(b):
    if is_nan_bits(b):
        return "nan"
    if b == 0:
        return "+0"
    if b == NZERO:
        return "-0"
    if b in (PINF, NINF):
        return "inf"
    e = (b >> 52) & 0x7FF
    if e == 0:
        return "denormal"
    if e == 0x7FE and (b & ((1 << 52) - 1)) >= (1 << 52) - 2:
        return "max-finite"
    return "normal"


def rescore_class(old_tok, new_bits):
    """relation between the score a member holds and the one it is given (tokens of key_of_bits)"""
    new_tok = key_of_bits(new_bits)
    if old_tok is None:
        return "new-member"
    if old_tok == new_tok:
        return "same-value"
    z = {"0", "nz"}
    if old_tok in z and new_tok in z:
        return "equal-compare-other-value(+-0)"
    if "nan" in (old_tok, new_tok) or old_tok in ("pinf", "ninf") or new_tok in ("pinf", "ninf"):
        return "other"
    a, b = (0 if old_tok == "nz" else int(old_tok)), (0 if new_tok == "nz" else int(new_tok))
    return "adjacent" if abs(a - b) == 1 else "other"
MEMBERS = [b"a", b"b", b"c", b"", b"ab", b"a\x00", b"\xff", b"b\r\n", b"B"]


def canon_items(s):
    """impl item list `m:bits,...` -> `m:key,...`"""
    if s == ".":
        return "."
    out = []
    for it in s.split(","):
        m, b = it.split(":")
        out.append(m + ":" + key_of_bits(int(b, 16)))
    return ",".join(out)


def canon_opt_score(s):
    return s if s == "none" else key_of_bits(int(s, 16))


def parse_dump(s):
    """`L=a;b I=x N=n` (items already canonical) -> (levels, index, n); items are (member_hex, key)"""
    f = dict(p.split("=", 1) for p in s.split(" ") if "=" in p)
    lv = [([] if l == "." else [tuple(i.split(":")) for i in l.split(",")]) for l in f["L"].split(";")]
    ix = [] if f["I"] == "." else [tuple(i.split(":")) for i in f["I"].split(",")]
    return lv, ix, int(f["N"])


def canon_dump(s):
    """impl dump -> canonical text identical to the Lean driver's"""
    f = dict(p.split("=", 1) for p in s.split(" ") if "=" in p)
    return "L=%s I=%s N=%s" % (";".join(canon_items(l) for l in f["L"].split(";")), canon_items(f["I"]), f["N"])


def fields(s):
    """`C=.. S=.. D=.. K=<dump.. inv=b|absent> Z=..` -> dict (K keeps its spaces)"""
    out = {}
    if " K=" in s:
        head, rest = s.split(" K=", 1)
        k, z = rest.rsplit(" Z=", 1)
        out["K"], out["Z"] = k, z
    else:
        head = s
    for p in head.split(" "):
        if "=" in p:
            a, b = p.split("=", 1)
            out[a] = b
    return out


def score_sort_key(k):
    if k == "ninf":
        return (0, 0)
    if k == "pinf":
        return (2, 0)
    if k == "nan":
        return (3, 0)
    if k == "nz":
        return (1, 0)            # -0.0 and +0.0 compare equal: ordered by member
    return (1, int(k))


def dump_invariant(lv, ix, n):
    """The property's structural oracle, evaluated directly on an implementation dump."""
    l0 = lv[0] if lv else []
    for (m, k) in l0:
        if k == "nan":
            return "a NaN score is stored"
    ents = [(score_sort_key(k), unhx(m)) for (m, k) in l0]
    for a, b in zip(ents, ents[1:]):
        if not a < b:
            return "level 0 is not strictly sorted by (score, member)"
    if len(set(m for m, _ in l0)) != len(l0):
        return "a member occurs twice"
    if sorted(l0) != sorted(ix):
        return "key index differs from level 0"
    if n != len(l0):
        return "length differs from the number of nodes"
    for lo, up in zip(lv, lv[1:]):
        it = iter(lo)
        if not all(any(x == y for y in it) for x in up):
            return "a level is not a sublist of the level below"
    return None


def infer_height(pre, post, member_hex):
    """Tower height of the node inserted between two dumps (see DESIGN C04 K): the slots gained,
    plus the slots of the old node of this member when the model says it was unlinked
    (it is indexed with a non-NaN score)."""
    plv, pix, _ = pre
    qlv, _, _ = post
    removed = 0
    old = dict(pix).get(member_hex)
    if old is not None and old != "nan":
        removed = sum(1 for l in plv if (member_hex, old) in l)
    h1 = sum(len(l) for l in qlv) - sum(len(l) for l in plv) + removed
    return h1 - 1 if 1 <= h1 <= 64 else 0


EMPTY_DUMP = ([[]], [], 0)


# ------------------------------------------------------------------ source-derived switches
def fn_body(text, name):
    m = re.search(r"\bfn\s+" + re.escape(name) + r"\b[^{;]*\{", text)
    if not m:
        return None
    i, depth = m.end(), 1
    while i < len(text) and depth:
        depth += {"{": 1, "}": -1}.get(text[i], 0)
        i += 1
    return text[m.end():i - 1]


def strip_rust_comments(s):
    s = re.sub(r"//[^\n]*", "", s)
    return re.sub(r"/\*.*?\*/", "", s, flags=re.S)


def source_switches():
    """Which variant of the model corresponds to /repo's current source (the model's quirk switches)."""
    sw = {"fixedRange": False, "fixedZadd": False, "fixedZincr": False, "fixedOpt": False, "fixedBounds": False, "fixedPop": False,
          "oneCallOneLock": False, "extraction_failed": []}
    try:
        eng = strip_rust_comments(open(os.path.join(REPO, "src", "storage", "engine.rs"), errors="replace").read())
        net = strip_rust_comments(open(os.path.join(REPO, "src", "network", "server.rs"), errors="replace").read())
    except OSError as e:
        sw["extraction_failed"].append(str(e))
        return sw
    zr = fn_body(eng, "zrange")
    if zr is None or "if reverse" not in zr:
        sw["extraction_failed"].append("StorageEngine::zrange / its `if reverse` branch not found")
    else:
        head = zr[:zr.index("if reverse")] + zr[zr.index("if reverse"):].split("{", 1)[0]
        sw["fixedRange"] = bool(re.search(r"stop\s*<\s*0\s*&&\s*\(?\s*len\s+as\s+isize\s*\+\s*stop\s*\)?\s*<\s*0", head))
    za = fn_body(net, "handle_zadd")
    if za is None or "storage.zadd" not in za:
        sw["extraction_failed"].append("handle_zadd not found")
    else:
        sw["fixedZadd"] = "is_nan()" in za[:za.index("storage.zadd")]
    # d3/d4 (hunt): trailing option of the four range handlers, NaN score bounds, the reply of a pop that pops nothing
    hb = {n: fn_body(net, n) for n in ("handle_zrange", "handle_zrevrange", "handle_zrangebyscore", "handle_zrevrangebyscore", "handle_zcount",
                                       "handle_zpopmin", "handle_zpopmax")}
    if any(v is None for v in hb.values()):
        sw["extraction_failed"].append("range / pop handlers not found: %s" % [n for n, v in hb.items() if v is None])
    else:
        opt = [bool(re.search(r"parts\.len\(\)\s*==\s*5\s*&&\s*!\s*with_scores", hb[n])) for n in ("handle_zrange", "handle_zrevrange", "handle_zrangebyscore", "handle_zrevrangebyscore")]
        bnd = ["is_nan()" in hb[n] for n in ("handle_zrangebyscore", "handle_zrevrangebyscore", "handle_zcount")]
        pop = ["null_array()" not in hb[n] for n in ("handle_zpopmin", "handle_zpopmax")]
        for name, vals in (("fixedOpt", opt), ("fixedBounds", bnd), ("fixedPop", pop)):
            if len(set(vals)) != 1:
                sw["extraction_failed"].append("%s: the handlers disagree with each other %s" % (name, vals))
            sw[name] = all(vals)
    # one storage call per command, one lock scope per storage call (zadd_many / zrem_many / zpop)
    one = []
    for hn, call in (("handle_zadd", "storage.zadd_many("), ("handle_zrem", "storage.zrem_many("), ("handle_zpopmin", "storage.zpop("), ("handle_zpopmax", "storage.zpop(")):
        b = fn_body(net, hn) or ""
        one.append(b.count(call) == 1 and not re.search(r"storage\.(zadd|zrem|zrange)\(", b))
    for fn in ("zadd_many", "zrem_many", "zpop"):
        b = fn_body(eng, fn)
        if b is None:
            one.append(False)
            continue
        loop = min([b.index(t) for t in ("for ", "while ") if t in b] or [len(b)])
        one.append(b.count("get_shard(") == 1 and b.count(".write()") == 1 and b.index("get_shard(") < b.index(".write()") < loop)
    sw["oneCallOneLock"] = all(one)
    if not all(one):
        sw["extraction_failed"].append("multi-member commands are not one storage call under one lock scope (handlers / zadd_many, zrem_many, zpop): %s" % one)
    zi = fn_body(net, "handle_zincrby")
    if zi is None or "storage.zincrby" not in zi:
        sw["extraction_failed"].append("handle_zincrby not found")
    else:
        sw["fixedZincr"] = "is_nan()" in zi[:zi.index("storage.zincrby")]
    return sw


# ------------------------------------------------------------------ findings
ASSUME_FIXED = set(x for x in os.environ.get("C04_ASSUME_FIXED", "").split(",") if x)      # test-only: run against a tree that has a pending fix


def load_findings():
    fs = [f for f in load_known_findings().get("open", []) if isinstance(f, dict) and f.get("property") == "C04"]
    p = os.path.join(VERIF, "pending_repo_patches", "C04_findings.json")
    if os.path.exists(p):
        have = {f["id"] for f in fs}
        fs += [f for f in json.load(open(p)) if f["id"] not in have]
    return [f for f in fs if f["id"] not in ASSUME_FIXED]


def classify(kind, det, findings):
    """Does this oracle failure have the shape of a listed finding?"""
    for f in findings:
        m = f.get("match")
        if m == kind == "zrange-clamp" or m == kind == "zrevrange-clamp":
            # the deviation predicate of the Lean model fired, the prescribed reply is empty and exactly one member came back
            if det.get("dev") == kind and det.get("spec") == "." and det.get("impl", "").count(":") == 1:
                return f
        if m == kind == "nan-stored" and det.get("nan"):
            return f
        if m == kind == "zincrby-nan" and det.get("nan"):
            return f
        if m == kind == "zadd-partial" and det.get("spec_reply") == "err" and det.get("impl_reply") == "err":
            return f
        if m == kind == "range-unknown-option" and det.get("spec") == "err" and det.get("opt") == "other" and str(det.get("impl", "")).startswith("0/"):
            return f        # an unknown trailing argument answered as the plain command
        if m == kind == "nan-score-bound" and det.get("spec") == "err" and det.get("nan_bound") and det.get("impl") != "err":
            return f
        if m == kind == "zpop-null-array" and det.get("spec") == "." and det.get("impl") == "null":
            return f
    return None


# ------------------------------------------------------------------ the check
class Fail(Exception):
    pass


class C04:
    def __init__(self, rep, sw):
        self.rep = rep
        self.sw = sw
        self.impl = impl_driver(FAM)
        self.model = lean_driver(FAM)
        self.oracle_failures = []      # (kind, detail)
        self.disagreements = []        # impl vs Code
        self.findings = load_findings()
        self.keyno = 0
        self.fmt_cache = {}
        self.cfg()

    def cfg(self):
        a = self.model.ask("cfg %d %d %d %d %d %d" % tuple(self.sw[k] for k in ("fixedRange", "fixedZadd", "fixedZincr", "fixedOpt", "fixedBounds", "fixedPop")))
        if a != "ok":
            raise InternalError("Lean driver refused cfg: %r" % a)

    def close(self):
        self.impl.close()
        self.model.close()

    def ask_model(self, line):
        b = self.model.ask(line)
        if b is None:
            raise InternalError("Lean driver died on: " + line)
        if b == "bad-op":
            raise InternalError("Lean driver rejected: " + line)
        return b

    def ask_impl(self, line):
        a = self.impl.ask(line)
        if a == "bad-op":
            raise InternalError("impl driver rejected: " + line)
        return a

    def note_classes(self, layer, old_tok, new_bits):
        """input-class distribution for the evidence: what kind of value, and how it relates to the stored one"""
        self.rep.count("class.score.%s" % score_class(new_bits))
        rc = rescore_class(old_tok, new_bits)
        self.rep.count("class.rescore.%s" % rc)
        self.rep.nontrivial((layer, "rescore", rc, score_class(new_bits)))

    def fmt_score(self, bits):
        """Rust's f64 Display (the handlers' `score.to_string()`), a parameter obtained from the real formatter"""
        if bits not in self.fmt_cache:
            self.fmt_cache[bits] = unhx(self.ask_impl("fmt " + hexbits(bits)))
        return self.fmt_cache[bits]

    def score_reply(self, text, where, out, op):
        """a score as the server printed it -> exact value token; the text must be the canonical rendering of that value"""
        bits = bits_of(float(text.decode()))
        if not is_nan_bits(bits) and self.fmt_score(bits) != text:
            out.append(("oracle", "score-text", {"op": list(op), "impl": text.decode("ascii", "replace"), "want": self.fmt_score(bits).decode(),
                                                "where": where, "why": "score text is not the exact rendering of the stored value"}))
        return bits

    def range_reply(self, c, args, opt_hex, out, op):
        """a range command with its optional trailing argument (hex; "" = absent) -> (`err` | `<withscores 0/1>/<entries>`, option class);
        without WITHSCORES the members are completed with the scores ZSCORE gives (the order is what is compared)"""
        opt = unhx(opt_hex) if opt_hex else None
        oc = "none" if opt is None else ("ws" if opt.upper() == b"WITHSCORES" else "other")
        r = c.cmd(*(args + ([opt] if opt is not None else [])))
        if r[0] == "e":
            return "err", oc
        if r[0] != "a":
            return repr(r), oc
        xs = r[1]
        if oc == "ws":
            ws = 1
            items = ["%s:%s" % (hx(xs[j][1]), key_of_bits(self.score_reply(xs[j + 1][1], args[0] + " WITHSCORES", out, op))) for j in range(0, len(xs) - 1, 2)]
        else:
            ws = 0
            items = []
            for x in xs:
                z = c.cmd("ZSCORE", args[1], x[1])
                items.append("%s:%s" % (hx(x[1]), key_of_bits(bits_of(float(z[1].decode()))) if z[0] == "b" else "?"))
        return "%d/%s" % (ws, ",".join(items) or "."), oc

    def fresh_key(self):
        self.keyno += 1
        return ("k%d" % self.keyno).encode()

    # ---------------- layer sl
    def run_sl(self, ops, tag, record=True):
        """ops: tuples; returns list of (class, kind, detail). Fresh list on both sides."""
        rep = self.rep
        out = []
        self.ask_impl("sl new")
        self.ask_model("sl new")
        pre = EMPTY_DUMP
        tainted = False
        trace = []
        for op in ops:
            rep.evaluations += record
            name = op[0]
            if name in ("ins", "rem"):
                if name == "ins":
                    a = self.ask_impl("sl ins %s %s" % (op[1], hexbits(op[2])))
                else:
                    a = self.ask_impl("sl rem %s" % op[1])
                if a is None or a == "panic":
                    out.append(("oracle", "crash", {"op": op, "impl": a, "why": "skip list %s panicked/aborted" % name, "stderr": self.impl.stderr_tail[-300:]}))
                    break
                old, dump = a.split(" ", 1)
                old = "old=" + canon_opt_score(old[4:])
                dump = canon_dump(dump)
                post = parse_dump(dump)
                if name == "ins":
                    h = infer_height(pre, post, op[1])
                    b = self.ask_model("sl ins %d %s %s" % (h, op[1], key_of_bits(op[2])))
                    if record:
                        self.note_classes("sl", dict(pre[1]).get(op[1]), op[2])
                else:
                    h = None
                    b = self.ask_model("sl rem %s" % op[1])
                bw = b.split(" ")
                b_old, b_dump, b_inv, b_spec = bw[0], " ".join(bw[1:4]), bw[4], bw[5][2:]
                trace.append({"op": list(op), "height": h, "impl": old + " " + dump, "code": b})
                if (old, dump) != (b_old, b_dump):
                    out.append(("corr", "sl-" + name, {"op": op, "height": h, "impl": old + " " + dump, "code": b_old + " " + b_dump}))
                why = dump_invariant(*post)
                l0 = ",".join("%s:%s" % e for e in post[0][0]) or "."
                if name == "ins" and is_nan_bits(op[2]):
                    tainted = True       # NaN handed to SkipList::insert directly: compared with the model only (refusal is the handlers' duty, layer tcp)
                if why and not tainted:
                    nan = "NaN" in why
                    out.append(("oracle", "nan-stored" if nan else "inv", {"op": op, "impl": dump, "why": why, "nan": nan, "layer": "sl"}))
                    tainted = tainted or nan
                elif not tainted and l0 != b_spec:
                    out.append(("oracle", "order", {"op": op, "impl": l0, "spec": b_spec, "why": "level 0 is not the prescribed sorted set"}))
                if not tainted and l0 != b_spec:
                    if why is None:
                        self.ask_model("sl setspec " + l0)
                    else:
                        tainted = True
                if record:
                    rep.count("sl." + name)
                    rep.nontrivial(("sl", name, min(h, 6) if h is not None else -1, min(post[2], 6), b_inv, old != "old=none", tainted))
                pre = post
            else:
                if name in ("rank", "score"):
                    line = "sl %s %s" % (name, op[1])
                    a = self.ask_impl(line)
                    if name == "score" and a not in (None, "panic"):
                        a = canon_opt_score(a)
                    b = self.ask_model(line)
                elif name == "byrank":
                    line = "sl byrank %d %d" % (op[1], op[2])
                    a = self.ask_impl(line)
                    a = canon_items(a) if a not in (None, "panic") else a
                    b = self.ask_model(line)
                elif name == "byscore":
                    a = self.ask_impl("sl byscore %s %s" % (hexbits(op[1]), hexbits(op[2])))
                    a = canon_items(a) if a not in (None, "panic") else a
                    b = self.ask_model("sl byscore %s %s" % (key_of_bits(op[1]), key_of_bits(op[2])))
                elif name == "len":
                    a = self.ask_impl("sl len")
                    b = self.ask_model("sl len")
                else:
                    raise InternalError("unknown sl op %r" % (op,))
                f = fields(b)
                trace.append({"op": list(op), "impl": a, "code": f["C"], "spec": f["S"]})
                if a is None or a == "panic":
                    out.append(("oracle", "crash", {"op": op, "impl": a, "why": "skip list query panicked/aborted"}))
                    break
                if a != f["C"]:
                    out.append(("corr", "sl-" + name, {"op": op, "impl": a, "code": f["C"]}))
                if not tainted and f["S"] != "na" and a != f["S"]:
                    out.append(("oracle", "query", {"op": op, "impl": a, "spec": f["S"], "why": "%s answer differs from the prescribed one" % name}))
                if record:
                    rep.count("sl." + name)
                    rep.nontrivial(("sl", name, a in (".", "none"), min(a.count(","), 4), tainted))
        self.last_trace = trace
        return out

    def gen_sl(self, r, n, nan_ok):
        ops, members, cnt = [], r.choice([MEMBERS[:3], MEMBERS[:5], MEMBERS]), 0
        scores = r.choice([SCORES, SCORES[:6], [SCORES[2], SCORES[16], SCORES[17]], ZEROISH, ZEROISH, EDGES])
        if scores is ZEROISH:
            members = MEMBERS[:3]
        for _ in range(n):
            k = r.below(20)
            m = hx(r.choice(members))
            if k < 11:
                s = NAN if (nan_ok and r.chance(1, 12)) else r.choice(scores)
                ops.append(("ins", m, s))
                cnt += 1
            elif k < 14:
                ops.append(("rem", m))
            elif k == 14:
                ops.append(("rank", m))
            elif k == 15:
                ops.append(("score", m))
            elif k == 16:
                ops.append(("byrank", r.choice([0, 1, 2, cnt, 5]), r.choice([0, 1, 2, cnt, 100, 2**64 - 1])))
            elif k in (17, 18):
                lo, hi = r.choice(scores + [NINF, PINF]), r.choice(scores + [NINF, PINF])
                if nan_ok and r.chance(1, 10):
                    lo = NAN
                ops.append(("byscore", lo, hi))
            else:
                ops.append(("len",))
        return ops

    # ---------------- layer zs
    def bounds(self, r, n):
        c = [0, 1, -1, n, -n, n + 1, -(n + 1), n - 1, -(n - 1), 2, -2, 100, -100, 2**63 - 1, -2**63, 2**62, -2**62 - 1]
        return r.choice(c)

    def run_zs(self, ops, tag, record=True, gen=None):
        """ops: concrete tuples, or None with gen(r_state)->op for online generation (bounds depend on the size)."""
        rep = self.rep
        out = []
        key = hx(self.fresh_key())
        pre = EMPTY_DUMP
        tainted = False
        shadow = {}        # member -> bits (what this harness itself asked to store)
        trace = []
        n_spec = 0
        done = []
        i = 0
        while True:
            if ops is not None:
                if i >= len(ops):
                    break
                op = tuple(ops[i])
            else:
                op = gen(n_spec, i)
                if op is None:
                    break
            i += 1
            done.append(op)
            rep.evaluations += record
            name = op[0]
            h = None
            nanflag = False
            if name == "zadd":
                a = self.ask_impl("zs zadd %s %s %s" % (key, op[1], hexbits(op[2])))
                post, postc = self.impl_dump(key)
                h = infer_height(pre, post, op[1]) if post else 0
                b = self.ask_model("zs zadd %s %d %s %s" % (key, h, op[1], key_of_bits(op[2])))
                nanflag = is_nan_bits(op[2])
                if record:
                    self.note_classes("zs", key_of_bits(shadow[op[1]]) if op[1] in shadow else None, op[2])
            elif name == "zincrby":
                cur = shadow.get(op[1])
                summ = bits_of(float_of(cur) + float_of(op[2])) if cur is not None else op[2]
                a = self.ask_impl("zs zincrby %s %s %s" % (key, op[1], hexbits(op[2])))
                post, postc = self.impl_dump(key)
                h = infer_height(pre, post, op[1]) if post else 0
                b = self.ask_model("zs zincrby %s %d %s %s" % (key, h, op[1], key_of_bits(summ)))
                nanflag = is_nan_bits(summ)
                if record:
                    self.note_classes("zs", key_of_bits(cur) if cur is not None else None, summ)
                if a not in (None, "panic") and not a.startswith("err"):
                    if not tainted and not nanflag and int(a, 16) != summ:
                        out.append(("oracle", "zincrby-sum", {"op": op, "impl": a, "want": hexbits(summ), "why": "ZINCRBY reply is not exactly old + increment (IEEE bits, sign of zero included)"}))
                    a = key_of_bits(int(a, 16))
            elif name == "zrem":
                a = self.ask_impl("zs zrem %s %s" % (key, op[1]))
                post, postc = self.impl_dump(key)
                b = self.ask_model("zs zrem %s %s" % (key, op[1]))
            elif name == "zaddmany":
                pairs = [(m, b) for m, b in op[1]]
                a = self.ask_impl("zs zaddmany %s %s" % (key, ",".join("%s:%s" % (m, hexbits(b)) for m, b in pairs)))
                post, postc = self.impl_dump(key)
                hs = []
                for j, (m, pb) in enumerate(pairs):
                    last = all(m2 != m for m2, _ in pairs[j + 1:])
                    ent = (m, key_of_bits(pb))
                    hs.append(max(sum(1 for l in post[0] if ent in l) - 1, 0) if (post and last) else 0)
                h = max(hs) if hs else None
                b_ = self.ask_model("zs zaddmany %s %s %s" % (key, ",".join(map(str, hs)), ",".join("%s:%s" % (m, key_of_bits(b)) for m, b in pairs)))
                b = b_
                if record:
                    seen = dict(shadow)
                    for m, bb in pairs:
                        self.note_classes("zs", key_of_bits(seen[m]) if m in seen else None, bb)
                        seen[m] = bb
                    rep.count("class.multi.pairs-%d%s" % (min(len(pairs), 4), "+dup-member" if len(set(m for m, _ in pairs)) < len(pairs) else ""))
            elif name == "zremmany":
                a = self.ask_impl("zs zremmany %s %s" % (key, "|".join(op[1])))
                post, postc = self.impl_dump(key)
                b = self.ask_model("zs zremmany %s %s" % (key, "|".join(op[1])))
            elif name == "popn":
                a = self.ask_impl("zs popn %s %s %d" % (key, op[1], op[2]))
                post, postc = self.impl_dump(key)
                b = self.ask_model("zs popn %s %s %d" % (key, op[1], op[2]))
                if a not in (None, "panic") and not a.startswith("err"):
                    a = canon_items(a)
            elif name == "pop":
                a = self.ask_impl("zs pop %s %s" % (key, op[1]))
                post, postc = self.impl_dump(key)
                b = self.ask_model("zs pop %s %s" % (key, op[1]))
                if a is not None and a.startswith("lost"):
                    rep.count("zs.pop.member-not-removable")      # zrange showed a member that zrem does not find (NaN ghost): nothing is pushed
                    a = "none"
                if a not in (None, "panic", "none") and not a.startswith("err"):
                    a = canon_items(a)
            else:
                post, postc = None, None
                if name == "zscore":
                    a = self.ask_impl("zs zscore %s %s" % (key, op[1]))
                    a = canon_opt_score(a) if a not in (None, "panic") and not a.startswith("err") else a
                    b = self.ask_model("zs zscore %s %s" % (key, op[1]))
                elif name == "zrank":
                    line = "zs zrank %s %s %d" % (key, op[1], op[2])
                    a, b = self.ask_impl(line), self.ask_model(line)
                elif name == "zrange":
                    line = "zs zrange %s %d %d %d" % (key, op[1], op[2], op[3])
                    a, b = self.ask_impl(line), self.ask_model(line)
                    a = canon_items(a) if a not in (None, "panic") and not a.startswith("err") else a
                elif name == "zrbs":
                    a = self.ask_impl("zs zrbs %s %s %s %d" % (key, hexbits(op[1]), hexbits(op[2]), op[3]))
                    a = canon_items(a) if a not in (None, "panic") and not a.startswith("err") else a
                    b = self.ask_model("zs zrbs %s %s %s %d" % (key, key_of_bits(op[1]), key_of_bits(op[2]), op[3]))
                elif name == "zcount":
                    a = self.ask_impl("zs zcount %s %s %s" % (key, hexbits(op[1]), hexbits(op[2])))
                    b = self.ask_model("zs zcount %s %s %s" % (key, key_of_bits(op[1]), key_of_bits(op[2])))
                elif name in ("zcard", "exists"):
                    line = "zs %s %s" % (name, key)
                    a, b = self.ask_impl(line), self.ask_model(line)
                else:
                    raise InternalError("unknown zs op %r" % (op,))
            f = fields(b)
            trace.append({"op": list(op), "height": h, "impl": a, "code": f["C"], "spec": f["S"], "dev": f["D"],
                          "impl_state": postc, "code_state": f["K"] if post is not None else None})
            if a is None or a == "panic" or a.startswith("err"):
                out.append(("oracle", "crash", {"op": op, "impl": a, "why": "engine %s failed/panicked" % name, "stderr": self.impl.stderr_tail[-300:] if a is None else ""}))
                break
            # correspondence: reply and (for mutations) the engine's own skip list
            if a != f["C"]:
                out.append(("corr", "zs-" + name, {"op": op, "impl": a, "code": f["C"]}))
            if post is not None:
                kc = f["K"] if f["K"] == "absent" else f["K"].rsplit(" inv=", 1)[0]
                if postc != kc:
                    out.append(("corr", "zs-state-" + name, {"op": op, "height": h, "impl": postc, "code": kc}))
            # oracle
            if nanflag:
                tainted = True       # NaN handed to the storage function directly: the refusal is the handler's duty (layer tcp)
            if not tainted:
                if f["S"] not in ("na",) and a != f["S"]:
                    kind = f["D"] if f["D"] != "-" else "reply"
                    out.append(("oracle", kind, {"op": op, "impl": a, "spec": f["S"], "dev": f["D"], "layer": "zs",
                                                 "why": "%s reply differs from the prescribed one" % name}))
                elif f["D"] != "-" and a == f["S"]:
                    # deviation predicate fired but impl == Spec: the model (or the known-findings file) is stale
                    out.append(("corr", "dev-tag-without-deviation", {"op": op, "impl": a, "dev": f["D"]}))
                if post is not None:
                    z = f["Z"]
                    l0 = ",".join("%s:%s" % e for e in post[0][0]) if post != EMPTY_DUMP else "."
                    if postc == "absent":
                        l0 = "."
                    why = dump_invariant(*post) if postc != "absent" else None
                    if why:
                        out.append(("oracle", "inv", {"op": op, "impl": postc, "why": why}))
                    elif l0 != z:
                        out.append(("oracle", "order", {"op": op, "impl": l0, "spec": z, "why": "stored set differs from the prescribed one"}))
                    elif (postc == "absent") != (z == "."):
                        out.append(("oracle", "key-removal", {"op": op, "impl": postc, "spec": z, "why": "key must exist exactly while the set is non-empty"}))
            if post is not None:
                pre = post if postc != "absent" else EMPTY_DUMP
                shadow = dict(self.obs_index)      # the scores the implementation holds now (input of the next IEEE sum)
                l0 = "." if postc == "absent" else (",".join("%s:%s" % e for e in post[0][0]) or ".")
                if not tainted and l0 != f["Z"]:
                    # judged above; the next step is judged from the state the implementation is really in
                    if dump_invariant(*post) is None:
                        self.ask_model("zs setspec %s %s" % (key, l0))
                        f["Z"] = l0
                    else:
                        tainted = True
                n_spec = 0 if f["Z"] == "." else f["Z"].count(",") + 1
            if record:
                rep.count("zs." + name)
                rep.nontrivial(("zs", name, f["D"], a in (".", "none", "0"), min(a.count(","), 4), min(n_spec, 5), tainted,
                                min(h, 5) if h is not None else -1))
        self.last_trace = trace
        self.last_ops = done
        return out

    def impl_dump(self, key):
        d = self.ask_impl("zs dump " + key)
        self.obs_index = {}
        if d in (None, "panic", "err", "wrongtype"):
            return None, d
        if d == "absent":
            return EMPTY_DUMP, "absent"
        ix = dict(p.split("=", 1) for p in d.split(" "))["I"]
        if ix != ".":
            self.obs_index = {m: int(b, 16) for m, b in (it.split(":") for it in ix.split(","))}
        c = canon_dump(d)
        return parse_dump(c), c

    def gen_zs(self, r, n, nan_ok):
        members = r.choice([MEMBERS[:3], MEMBERS[:5], MEMBERS])
        scores = r.choice([SCORES, SCORES[:6], [SCORES[2], SCORES[16], SCORES[17], SCORES[4]], ZEROISH, ZEROISH, EDGES])
        incs = [bits_of(x) for x in (1.0, -1.0, 0.5, 0.0, -0.0, 1e300, -1e300, 5e-324)] + [PINF, NINF]
        if scores is ZEROISH:
            members = MEMBERS[:3]
            incs = [bits_of(x) for x in (0.0, -0.0, 0.0, -0.0, 5e-324, -5e-324, 1e-320)]
        elif scores is EDGES:
            incs = [bits_of(x) for x in (0.0, -0.0, 1.7976931348623157e308, -1.7976931348623157e308, 1e292, 1.0)] + [PINF, NINF]

        def g(size, i):
            if i >= n:
                return None
            k = r.below(30)
            m = hx(r.choice(members))
            if k < 9:
                return ("zadd", m, NAN if (nan_ok and r.chance(1, 15)) else r.choice(scores))
            if k < 12:
                return ("zrem", m)
            if k < 14:
                inc = r.choice(incs)
                if not nan_ok and inc in (PINF, NINF):
                    inc = bits_of(2.0)          # inf + -inf would produce NaN: only in NaN histories
                return ("zincrby", m, inc)
            if k < 16:
                q = r.below(4)
                if q == 0:
                    return ("pop", r.choice(["min", "max"]))
                if q == 1:
                    return ("popn", r.choice(["min", "max"]), r.choice([0, 1, 1, 2, 3, size, size + 1, 100]))
                if q == 2:
                    return ("zremmany", [hx(r.choice(members)) for _ in range(r.range(1, 4))])
                return ("zaddmany", [(hx(r.choice(members)), r.choice(scores)) for _ in range(r.range(1, 5))])
            if k == 16:
                return ("zscore", m)
            if k in (17, 18):
                return ("zrank", m, r.below(2))
            if k < 24:
                return ("zrange", self.bounds(r, size), self.bounds(r, size), r.below(2))
            if k < 27:
                return ("zrbs", r.choice(scores + [NINF, PINF]), r.choice(scores + [NINF, PINF]), r.below(2))
            if k == 27:
                return ("zcount", r.choice(scores + [NINF]), r.choice(scores + [PINF]))
            if k == 28:
                return ("zcard",)
            return ("exists",)
        return g

    # ---------------- layer tcp
    def score_of_text(self, t):
        a = self.ask_impl("parse " + hx(t))
        return None if a == "bad" else int(a, 16)

    def tcp_readback(self, c, key):
        r = c.cmd("ZRANGE", key, "0", "-1", "WITHSCORES")
        if r[0] != "a":
            raise Fail("read-back ZRANGE 0 -1 WITHSCORES answered %r" % (r,))
        xs = r[1]
        items = []
        self.obs_index = {}
        for j in range(0, len(xs) - 1, 2):
            b = self.score_reply(xs[j + 1][1], "ZRANGE 0 -1 WITHSCORES", self.rb_out, ("readback",))
            items.append("%s:%s" % (hx(xs[j][1]), key_of_bits(b)))
            self.obs_index[xs[j][1]] = b
        card = c.cmd("ZCARD", key)
        ex = c.cmd("EXISTS", key)
        # the key index, member by member (ZSCORE), in key order like the model's `I=`
        idx = []
        for m in sorted(set(xs[j][1] for j in range(0, len(xs) - 1, 2))):
            z = c.cmd("ZSCORE", key, m)
            if z[0] == "b":
                idx.append("%s:%s" % (hx(m), key_of_bits(self.score_reply(z[1], "ZSCORE", self.rb_out, ("readback",)))))
        self.obs_idx_text = ",".join(idx) or "."
        return ",".join(items) or ".", card[1] if card[0] == "i" else card, ex[1] if ex[0] == "i" else ex

    def run_tcp(self, server, ops, tag, record=True):
        rep = self.rep
        out = []
        key = self.fresh_key()
        kx = hx(key)
        c = server.client()
        tainted = False
        shadow = {}
        trace = []
        self.rb_out = out

        def ents(xs, where, op):
            return ",".join("%s:%s" % (hx(xs[j][1]), key_of_bits(self.score_reply(xs[j + 1][1], where, out, op))) for j in range(0, len(xs) - 1, 2)) or "."
        try:
            for op in ops:
                op = tuple(op)
                rep.evaluations += record
                name = op[0]
                nan = False
                det_extra = {}
                if name == "ZADD":
                    pairs = [(unhx(t), unhx(m)) for t, m in op[1]]
                    args = ["ZADD", key]
                    toks = []
                    for t, m in pairs:
                        args += [t, m]
                        sc = self.score_of_text(t)
                        toks.append("%s:%s" % ("bad" if sc is None else key_of_bits(sc), hx(m)))
                        nan = nan or (sc is not None and is_nan_bits(sc))
                        if record:
                            if sc is None:
                                rep.count("class.text.refused-by-parser" + (".hex-form" if b"0x" in t.lower() else ""))
                            else:
                                self.note_classes("tcp", key_of_bits(shadow[m]) if m in shadow else None, sc)
                                if t.lower().endswith(b"e400"):
                                    rep.count("class.text.overflow-to-inf")
                    r = c.cmd(*args)
                    a = str(r[1]) if r[0] == "i" else ("err" if r[0] == "e" else repr(r))
                    b = self.ask_model("cmd zadd %s %s %s" % (kx, ",".join("0" for _ in pairs), ",".join(toks)))
                elif name == "ZINCRBY":
                    t, m = unhx(op[1]), unhx(op[2])
                    inc = self.score_of_text(t)
                    if inc is None:
                        raise InternalError("generator produced an unparsable increment")
                    zs_ = c.cmd("ZSCORE", key, m)          # the score the key index holds now (exact even after a NaN left two nodes for a member)
                    cur = self.score_reply(zs_[1], "ZSCORE", out, op) if zs_[0] == "b" else None
                    summ = bits_of(float_of(cur) + float_of(inc)) if cur is not None else inc
                    nan = is_nan_bits(summ)
                    r = c.cmd("ZINCRBY", key, t, m)
                    if record:
                        self.note_classes("tcp", key_of_bits(cur) if cur is not None else None, summ)
                    if r[0] == "b":
                        got = self.score_reply(r[1], "ZINCRBY reply", out, op)
                        a = key_of_bits(got)
                    else:
                        a = "err" if r[0] == "e" else repr(r)
                    b = self.ask_model("cmd zincrby %s 0 %s %s" % (kx, hx(m), key_of_bits(summ)))
                elif name == "ZPOP":
                    cmdname = "ZPOPMIN" if op[1] == "min" else "ZPOPMAX"
                    r = c.cmd(cmdname, key) if op[2] is None else c.cmd(cmdname, key, str(op[2]))
                    if r[0] == "na":
                        a = "null"
                    elif r[0] == "a":
                        a = ents(r[1], cmdname, op)
                    else:
                        a = repr(r)
                    b = self.ask_model("cmd zpop %s %s %d" % (kx, op[1], 1 if op[2] is None else op[2]))
                elif name == "ZRANGE":
                    opt = op[4] if len(op) > 4 else "5749544853434f524553"          # hex of the trailing argument, "" = none
                    a, oc = self.range_reply(c, ["ZREVRANGE" if op[3] else "ZRANGE", key, str(op[1]), str(op[2])], opt, out, op)
                    det_extra = {"opt": oc}
                    b = self.ask_model("cmd zrange %s %d %d %d %s" % (kx, op[1], op[2], op[3], oc))
                elif name == "ZRBS":
                    lo_t, hi_t = unhx(op[1]), unhx(op[2])
                    lo, hi = self.score_of_text(lo_t), self.score_of_text(hi_t)
                    if lo is None or hi is None:
                        raise InternalError("generator produced an unparsable score bound")
                    first, second = (hi_t, lo_t) if op[3] else (lo_t, hi_t)         # ZREVRANGEBYSCORE key max min
                    a, oc = self.range_reply(c, ["ZREVRANGEBYSCORE" if op[3] else "ZRANGEBYSCORE", key, first, second], op[4], out, op)
                    det_extra = {"opt": oc, "nan_bound": is_nan_bits(lo) or is_nan_bits(hi)}
                    b = self.ask_model("cmd zrbs %s %s %s %d %s" % (kx, key_of_bits(lo), key_of_bits(hi), op[3], oc))
                    if record:
                        rep.count("class.bounds.%s" % ("nan" if det_extra["nan_bound"] else ("reversed" if score_sort_key(key_of_bits(lo)) > score_sort_key(key_of_bits(hi)) else "ordered")))
                elif name == "ZCOUNT":
                    lo_t, hi_t = unhx(op[1]), unhx(op[2])
                    lo, hi = self.score_of_text(lo_t), self.score_of_text(hi_t)
                    if lo is None or hi is None:
                        raise InternalError("generator produced an unparsable score bound")
                    r = c.cmd("ZCOUNT", key, lo_t, hi_t)
                    a = str(r[1]) if r[0] == "i" else ("err" if r[0] == "e" else repr(r))
                    det_extra = {"nan_bound": is_nan_bits(lo) or is_nan_bits(hi)}
                    b = self.ask_model("cmd zcount %s %s %s" % (kx, key_of_bits(lo), key_of_bits(hi)))
                    if record:
                        rep.count("class.bounds.%s" % ("nan" if det_extra["nan_bound"] else "number"))
                elif name == "ZREM":
                    ms = [unhx(m) for m in op[1]]
                    r = c.cmd("ZREM", key, *ms)
                    a = str(r[1]) if r[0] == "i" else ("err" if r[0] == "e" else repr(r))
                    b = self.ask_model("cmd zrem %s %s" % (kx, "|".join(op[1])))
                else:
                    raise InternalError("unknown tcp op %r" % (op,))
                f = fields(b)
                l0, card, ex = self.tcp_readback(c, key)
                code_l0 = "." if f["K"] == "absent" else f["K"].split(" ")[0][2:].split(";")[0]
                code_n = 0 if f["K"] == "absent" else int(re.search(r" N=(\d+)", f["K"]).group(1))
                trace.append({"op": list(op), "impl": a, "code": f["C"], "spec": f["S"], "dev": f["D"],
                              "impl_set": l0, "impl_card": card, "impl_exists": ex, "code_set": code_l0, "spec_set": f["Z"]})
                if a != f["C"]:
                    out.append(("corr", "tcp-" + name, {"op": op, "impl": a, "code": f["C"]}))
                code_ix = "." if f["K"] == "absent" else re.search(r" I=(\S+)", f["K"]).group(1)
                if (l0, card, ex, self.obs_idx_text) != (code_l0, code_n, int(f["K"] != "absent"), code_ix):
                    out.append(("corr", "tcp-state-" + name, {"op": op, "impl": [l0, card, ex, self.obs_idx_text], "code": [code_l0, code_n, int(f["K"] != "absent"), code_ix]}))
                if not tainted:
                    spec_n = 0 if f["Z"] == "." else f["Z"].count(",") + 1
                    if name == "ZADD" and (a != f["S"] or l0 != f["Z"]):
                        kind = "nan-stored" if (nan and f["S"] == "err" and a != "err") else ("zadd-partial" if f["S"] == "err" else "reply")
                        out.append(("oracle", kind, {"op": op, "impl_reply": a, "spec_reply": f["S"], "impl_set": l0, "spec_set": f["Z"], "nan": nan and "nan" in l0,
                                                     "layer": "tcp", "why": "ZADD must be refused as a whole (nothing added) when a score is unusable or NaN"
                                                     if f["S"] == "err" else "ZADD reply/stored set differs from the prescribed one"}))
                        tainted = tainted or "nan" in l0
                    elif name == "ZINCRBY" and (a != f["S"] or l0 != f["Z"]):
                        out.append(("oracle", "zincrby-nan" if nan else "reply", {"op": op, "impl_reply": a, "spec_reply": f["S"], "impl_set": l0, "spec_set": f["Z"],
                                                                                  "nan": nan and "nan" in l0, "layer": "tcp", "why": "an increment producing NaN must be refused" if nan else "ZINCRBY differs"}))
                        tainted = tainted or "nan" in l0
                    elif name in ("ZPOP", "ZRANGE", "ZRBS", "ZCOUNT", "ZREM") and a != f["S"]:
                        kind = f["D"] if f["D"] != "-" else "reply"
                        why = "%s reply differs from the prescribed one" % name
                        if f["S"] == "err" and det_extra.get("nan_bound"):
                            kind, why = "nan-score-bound", "a NaN score bound must be refused (min or max is not a float)"
                        elif f["S"] == "err" and det_extra.get("opt") == "other":
                            kind, why = "range-unknown-option", "an unknown trailing argument must be a syntax error, not ignored"
                        elif name == "ZPOP" and a == "null":
                            kind, why = "zpop-null-array", "a pop that pops nothing answers the empty array (the null array is a BZPOP timeout)"
                        d_ = {"op": op, "impl": a, "spec": f["S"], "dev": f["D"], "layer": "tcp", "why": why}
                        d_.update(det_extra)
                        out.append(("oracle", kind, d_))
                    elif l0 != f["Z"] or card != spec_n or ex != int(spec_n > 0):
                        out.append(("oracle", "state", {"op": op, "impl": [l0, card, ex], "spec": [f["Z"], spec_n, int(spec_n > 0)], "layer": "tcp",
                                                        "why": "stored set / ZCARD / key existence differ from the prescribed ones"}))
                    if not tainted and l0 == f["Z"]:
                        want_ix = ",".join(sorted(f["Z"].split(","), key=lambda e: unhx(e.split(":")[0]))) if f["Z"] != "." else "."
                        if self.obs_idx_text != want_ix:
                            out.append(("oracle", "zscore", {"op": op, "impl": self.obs_idx_text, "spec": want_ix, "layer": "tcp",
                                                             "why": "ZSCORE (key index) disagrees with the scores the set holds"}))
                shadow = dict(self.obs_index)
                if not tainted and l0 != f["Z"]:
                    members = [e.split(":")[0] for e in l0.split(",")] if l0 != "." else []
                    if "nan" in l0 or len(set(members)) != len(members):
                        tainted = True
                    else:
                        self.ask_model("zs setspec %s %s" % (kx, l0))
                if record:
                    rep.count("tcp." + name)
                    rep.nontrivial(("tcp", name, a == "err", f["S"] == "err", min(a.count(","), 4), f["D"], tainted, ex))
        except (srvmod.Closed, TimeoutError, srvmod.ProtocolError) as e:
            out.append(("oracle", "crash", {"op": list(op), "why": "connection lost / no reply (%s); server alive=%s" % (type(e).__name__, server.alive()),
                                            "log": server.log_tail(300), "layer": "tcp"}))
        except Fail as e:
            out.append(("oracle", "crash", {"op": list(op), "why": str(e), "layer": "tcp"}))
        finally:
            c.close()
        self.last_trace = trace
        return out

    def gen_tcp(self, r, n, nan_ok):
        good = [b"1", b"2", b"-1", b"0", b"-0", b"1.5", b"inf", b"-inf", b"+inf", b"Infinity", b"1e300", b"3", b"2.0000000000000004", b"1e400", b".5",
                b"+0", b"0.0", b"-0.0", b"1e-320", b"5e-324", b"-5e-324", b"1.7976931348623157e308", b"-1e400"]
        bad = [b"nope", b"", b"1x", b"0x10", b" 1", b"1 ", b"--1", b"1,5", b"0x0", b"-0x0", b"0x1p3", b"0b1", b"1_0"]
        nans = [b"nan", b"NaN", b"-nan", b"+NAN"]
        members = r.choice([MEMBERS[:3], MEMBERS[:5], MEMBERS])
        mode = r.below(4)
        if mode == 0:        # values that compare equal or are adjacent around zero, re-scored over few members
            good = [b"0", b"-0", b"+0", b"0.0", b"-0.0", b"-0e5", b"5e-324", b"-5e-324", b"1e-320", b"0", b"-0"]
            members = MEMBERS[:3]
        elif mode == 1:      # top of the range
            good = [b"1.7976931348623157e308", b"1.7976931348623155e308", b"inf", b"1e400", b"-1.7976931348623157e308", b"-inf", b"-1e400", b"0", b"-0"]
        ops = []
        size = 0
        for _ in range(n):
            k = r.below(20)
            if k < 9:
                np_ = r.choice([1, 1, 2, 3, 4])
                pairs = []
                for j in range(np_):
                    q = r.below(12)
                    t = r.choice(bad) if q == 0 else (r.choice(nans) if (q == 1 and nan_ok) else r.choice(good))
                    pairs.append((hx(t), hx(r.choice(members))))
                ops.append(("ZADD", pairs))
                size += np_
            elif k < 12:
                t = r.choice(good if nan_ok else ([g for g in good if b"inf" not in g.lower() and b"e400" not in g] or [b"0"]))
                ops.append(("ZINCRBY", hx(t), hx(r.choice(members))))
            elif k < 16:
                ops.append(("ZPOP", r.choice(["min", "max"]), r.choice([None, None, 0, 1, 2, 3, 100])))
            elif k < 17:
                q = r.below(3)
                bt = [b"1", b"2", b"3", b"0", b"-0", b"-inf", b"inf", b"+inf", b"1.5", b"-1", b"5e-324", b"1e400"]
                if q == 0:
                    ops.append(("ZREM", [hx(r.choice(members)) for _ in range(r.range(1, 4))]))
                else:
                    lo, hi = r.choice(bt), r.choice(bt)
                    if r.chance(1, 5):
                        lo = r.choice(nans)
                    if r.chance(1, 6):
                        hi = r.choice(nans)
                    if q == 1:
                        ops.append(("ZCOUNT", hx(lo), hx(hi)))
                    else:
                        ops.append(("ZRBS", hx(lo), hx(hi), r.below(2), self.gen_opt(r)))
            else:
                ops.append(("ZRANGE", self.bounds(r, min(size, 5)), self.bounds(r, min(size, 5)), r.below(2), self.gen_opt(r)))
        return ops

    OPTS = [b"REV", b"BYSCORE", b"BYLEX", b"WITHSCORE", b"LIMIT", b"junk", b"", b"withscores ", b"WITHSCORES\x00", b"--"]

    def gen_opt(self, r):
        """trailing argument of a range command as hex ("" = absent, "-" = the empty string)"""
        k = r.below(6)
        if k < 2:
            return ""
        if k < 4:
            return hx(r.choice([b"WITHSCORES", b"withscores", b"WithScores"]))
        return hx(r.choice(self.OPTS))

    # ---------------- bookkeeping
    def absorb(self, layer, ops, res, tag):
        for cls, kind, det in res:
            det = dict(det)
            det.update({"layer": layer, "tag": tag})
            if cls == "oracle":
                self.oracle_failures.append((kind, det, layer, list(ops)))
            else:
                self.disagreements.append({"layer": layer, "kind": kind, "detail": det, "ops": [list(o) for o in ops][:60]})


# witnesses of the known findings / the Lean witness lemmas (replayed first, on the real code)
def hexm(s):
    return hx(s.encode())


ONE, TWO, THREE = bits_of(1.0), bits_of(2.0), bits_of(3.0)
CORPUS = {
    "zs": [
        ("zrange-clamp", [("zadd", hexm("a"), ONE), ("zadd", hexm("b"), TWO), ("zadd", hexm("c"), THREE), ("zrange", 0, -100, 0)]),
        ("zrevrange-clamp", [("zadd", hexm("a"), ONE), ("zadd", hexm("b"), TWO), ("zadd", hexm("c"), THREE), ("zrange", 5, 10, 1)]),
        ("zrevrange-clamp", [("zadd", hexm("a"), ONE), ("zadd", hexm("b"), TWO), ("zadd", hexm("c"), THREE), ("zrange", 0, -100, 1)]),
        (None, [("zadd", hexm("a"), ONE), ("zadd", hexm("b"), ONE), ("zadd", hexm("a"), THREE), ("zrank", hexm("a"), 0), ("zrank", hexm("a"), 1),
                ("zrange", 0, -1, 0), ("zrange", 0, -1, 1), ("zrange", -2**63, 2**63 - 1, 0), ("zrange", -2**63, 2**63 - 1, 1),
                ("zrbs", NINF, PINF, 0), ("zrbs", PINF, NINF, 0), ("zcount", ONE, ONE), ("pop", "max"), ("pop", "min"), ("exists",), ("zcard",), ("pop", "min")]),
        (None, [("zaddmany", [(hexm("a"), ONE), (hexm("b"), TWO), (hexm("a"), THREE), (hexm("c"), bits_of(-0.0))]), ("popn", "max", 2), ("popn", "min", 0), ("zaddmany", [(hexm("c"), bits_of(0.0))]),
                ("zremmany", [hexm("x"), hexm("b"), hexm("b"), hexm("c")]), ("exists",), ("popn", "min", 3), ("zremmany", [hexm("a")])]),
        (None, [("zadd", hexm("n"), bits_of(-0.0)), ("zadd", hexm("m"), bits_of(0.0)), ("zincrby", hexm("n"), bits_of(0.0)), ("zrbs", bits_of(0.0), bits_of(-0.0), 0),
                ("zadd", hexm("p"), 0x3FF0000000000001), ("zadd", hexm("q"), ONE), ("zadd", hexm("o"), 0x3FEFFFFFFFFFFFFF), ("zrange", 0, -1, 0)]),
        # NaN handed to the storage functions directly: correspondence only (the refusal is the handlers' duty)
        (None, [("zadd", hexm("n"), NAN), ("zadd", hexm("n"), ONE), ("zrem", hexm("n")), ("exists",), ("zcard",), ("zrange", 0, -1, 0), ("zrem", hexm("n"))]),
        (None, [("zincrby", hexm("n"), PINF), ("zincrby", hexm("n"), NINF), ("zrem", hexm("n")), ("exists",), ("pop", "min"), ("pop", "min")]),
    ],
    "sl": [
        (None, [("ins", hexm("n"), NAN), ("ins", hexm("n"), ONE), ("rem", hexm("n")), ("ins", hexm("n"), NAN), ("ins", hexm("b"), TWO),
                        ("ins", hexm("c"), NAN), ("rank", hexm("n")), ("rank", hexm("b")), ("byscore", NINF, PINF), ("byrank", 0, 10), ("rem", hexm("c")), ("len",)]),
    ],
    "tcp": [
        ("nan-stored", [("ZADD", [(hexm("nan"), hexm("n"))])]),
        ("nan-stored", [("ZADD", [(hexm("nan"), hexm("n"))]), ("ZADD", [(hexm("1"), hexm("n"))]), ("ZPOP", "min", 3), ("ZPOP", "max", 2), ("ZPOP", "min", None)]),
        ("zadd-partial", [("ZADD", [(hexm("1"), hexm("a")), (hexm("nope"), hexm("b"))])]),
        ("zincrby-nan", [("ZINCRBY", hexm("inf"), hexm("n")), ("ZINCRBY", hexm("-inf"), hexm("n"))]),
        ("zrange-clamp", [("ZADD", [(hexm("1"), hexm("a")), (hexm("2"), hexm("b")), (hexm("3"), hexm("c"))]), ("ZRANGE", 0, -100, 0)]),
        ("zrevrange-clamp", [("ZADD", [(hexm("1"), hexm("a")), (hexm("2"), hexm("b")), (hexm("3"), hexm("c"))]), ("ZRANGE", 5, 10, 1)]),
        (None, [("ZADD", [(hexm("1"), hexm("a")), (hexm("1"), hexm("b")), (hexm("2"), hexm("a")), (hexm("-inf"), hexm("c"))]), ("ZPOP", "max", 2), ("ZPOP", "min", None), ("ZPOP", "min", 5), ("ZPOP", "max", None)]),
        # hunt d3: unknown trailing argument of the range commands, NaN score bounds; d4: a pop that pops nothing
        ("range-unknown-option", [("ZADD", [(hexm("1"), hexm("a")), (hexm("2"), hexm("b")), (hexm("3"), hexm("c"))]), ("ZRANGE", 0, -1, 0, hexm("REV")),
                                  ("ZRANGE", 0, -1, 0, hexm("BYSCORE")), ("ZRANGE", 0, -1, 0, hexm("WITHSCORE")), ("ZRANGE", 0, -1, 1, hexm("junk")),
                                  ("ZRBS", hexm("1"), hexm("3"), 0, hexm("LIMIT")), ("ZRBS", hexm("1"), hexm("3"), 1, hexm("LIMIT")),
                                  ("ZRANGE", 0, -1, 0, hexm("withscores")), ("ZRANGE", 0, -1, 0, "")]),
        ("nan-score-bound", [("ZADD", [(hexm("1"), hexm("a")), (hexm("2"), hexm("b")), (hexm("3"), hexm("c"))]), ("ZCOUNT", hexm("nan"), hexm("2")),
                             ("ZCOUNT", hexm("1"), hexm("nan")), ("ZRBS", hexm("nan"), hexm("nan"), 0, ""), ("ZRBS", hexm("NaN"), hexm("3"), 1, hexm("WITHSCORES")),
                             ("ZCOUNT", hexm("-inf"), hexm("inf")), ("ZRBS", hexm("3"), hexm("1"), 0, "")]),
        ("zpop-null-array", [("ZPOP", "min", None), ("ZPOP", "max", None), ("ZPOP", "min", 5), ("ZADD", [(hexm("1"), hexm("a"))]), ("ZPOP", "min", 0), ("ZPOP", "max", 0),
                             ("ZPOP", "max", 2), ("ZPOP", "max", None)]),
        (None, [("ZADD", [(hexm("1"), hexm("a")), (hexm("2"), hexm("b")), (hexm("3"), hexm("c"))]), ("ZREM", [hexm("a"), hexm("x"), hexm("a"), hexm("c")]), ("ZREM", [hexm("b"), hexm("b")]), ("ZREM", [hexm("b")])]),
    ],
}


def run_layer(c, server, layer, ops, tag, record=True):
    if layer == "tcp-probe":
        n0 = len(c.oracle_failures)
        one_step_probe(c, server, "thorough")
        return [("oracle", k, d) for k, d, _, _ in c.oracle_failures[n0:]]
    if layer == "sl":
        return c.run_sl(ops, tag, record)
    if layer == "zs":
        return c.run_zs(ops, tag, record)
    return c.run_tcp(server, ops, tag, record)


def explore(c, server, seed, tier):
    rep = c.rep
    r = Rng(seed)
    scale = 30 if tier == "thorough" else 1
    # 1. corpus: witnesses of the findings and of the Lean witness lemmas
    for layer in ("sl", "zs", "tcp"):
        for want, ops in CORPUS[layer]:
            res = run_layer(c, server, layer, ops, "corpus")
            c.absorb(layer, ops, res, "corpus")
            if len(rep.samples) < 4:
                rep.sample({"layer": layer, "ops": [list(o) for o in ops][:6], "trace_tail": c.last_trace[-1:]})
    # 2. skip list: op sequences with colliding members/scores, every level compared after every op
    rs = r.fork("sl")
    for i in range(220 * scale):
        ops = c.gen_sl(rs, rs.range(10, 60), nan_ok=(i % 7 == 0))
        c.absorb("sl", ops, c.run_sl(ops, "gen"), "gen")
        rep.traces_validated += 1
    # 3. engine functions
    rz = r.fork("zs")
    for i in range(220 * scale):
        g = c.gen_zs(rz, rz.range(10, 60), nan_ok=(i % 8 == 0))
        res = c.run_zs(None, "gen", gen=g)
        c.absorb("zs", c.last_ops, res, "gen")
        rep.traces_validated += 1
    # 4. exhaustive small scope of the rank-range arithmetic on the real engine (model validation)
    n_ex = 0
    for ln in range(1, 5 if tier == "quick" else 7):
        adds = [("zadd", hx(bytes([97 + j])), bits_of(float(j))) for j in range(ln)]
        rng = range(-ln - 2, ln + 3)
        ops = adds + [("zrange", a, b, rv) for a in rng for b in rng for rv in (0, 1)]
        c.absorb("zs", ops, c.run_zs(ops, "exh-range"), "exh-range")
        n_ex += len(ops) - ln
    rep.extra["exhaustive_small_scope"] = "all (start, stop, direction) with |index| <= len+2 for len 1..%d on the real engine: %d ranges" % (4 if tier == "quick" else 6, n_ex)
    # 5. command level over TCP
    rt = r.fork("tcp")
    for i in range(120 * scale):
        ops = c.gen_tcp(rt, rt.range(5, 25), nan_ok=(i % 6 == 0))
        c.absorb("tcp", ops, c.run_tcp(server, ops, "gen"), "gen")
        rep.traces_validated += 1
        if not server.alive():
            raise InternalError("server died during the TCP layer: " + server.log_tail())
    one_step_probe(c, server, tier)


def one_step_probe(c, server, tier):
    """An accepted multi-member ZADD against the key's deadline (hunt d1): whatever the timing, afterwards the key holds
    ALL members of the command (it was dead when the command started: fresh key, no TTL) or NONE (they joined the live key,
    which expired as a whole).  Both outcomes are accepted, so the verdict does not depend on the clock; only the chance of
    hitting the window does.  MULTI/EXEC just puts PEXPIRE and ZADD into one write."""
    rep = c.rep
    n = 6000
    args = []
    for i in range(n):
        args += [str(i), "m%06d" % i]
    for ms in ([3, 12, 40] if tier == "quick" else [1, 2, 3, 5, 8, 12, 20, 30, 40, 60, 90]):
        cl = server.client(timeout=30)
        try:
            key = c.fresh_key()
            cl.cmd("ZADD", key, "-1", "seed")
            cl.send("MULTI"); cl.send("PEXPIRE", key, str(ms)); cl.send("ZADD", key, *args); cl.send("EXEC")
            rs = [cl.read_reply() for _ in range(4)]
            time.sleep(ms / 1000.0 + 0.15)
            card, pttl = cl.cmd("ZCARD", key), cl.cmd("PTTL", key)
            rep.evaluations += 1
            ok = (card == ("i", 0)) or (card == ("i", n) and pttl == ("i", -1))
            rep.count("tcp.one-step-probe." + ("all" if card == ("i", n) else "none" if card == ("i", 0) else "partial"))
            rep.nontrivial(("tcp", "one-step-probe", card[1] if card[0] == "i" and card[1] in (0, n) else "partial"))
            if rs[3][0] != "a" or not ok:
                c.oracle_failures.append(("zadd-not-one-step", {"layer": "tcp", "why": "an accepted multi-member ZADD was applied partly to the expiring key and partly to a new one",
                                                               "script": ["ZADD k -1 seed", "MULTI", "PEXPIRE k %d" % ms, "ZADD k <%d pairs i m%%06d>" % n, "EXEC", "(wait)", "ZCARD k", "PTTL k"],
                                                               "exec_reply": repr(rs[3])[:200], "zcard": card, "pttl": pttl}, "tcp-probe", [("probe", ms, n)]))
        finally:
            cl.close()


def minimise(c, server, layer, ops, kind):
    def fails(cand):
        res = run_layer(c, server, layer, cand, "shrink", record=False)
        return any(cls == "oracle" and k == kind for cls, k, _ in res)
    try:
        if len(ops) <= 1 or not fails(list(ops)):
            return list(ops)
        return shrink_list(list(ops), fails, max_steps=120)
    except InternalError:
        return list(ops)


def main(tier, seed):
    rep = Report("C04", tier, seed)
    rep.rule = ("three layers from one PRNG: (sl) real SkipList<Vec<u8>,f64>, insert/remove/rank/range over colliding members and scores "
                "(+0/-0 as distinct values, denormals, max finite, +-inf, adjacent floats, re-scoring to equal-comparing/adjacent/identical values, NaN in every 7th history), level dump compared with the model after "
                "every operation, tower height inferred from the dump; (zs) real StorageEngine z-functions incl. all rank bounds in "
                "{0,+-1,+-len,+-(len+-1),+-2,+-100,i64 min/max-ish}, reversed score bounds, pops, key removal; (tcp) real server: multi-pair ZADD "
                "with unusable/NaN/hex-form/overflowing score texts, ZINCRBY, ZPOPMIN/MAX with counts, ZRANGE/ZREVRANGE, read back by ZRANGE 0 -1 WITHSCORES/ZSCORE per member/ZCARD/EXISTS "
                "(exact score texts); histogram keys class.score.* / class.rescore.* / class.text.* give the input-class distribution. "
                "distinct = (layer, operation, deviation tag, reply class, size bucket, height bucket, tainted-by-NaN) tuples reached")
    rep.assumptions = [
        "scores are compared as exact values: the token of their IEEE bits is injective on non-NaN values (-0.0 is `nz`, +0.0 is `0`; they compare equal and "
        "are ordered by member, theorem zeros_compare_equal); score texts must be the exact Display rendering of the value; NaN payloads are not distinguished",
        "IEEE addition for ZINCRBY and Rust's f64 FromStr/Display are parameters: the harness computes the sum and classifies score texts with the real parser",
        "tower heights are random in the code: inferred from the level dump (sl, zs) and proved unobservable (height_irrelevant) where no dump exists (tcp)",
        "memory safety of the raw-pointer code and the never-freeing Drop are outside this technique (DESIGN C04 N)",
        "NaN passed directly to SkipList::insert / StorageEngine::zadd is compared with the model only; refusal is judged at the command level (tcp)",
    ]
    sw = source_switches()
    rep.extra["model_switches"] = {k: v for k, v in sw.items()}
    rep.extra["level_note"] = ("A multi-member ZADD / ZREM / ZPOPMIN / ZPOPMAX is ONE step of the sorted-set machine (theorems zadd_is_one_step, zrem_zpop_one_step): "
                               "this rests on the lock scope read from the source, not on a proof about the Rust locks - Gen.zsetOneCall (translator/expiry_tables.py: "
                               "each handler and the script executor make exactly one storage call) and lib/c04.py source_switches oneCallOneLock (zadd_many / zrem_many / "
                               "zpop reach the shard once and take its write lock once, before their loop). Under that reading no deadline test and no other reader "
                               "(BGSAVE copy, another connection) falls between two members of one command; the TCP probe (MULTI; PEXPIRE; ZADD <6000 pairs>; EXEC) only samples it.")
    rep.assumptions.append("one storage call = one lock scope = one deadline test is READ from the source (Gen.zsetOneCall, source_switches.oneCallOneLock), see level_note")
    ok, log, errs = proof_phase(rep, families=[FAM])
    rep.trusted_base.append("lib/c04.py source_switches(): three anchored patterns over StorageEngine::zrange, handle_zadd and handle_zincrby select the "
                            "model variant (fixedRange/fixedZadd/fixedZincr); a wrong selection shows up as a correspondence break")
    build_harness(FAM)
    build_server()
    c = C04(rep, sw)
    server = srvmod.Server("c04")
    try:
        explore(c, server, seed, tier)
        # ---- verdict (DESIGN 2.5)
        new_fail, seen_known = [], {}
        for kind, det, layer, ops in c.oracle_failures:
            f = classify(kind, det, c.findings)
            if f:
                if f["id"] not in seen_known or len(ops) < len(seen_known[f["id"]][3]):
                    seen_known[f["id"]] = (f, kind, det, ops, layer)
            else:
                new_fail.append((kind, det, layer, ops))
        for fid, (f, kind, det, ops, layer) in sorted(seen_known.items()):
            rep.known(fid, f["what"])
        for f in c.findings:
            if f["id"] not in seen_known:
                rep.violation("known finding %s no longer reproduces: model/known-findings file is stale" % f["id"],
                              {"finding": f, "obligation": f.get("lean_witness"), "model_switches": sw}, no_input=True)
        if new_fail:
            new_fail.sort(key=lambda t: (len(t[3]), len(json.dumps(t[1], default=str))))
            kind, det, layer, ops = new_fail[0]
            ops = minimise(c, server, layer, ops, kind)
            res = run_layer(c, server, layer, ops, "replay", record=False)
            rep.violation("C04 %s oracle fails on the implementation (layer %s): %s" % (kind, layer, det.get("why", "")),
                          {"replay": {"layer": layer, "ops": [list(o) for o in ops], "kind": kind}, "family": FAM, "detail": det,
                           "trace": c.last_trace[-12:], "others": [{"kind": k, "layer": l, "detail": d} for k, d, l, _ in new_fail[1:6]],
                           "lean_errors": errs[:5], "model_switches": sw})
        elif not ok:
            rep.violation("proof obligations of C04 no longer check against the model",
                          {"theorem_errors": errs[:10], "log_tail": log[-3000:]}, no_input=True)
        elif c.disagreements:
            rep.violation("correspondence Code.ZSet vs implementation broke (%d disagreements) but the property oracles hold on everything explored" % len(c.disagreements),
                          {"correspondence": "Ferrous.ZSet.Code.{insert,remove,getRank,rangeByRank,rangeByScore,zadd,zrem,zrange,zrangebyscore,zincrby,zpop,zaddCmd} vs "
                                             "SkipList / StorageEngine / handlers", "model_switches": sw, "disagreements": c.disagreements[:10]}, no_input=True)
        elif sw["extraction_failed"]:
            rep.violation("source patterns for the model switches no longer match", {"extraction_failed": sw["extraction_failed"]}, no_input=True)
    finally:
        c.close()
        server.stop()
    rep.extra["model_disagreements"] = len(c.disagreements)
    rep.extra["oracle_failures"] = len(c.oracle_failures)
    return rep.finish()


def replay(path):
    obj = json.load(open(path))
    rp = obj.get("replay")
    if not rp:
        print("replay file carries no failing input (%s)" % obj.get("what"))
        return 1 if obj.get("no_failing_input_found") else 2
    rep = Report("C04", obj.get("tier", "quick"), obj.get("seed", 1))
    sw = source_switches()
    for fam in (FAM,):
        build_driver(fam)
    build_harness(FAM)
    c = C04(rep, sw)
    server = None
    try:
        if rp["layer"] == "tcp":
            build_server()
            server = srvmod.Server("c04r")
        res = run_layer(c, server, rp["layer"], [tuple(o) if not isinstance(o, tuple) else o for o in rp["ops"]], "replay", record=False)
        for t in c.last_trace:
            print("  ", json.dumps(t, default=str))
        bad = [(k, d) for cls, k, d in res if cls == "oracle"]
        for k, d in bad:
            print("ORACLE-FAILURE kind=%s %s" % (k, json.dumps(d, default=str)))
        for cls, k, d in res:
            if cls == "corr":
                print("MODEL-DISAGREEMENT kind=%s %s" % (k, json.dumps(d, default=str)))
        if bad:
            print("VIOLATION property=C04 replay=%s" % path)
            return 1
        print("OK property=C04 replay holds on the current tree")
        return 0
    finally:
        c.close()
        if server:
            server.stop()
