"""C01 — string and key-space commands follow the Redis reference semantics.

Deciding artefact: lean/FerrousSpec/Props/C01.lean (failure atomicity, typing/uniqueness
invariant, laws pinning the reference semantics down, refinement of the code variant).
This module ties `KS.step` to the real server over TCP: histories of string/generic commands
over a small colliding universe, every (command, existing type) pair, replies compared after
each command and full dumps after each history and after refused commands.
"""
from common import *
from ks import KsSession, ServerDied
import ksgen

PID = "C01"


def classify(det, findings):
    for f in findings:
        m = f.get("match")
        name = det["cmd"][0].upper()
        if m == "empty-key-refused" and name in ("SET", "GET", "INCR", "INCRBY") and len(det["cmd"]) > 1 and det["cmd"][1] == "-":
            return f
        if m and m.startswith("cmd:") and name in m[4:].split(","):
            return f
    return None


class _Fixed:
    """a fixed history presented through the generator interface"""
    def __init__(self, cmds, shape):
        self.cmds, self.i, self.last_shape = cmds, 0, shape

    def setup(self):
        return []

    def command(self):
        c = self.cmds[self.i]
        self.i += 1
        return c


def run_histories(rep, sess, r, vocab, n_hist, findings, tag, corpus=()):
    oracle_fail, disagree = [], []
    plan = [(_Fixed(c, "corpus:" + shape), len(c)) for shape, c in corpus]
    rep.extra["corpus_histories"] = len(plan)
    for h in range(n_hist):
        plan.append((None, None))
    for h, (g, n) in enumerate(plan):
        sess.fresh()
        if g is None:
            h -= len(corpus)
            g = ksgen.Gen(r.fork("%s%d" % (tag, h)), vocab)
            n = r.range(20, 60)
        for a in g.setup():
            sess.do(a)
        for i in range(n):
            args = g.command()
            impl, code = sess.do(args)
            rep.evaluations += 1
            name = args[0].decode("latin-1").upper()
            kind = "err" if impl == "( e )" else ("closed" if impl.startswith(("closed", "server")) else "ok")
            rep.count("%s.%s" % (name, kind))
            rep.nontrivial((name, kind, g.last_shape))
            det = {"cmd": [hx(a) for a in args], "cmd_text": [a.decode("latin-1") for a in args], "impl": impl, "code": code,
                   "spec": sess.last_spec, "history": [[hx(x) for x in hh[0]] for hh in sess.history]}
            if "reject" in sess.last_spec or impl != sess.last_spec or (impl == code and not sess.last_same):
                # the reference semantics disagree with the implementation (reply, or dataset afterwards)
                oracle_fail.append(det)
            if impl != code:
                disagree.append(det)
            if impl != code or impl.startswith(("closed", "server")):
                break       # states may have diverged: start a new history
            if kind == "err" and (r.chance(1, 3) or isinstance(g, _Fixed)):
                # failure atomicity observed directly: a refused command leaves the dataset as the model has it
                di, dm = sess.dump_impl(), sess.dump_model()
                rep.evaluations += 1
                if di != dm:
                    d2 = dict(det)
                    d2.update({"impl_dump": di, "code_dump": dm, "why": "dataset changed by a refused command / differs from model"})
                    oracle_fail.append(d2)
                    disagree.append(d2)
                    break
        else:
            di, dm = sess.dump_impl(), sess.dump_model()
            rep.evaluations += 1
            rep.traces_validated += 1
            if di != dm:
                det = {"cmd": ["dump"], "cmd_text": ["<dump after history>"], "impl": di, "code": dm, "spec": dm,
                       "history": [[hx(x) for x in hh[0]] for hh in sess.history]}
                oracle_fail.append(det)
                disagree.append(det)
        if 0 <= h < 2 and not isinstance(g, _Fixed):
            rep.sample({"history": [" ".join(repr(a.decode("latin-1")) for a in hh[0]) + " -> " + hh[1] for hh in sess.history[:25]]})
    return oracle_fail, disagree


def shrink_failure(rep, sess, det):
    """delta-debug the history prefix that leads to the failing command"""
    hist = [[unhx(x) for x in c] for c in det["history"]]
    if len(hist) < 2 or det["cmd"] == ["dump"]:
        return det
    last = hist[-1]

    def fails(prefix):
        sess.fresh()
        for c in prefix:
            i, m = sess.do(c)
            if i != m or i.startswith(("closed", "server")):
                return False
        i, m = sess.do(last)
        return (i != sess.last_spec) == (det["impl"] != det["spec"]) and (i != m) == (det["impl"] != det["code"]) and (i != sess.last_spec or i != m)
    try:
        small = shrink_list(hist[:-1], fails, max_steps=60) if fails(hist[:-1]) else hist[:-1]
    except (ServerDied, InternalError):
        return det
    d = dict(det)
    d["history"] = [[hx(x) for x in c] for c in small + [last]]
    d["history_text"] = [[x.decode("latin-1") for x in c] for c in small + [last]]
    return d


def verdict(rep, ok, log, errs, oracle_fail, disagree, findings, sess, what):
    new_fail, seen_known = [], {}
    for det in oracle_fail:
        f = classify(det, findings)
        if f:
            seen_known.setdefault(f["id"], f)
        else:
            new_fail.append(det)
    for fid, f in seen_known.items():
        rep.known(fid, f["what"])
    if new_fail:
        new_fail.sort(key=lambda d: len(d["history"]))
        det = shrink_failure(rep, sess, new_fail[0]) if sess else new_fail[0]
        rep.violation("%s: implementation deviates from the reference semantics on %s" % (what, " ".join(det["cmd_text"])[:120]),
                      {"replay": det, "family": "ks", "more": [{"cmd_text": d["cmd_text"], "impl": d["impl"], "spec": d["spec"]} for d in new_fail[1:8]],
                       "lean_errors": errs[:5]})
    elif not ok:
        rep.violation("proof obligations of %s no longer check against the regenerated model" % rep.prop_id,
                      {"theorem_errors": errs[:10], "log_tail": log[-3000:]}, no_input=True)
    else:
        real = [d for d in disagree if classify(d, findings) is None]
        if real:
            rep.violation("correspondence KS.step (code variant) vs server broke (%d disagreements) although the reference oracle holds" % len(real),
                          {"correspondence": "Ferrous.KS.step vs ferrous over TCP", "disagreements": real[:8]}, no_input=True)
    rep.extra["model_disagreements"] = len(disagree)
    rep.extra["oracle_failures"] = len(oracle_fail)


def main(tier, seed):
    rep = Report(PID, tier, seed)
    rep.rule = ("histories of 20-60 string/generic-key commands over 5 colliding keys x 6 existing types, values from {empty, 1 byte, binary with CR LF NUL 0xff, "
                "decimal integers at the i64 edges, 70 bytes}, indices/offsets from {0, +-1, +-len, +-(len+-1), i64 edges}; every reply compared with the Lean "
                "model (code variant and reference variant from the same pre-state); full dataset dump after each history and after a third of the refused commands. "
                "distinct = (command, outcome class, argument-shape tag) triples reached")
    rep.assumptions = [
        "numeric argument syntax is Rust's str::parse (accepts +5 and 007); Redis's stricter string2ll is not modelled",
        "error replies are compared as 'an error' only (wording and class prefix ignored)",
        "TTLs used here are >= 100 s so that no key expires during a history (expiry timing is C02)",
        "sorted sets and streams are opaque values created by one fixed set-up command each",
    ]
    ok, log, errs = proof_phase(rep, families=["ks"])
    build_server()
    findings = [f for f in load_known_findings()["open"] if f["property"] == PID]
    quirks = ksgen.code_quirks()
    sess = KsSession(rep, "c01", quirks)
    r = Rng(seed)
    try:
        n = 300 if tier == "quick" else 6000
        of, dis = run_histories(rep, sess, r, ksgen.STRING_VOCAB, n, findings, "c01", corpus=ksgen.string_corpus())
        verdict(rep, ok, log, errs, of, dis, findings, sess, "C01")
    finally:
        sess.close()
    return rep.finish()
