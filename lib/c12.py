"""C12 — scripts are atomic; redis.call / redis.pcall of a command == the direct command
(after the standard RESP <-> Lua conversion); KEYS/ARGV byte-for-byte; call aborts / pcall continues /
effects persist; EVALSHA == EVAL; no blocking / connection / transaction / scripting commands, no file
system, no process.

Deciding artefact: lean/FerrousSpec/Props/C12.lean (conversion laws of the standard table, the fragment
on which the code agrees with it + one witness per deviation, call == direct, abort/continue/persist by
induction over programs, one-step theorem over all schedules, EVALSHA == EVAL, refusal and sandbox tables).

This module ties the model to the real server over TCP:

  twin      TWO servers fed the same set-up: command c sent directly to A; on B
            EVAL "return <variant>(redis.[p]call(unpack(ARGV)))" 0 c...; B's reply must be what `Code`
            (drv_lua `conv`) predicts from A's reply, `Spec` (the standard table) judges; the datasets of A
            and B must stay equal (full dumps through point reads).  What this layer measures is the
            parity of the two command implementations (handlers vs commands/executor.rs).
  program   ONE server next to the model store: multi-step call programs (call / pcall, literal / KEYS /
            ARGV arguments, every return expression of Model/Lua.lean) rendered to Lua source AND to the
            driver's program syntax from one description; replies and dumps compared with `eval` of the model.
  values    `return <value>` for every return-value shape; KEYS / ARGV contents incl. invalid UTF-8.
  evalsha   SCRIPT LOAD + EVALSHA vs EVAL of the same source on several selected databases.
  script-cache  the handle of a script is SHA1(source) computed HERE (hashlib): SCRIPT LOAD must answer it, SCRIPT EXISTS know it,
            EVALSHA of it (lower / upper case hex, loaded twice) equal EVAL of the source in reply and dataset — for every shape of
            source text (leading / trailing blanks, tabs, newlines, CRLF, comments, NUL / non-UTF-8 bytes, empty, very long);
            a hash never loaded, or flushed, is NOSCRIPT without effect.
  third-party  what OTHER connections observe - a client blocked in BLPOP / BRPOP on a key the script pushes to (one / two keys, two
            waiters, push-then-pop, list renamed onto the key, aborting script), subscribers, a WATCHing connection that EXECs
            afterwards - must be the same after EVAL and after EVALSHA of the same source, plain and inside MULTI/EXEC, and (for data
            commands) the same as after the directly issued commands.
  dispatch-sweep  every name of the server's dispatch table (Gen/Dispatch.lean) except what Redis refuses in scripts and administration
            names goes through redis.pcall once: none may be an 'unknown command' inside a script.
  refused   every name of `Lua.refusedNames` (except SHUTDOWN / DEBUG, never sent) inside call and pcall:
            error, nothing changed, connection state untouched; names unknown to the executor likewise.
  sandbox   `os`, `io`, `loadfile`, … must be nil / raise; SAVE-like stubs must not touch the disk; no way to install a __gc finalizer
            (newproxy: finalizers run with the hooks off, outside the time limit) and no precompiled chunks (string.dump / loadstring of
            bytecode: Lua 5.1 runs bytecode unchecked) - while a door is open only a harmless witness is sent, once it is closed the
            wedging / crashing scripts themselves must be refused.
  ttl-parity  TTL inside a script == TTL directly at the same instant (right after EXPIRE / PEXPIRE inside one script / one MULTI block).
  atomic    writers running a two-INCR script against readers doing MGET: the two counters never differ.

  reply-depth  return values that are cyclic (self, mutual, via a metatable) or nested around the limit / 5000 deep / wide and deep, by EVAL,
            EVALSHA and inside EXEC, on a dedicated capped server: the reply is what the model's `luaToRespD` predicts (the error beyond the
            limit), parses with the project's own parser (harness impl_resp), the server lives, earlier effects persist.  Without a limit in
            the source (Gen.luaReplyDepthLimit = 0) only ONE witness is sent, to a throw-away capped server (the finding).
  time-limit  ONLY when the source installs a run-time limit (Gen.luaScriptTimeLimit > 0, re-read on every run): non-terminating
            scripts (plain, after writes, with pcall, in coroutines, by EVALSHA), each on a dedicated server: error reply within
            the limit + slack, earlier effects in place, server alive and serving; a long finite script is undisturbed.
            When the source also bounds a script's memory (Gen.luaScriptMemoryLimit > 0): allocating scripts (memory bomb, doubling
            concatenation, table growth, loops of expensive C calls / instructions on huge strings), same requirements.  Every
            server of this layer runs with its address space capped at 3 GiB (RLIMIT_AS).

Never sent: non-terminating scripts while NO time limit exists (then the finding is confirmed from the source only, DESIGN
row 12), SHUTDOWN, DEBUG, SLEEP, REPLICAOF, CLIENT PAUSE/KILL, CONFIG SET.
"""
import hashlib
import os
import sys
import threading

from common import *
from server import Server, Closed, ProtocolError, err_class
import ksgen

sys.path.insert(0, os.path.join(VERIF, "translator"))
import lua_tables  # noqa: E402
import extract as _extract  # noqa: E402

PID = "C12"
PENDING = os.path.join(VERIF, "pending_repo_patches", "C12_findings.json")
FAULT = os.environ.get("C12_FAULT", "")   # test-only: corrupt the implementation's answers to exercise the violation path

CONV_TAGS = ["nilBulkIsNil", "statusIsString", "lossyStrings", "pcallErrIsNil", "falseIsZero", "fracIsBulk",
             "emptyTableIsNil", "okErrTablesIgnored", "utf8ArgsOnly", "evalshaDb0"]

UNORDERED = {"SMEMBERS", "HKEYS", "HVALS", "KEYS", "SUNION", "SINTER", "SDIFF"}
PAIRS = {"HGETALL"}
SCANS = {"SCAN": False, "SSCAN": False, "HSCAN": True, "ZSCAN": True}
WINDOW = {"TTL": 1, "PTTL": 1500}
NEVER = {"SPOP", "SRANDMEMBER", "RANDOMKEY", "SHUTDOWN", "DEBUG", "SLEEP", "REPLICAOF", "SLAVEOF", "SYNC", "PSYNC",
         "TIME", "LASTSAVE", "INFO", "MONITOR"}

VARIANTS = {
    "raw": "return redis.call(unpack(ARGV))",
    "praw": "return redis.pcall(unpack(ARGV))",
    "type": "return type(redis.call(unpack(ARGV)))",
    "ptype": "return type(redis.pcall(unpack(ARGV)))",
    "isfalse": "return redis.call(unpack(ARGV)) == false",
    "isnil": "return redis.call(unpack(ARGV)) == nil",
    "wrap": "return {redis.call(unpack(ARGV))}",
    "len": "return #redis.call(unpack(ARGV))",
}
VARIANT_PICK = ["raw"] * 8 + ["praw"] * 3 + ["type"] * 3 + ["ptype", "isfalse", "isfalse", "isnil", "wrap", "wrap", "len"]


# ----------------------------------------------------------------------------------------------------
# replies: Python tuples <-> the driver's s-expressions
# ----------------------------------------------------------------------------------------------------
def tok(r):
    """reply tuple -> frame tokens of Drv/Util.readFrame (error wording is not transported)"""
    t = r[0]
    if t == "e":
        return "( e 45 )"
    if t in ("s", "b"):
        return "( %s %s )" % (t, hx(r[1]))
    if t == "i":
        return "( i %d )" % r[1]
    if t in ("nb", "na"):
        return "( %s )" % t
    if t == "a":
        return "( a%s )" % "".join(" " + tok(x) for x in r[1])
    raise InternalError("reply form the server never sends: %r" % (r,))


def parse_sexpr(s):
    toks = s.split()
    pos = [0]

    def rd():
        if toks[pos[0]] != "(":
            raise InternalError("bad s-expression from driver: %r" % s)
        k = toks[pos[0] + 1]
        pos[0] += 2
        if k == "a":
            xs = []
            while toks[pos[0]] != ")":
                xs.append(rd())
            pos[0] += 1
            return ("a", xs)
        if k in ("nb", "na", "e"):
            pos[0] += 1
            return (k,) if k != "e" else ("e", b"")
        v = toks[pos[0]]
        pos[0] += 2
        if k == "i":
            return ("i", int(v))
        return (k, unhx(v))
    r = rd()
    if pos[0] != len(toks):
        raise InternalError("trailing tokens in driver answer: %r" % s)
    return r


def show(r):
    t = r[0]
    if t == "e":
        return "( e )"
    if t in ("s", "b"):
        return "( %s %s )" % (t, hx(r[1]))
    if t == "i":
        return "( i %d )" % r[1]
    if t in ("nb", "na"):
        return "( %s )" % t
    return "( a%s )" % "".join(" " + show(x) for x in r[1])


def sort_flat(r, pairs=False):
    """sort the elements (or the consecutive pairs) of an array of scalars; deeper arrays recursively"""
    if r[0] != "a":
        return r
    xs = [sort_flat(x, pairs) for x in r[1]]
    if all(x[0] != "a" for x in xs):
        if pairs and len(xs) % 2 == 0:
            ps = sorted((show(xs[i]), show(xs[i + 1]), xs[i], xs[i + 1]) for i in range(0, len(xs), 2))
            xs = [y for p in ps for y in (p[2], p[3])]
        else:
            xs = sorted(xs, key=show)
    return ("a", xs)


def norm(r):
    """error wording dropped"""
    if r[0] == "e":
        return ("e", b"")
    if r[0] == "a":
        return ("a", [norm(x) for x in r[1]])
    return r


def canon(name, r):
    """error wording dropped; order-insensitive form for replies that come out of hash maps / hash sets"""
    r = norm(r)
    if name in STREAM_REPLIES or name == "XPENDING":
        r = sort_entry_fields(r)
        if name in ("XINFO", "XPENDING"):
            r = sort_record_lists(r)        # one record per group / consumer, out of a hash map (at any depth: wrapper variants nest the reply)
        return r
    if name in UNORDERED:
        return sort_flat(r)
    if name in PAIRS:
        return sort_flat(r, pairs=True)
    if name in SCANS and r[0] == "a":
        return ("a", [sort_flat(x, pairs=SCANS[name]) for x in r[1]])
    return r


def mask_times(name, args, r):
    """clock-dependent fields of consumer-group replies: the idle time of XPENDING's extended form and of XINFO CONSUMERS"""
    if name == "XPENDING" and len(args) > 3 and r[0] == "a":
        return ("a", [("a", x[1][:2] + [("i", 0)] + x[1][3:]) if x[0] == "a" and len(x[1]) == 4 and x[1][2][0] == "i" else x for x in r[1]])
    if name == "XINFO" and r[0] == "a":
        def m(x):
            if x[0] != "a":
                return x
            ys = [m(y) for y in x[1]]
            for i in range(len(ys) - 1):
                if ys[i] in (("b", b"idle"), ("b", b"inactive")) and ys[i + 1][0] == "i":
                    ys[i + 1] = ("i", 0)
            return ("a", ys)
        return m(r)
    return r


ID_RE = re.compile(rb"^\d+-\d+$")
STREAM_REPLIES = {"XRANGE", "XREVRANGE", "XREAD", "XREADGROUP", "XCLAIM", "XINFO", "XAUTOCLAIM"}


def sort_entry_fields(r):
    """a stream entry is [id, [field, value, ...]]; the server keeps an entry's fields in a hash map, so their order differs
    between two processes (and between two calls): compare entries with their field-value pairs sorted"""
    if r[0] != "a":
        return r
    xs = [sort_entry_fields(x) for x in r[1]]
    if len(xs) == 2 and xs[0][0] == "b" and ID_RE.match(xs[0][1]) and xs[1][0] == "a" and len(xs[1][1]) % 2 == 0 \
            and all(y[0] == "b" for y in xs[1][1]):
        xs[1] = sort_flat(xs[1], pairs=True)
    return ("a", xs)


def sort_record_lists(r):
    if r[0] != "a":
        return r
    xs = [sort_record_lists(x) for x in r[1]]
    if len(xs) > 1 and all(x[0] == "a" for x in xs):
        xs = sorted(xs, key=show)
    return ("a", xs)


def canon_name(name, args):
    """HSCAN ... NOVALUES lists fields only: compare it like a set scan"""
    if name == "HSCAN" and any(a.upper() == b"NOVALUES" for a in args[3:]):
        return "SSCAN"
    return name


def lossy(b):
    return b.decode("utf-8", "replace").encode("utf-8")


def is_binary(args):
    return any(lossy(a) != a for a in args)


# ----------------------------------------------------------------------------------------------------
# findings
# ----------------------------------------------------------------------------------------------------
ASSUME_FIXED = set(x for x in os.environ.get("C12_ASSUME_FIXED", "").split(",") if x)     # test-only


def load_findings():
    fs = [f for f in load_known_findings().get("open", []) if isinstance(f, dict) and f.get("property") == PID and f.get("id") not in ASSUME_FIXED]
    fixed_ids = {f.get("id") for f in load_known_findings().get("fixed", []) if isinstance(f, dict)}
    if os.path.exists(PENDING):
        have = {f["id"] for f in fs}
        for f in json.load(open(PENDING)):
            if f.get("property") != PID or "match" not in f:
                continue            # notes for other properties' findings (fixed_when ...) are not exemptions of this check
            if f["id"] in ASSUME_FIXED:
                continue
            if f["id"] in have:
                fs = [f if g["id"] == f["id"] else g for g in fs]      # a changed entry replaces the listed one
            elif f["id"] not in fixed_ids:
                fs.append(f)
    return fs


def intarg(b):
    try:
        return int(b)
    except ValueError:
        return None


def floatarg(b):
    try:
        return float(b[1:] if b[:1] == b"(" else b)
    except ValueError:
        return None


REBUILT = {"XADD", "XLEN", "XRANGE", "XREVRANGE", "XREAD", "XTRIM", "XDEL", "XGROUP", "XREADGROUP", "XACK", "XPENDING", "XCLAIM", "XINFO",
           "SCAN", "HSCAN", "SSCAN", "ZSCAN"}


def parity_cause(name, args, ra, rb, db, dump_equal, variant):
    """the cause tag of a handler/executor parity deviation, from the command and the two replies;
    None = not a deviation this check knows"""
    a = [x.upper() for x in args[1:]]
    ea, eb = ra[0] == "e", rb[0] == "e"
    if eb and not dump_equal:
        eb = False          # the wrapper expression failed (e.g. `#nil`) after the command had taken effect
    if name == "RENAMENX" and not ea:
        return "renamenx-is-rename"
    big = lambda b: intarg(b) is not None and intarg(b) >= 2 ** 63          # noqa: E731  (2^63 .. : refused by the handlers since 06ab2bf)
    if name == "SET" and len(args) >= 3:
        opts = a[2:]
        n_exp = sum(1 for o in opts if o in (b"EX", b"PX"))
        bad_time = any(o in (b"EX", b"PX") and i + 1 < len(opts) and (intarg(opts[i + 1]) == 0 or big(opts[i + 1])) for i, o in enumerate(opts))
        if ea and not eb and (n_exp > 1 or bad_time or b"GET" in opts or b"KEEPTTL" in opts):
            return "set-options"
    if name in ("SETEX", "PSETEX") and len(args) == 4 and (intarg(args[2]) == 0 or big(args[2])) and ea and not eb:
        return "setex-zero"
    if name in ("EXPIRE", "PEXPIRE") and len(args) == 3 and intarg(args[2]) is not None and ((intarg(args[2]) <= 0 and not ea) or (big(args[2]) and ea and not eb)):
        return "expire-nonpositive"
    if name in ("SPOP", "SRANDMEMBER", "ZPOPMIN", "ZPOPMAX") and len(args) == 3 and big(args[2]) and ea and not eb:
        return "pop-counts"
    if name in ("SPOP", "SRANDMEMBER") and not ea and not eb and ((len(args) == 3 and intarg(args[2]) == 1) or (len(args) == 2 and ra == ("nb",))):
        return "pop-counts"         # `SPOP s 1` a bulk instead of a one-element array; a missing key without count an empty array instead of nil
    if name == "DECRBY" and len(args) == 3 and intarg(args[2]) == -2 ** 63 and ea and not eb:
        return "decrby-min"
    if name in ("FLUSHALL", "FLUSHDB", "DBSIZE", "RANDOMKEY", "SAVE", "BGSAVE", "LASTSAVE") and len(args) > 1 and ea and not eb:
        return "arity-unchecked"
    if name in ("GETBIT", "SETBIT", "BITCOUNT", "TIME", "ZREMRANGEBYRANK", "ZREMRANGEBYSCORE", "ZREMRANGEBYLEX") and ea \
            and ra[1].startswith(b"ERR unknown command"):
        return "script-only-commands"
    if name == "BGREWRITEAOF" and ea and not eb and ra[1].startswith(b"ERR AOF is disabled"):
        return "script-only-commands"       # the persistence names are canned stubs inside scripts (they touch nothing)
    if name in ("ZADD", "ZINCRBY") and ea and not eb:
        scores = args[2:] if name == "ZADD" else args[2:3]
        if any((floatarg(x) is None or floatarg(x) != floatarg(x)) for x in scores[::2]) or \
                any(floatarg(x) in (float("inf"), float("-inf")) for x in scores[::2]):
            return "zadd-validation"
    if name in ("FLUSHDB", "DBSIZE", "KEYS") and db != 0 and not eb:
        return "db0-commands"
    # the executor parses these commands with its own parser and re-assembles a frame for the shared handler: arguments that parser
    # does not keep are lost or reordered, and it validates before (and differently from) the handler.  Exempt: every form of
    # these four commands EXCEPT the plain one, and HSCAN NOVALUES.  (XREAD, XADD, XRANGE, XDEL, XACK, ... are not exempt.)
    def nonneg(b):
        return intarg(b) is not None and 0 <= intarg(b) < 2 ** 63
    if name == "XREADGROUP":
        plain = len(a) in (6, 8) and a[0] == b"GROUP" and a[-3] == b"STREAMS" and (len(a) == 6 or (a[3] == b"COUNT" and nonneg(a[4])))
        if not plain:
            return "rebuild-lossy"      # two or more streams (re-assembled as `key id key id`), NOACK, unbalanced / odd forms
    if name == "XPENDING" and len(args) > 3:
        return "rebuild-lossy"          # range form: count parsed as usize before the key is looked at; the consumer filter is dropped
    if name == "XCLAIM" and (len(args) < 6 or not nonneg(args[4]) or any(not ID_RE.match(x) for x in args[5:])):
        return "rebuild-lossy"          # options (JUSTID, FORCE, IDLE, TIME, RETRYCOUNT) are dropped
    if name == "XTRIM" and not (len(args) == 4 and a[1] == b"MAXLEN" and nonneg(args[3])):
        return "rebuild-lossy"          # MAXLEN ~ n / MAXLEN = n / MINID
    if name == "HSCAN" and b"NOVALUES" in a[2:]:
        return "rebuild-lossy"
    return None


# ----------------------------------------------------------------------------------------------------
# generators: zset / stream / misc vocabulary (strings, lists, sets, hashes come from lib/ksgen.py)
# ----------------------------------------------------------------------------------------------------
ZM = [b"a", b"b", b"c", b"m", b"", b"\xc3\xa9"]
ZS = [b"0", b"1", b"-1", b"2.5", b"1e3", b"3", b"(1", b"(2", b"inf", b"-inf", b"+inf", b"nan", b"abc"]
ZK = [b"z", b"z", b"z", b"z2", b"miss", b"k1", b"l"]
XK = [b"x", b"x", b"x2", b"miss", b"k1"]
IDS = [b"1-1", b"2-0", b"5-3", b"0-0", b"0-1", b"3", b"abc", b"-", b"+", b"$", b"7-7", b"18446744073709551615-18446744073709551615"]
SMALL = [0, 1, -1, 2, -2, 5, -5, 100, -100]
Z_VOCAB = ["ZADD", "ZADD", "ZADD", "ZREM", "ZSCORE", "ZCARD", "ZRANK", "ZREVRANK", "ZRANGE", "ZRANGE", "ZREVRANGE", "ZRANGEBYSCORE",
           "ZREVRANGEBYSCORE", "ZCOUNT", "ZINCRBY", "ZPOPMIN", "ZPOPMAX", "ZREMRANGEBYRANK", "ZREMRANGEBYSCORE", "ZREMRANGEBYLEX",
           "XADD", "XADD", "XADD", "XLEN", "XRANGE", "XREVRANGE", "XDEL", "XTRIM", "XREAD", "PING", "ECHO", "SCAN", "SSCAN", "HSCAN",
           "ZSCAN", "GETBIT", "SETBIT", "BITCOUNT", "SETGET", "SETKEEPTTL", "UNKNOWNCMD", "PEXPIRE", "PERSIST", "SAVE"]


def zcmd(r):
    n = r.choice(Z_VOCAB)
    k = r.choice(ZK)
    xk = r.choice(XK)

    def I():
        return str(r.choice(SMALL)).encode()
    if n == "ZADD":
        a = [k]
        if r.chance(1, 8):
            a.append(r.choice([b"NX", b"XX", b"CH", b"INCR", b"GT", b"LT"]))
        for _ in range(r.range(1, 3)):
            a += [r.choice(ZS[:8]) if r.chance(5, 6) else r.choice(ZS), r.choice(ZM)]
        return [b"ZADD"] + a
    if n == "ZREM":
        return [b"ZREM", k] + [r.choice(ZM) for _ in range(r.range(1, 2))]
    if n in ("ZSCORE", "ZRANK", "ZREVRANK"):
        return [n.encode(), k, r.choice(ZM)]
    if n in ("ZCARD", "XLEN", "PERSIST"):
        return [n.encode(), xk if n == "XLEN" else k]
    if n in ("ZRANGE", "ZREVRANGE"):
        return [n.encode(), k, I(), I()] + ([b"WITHSCORES"] if r.chance(1, 2) else [])
    if n in ("ZRANGEBYSCORE", "ZREVRANGEBYSCORE"):
        return [n.encode(), k, r.choice(ZS), r.choice(ZS)] + ([b"WITHSCORES"] if r.chance(1, 3) else []) + \
            ([b"LIMIT", I(), I()] if r.chance(1, 4) else [])
    if n == "ZCOUNT":
        return [b"ZCOUNT", k, r.choice(ZS), r.choice(ZS)]
    if n == "ZINCRBY":
        return [b"ZINCRBY", k, r.choice(ZS[:8]) if r.chance(5, 6) else r.choice(ZS), r.choice(ZM)]
    if n in ("ZPOPMIN", "ZPOPMAX"):
        return [n.encode(), k] + ([I()] if r.chance(1, 2) else [])
    if n == "ZREMRANGEBYRANK":
        return [b"ZREMRANGEBYRANK", k, I(), I()]
    if n == "ZREMRANGEBYSCORE":
        return [b"ZREMRANGEBYSCORE", k, r.choice(ZS), r.choice(ZS)]
    if n == "ZREMRANGEBYLEX":
        return [b"ZREMRANGEBYLEX", k, b"-", b"+"]
    if n == "XADD":
        # explicit ids only: an auto id depends on each server's clock
        return [b"XADD", xk] + ([b"MAXLEN", b"2"] if r.chance(1, 6) else []) + [r.choice(IDS)] + [b"f", b"v"] * r.range(0, 2) + \
            ([b"odd"] if r.chance(1, 8) else [])
    if n in ("XRANGE", "XREVRANGE"):
        return [n.encode(), xk, r.choice(IDS), r.choice(IDS)] + ([b"COUNT", I()] if r.chance(1, 3) else [])
    if n == "XDEL":
        return [b"XDEL", xk, r.choice(IDS)]
    if n == "XTRIM":
        return [b"XTRIM", xk, b"MAXLEN", I()]
    if n == "XREAD":
        return [b"XREAD"] + ([b"COUNT", I()] if r.chance(1, 3) else []) + [b"STREAMS", xk, r.choice(IDS[:8])]
    if n == "PING":
        return [b"PING"] + ([b"hello"] if r.chance(1, 2) else [])
    if n == "ECHO":
        return [b"ECHO", r.choice([b"hello", b"", b"\xc3\xa9", b"a\xffb"])]
    if n == "SCAN":
        return [b"SCAN", b"0"] + ([b"COUNT", b"100"] if r.chance(1, 2) else [])
    if n in ("SSCAN", "HSCAN", "ZSCAN"):
        return [n.encode(), {"SSCAN": b"s", "HSCAN": b"h", "ZSCAN": b"z"}[n] if r.chance(3, 4) else b"miss", b"0"]
    if n == "GETBIT":
        return [b"GETBIT", b"k1", b"3"]
    if n == "SETBIT":
        return [b"SETBIT", b"k1", r.choice([b"3", b"9"]), r.choice([b"0", b"1"])]
    if n == "BITCOUNT":
        return [b"BITCOUNT", b"bc"]          # `bc` is always a non-empty string (an empty one panics the server: finding)
    if n == "SETGET":
        return [b"SET", r.choice([b"k1", b"miss", b"l"]), b"nv", b"GET"]
    if n == "SETKEEPTTL":
        return [b"SET", r.choice([b"k1", b"k2"]), b"nv", b"KEEPTTL"]
    if n == "PEXPIRE":
        return [b"PEXPIRE", k, r.choice([b"100000", b"100000", b"0", b"-5", b"abc"])]
    if n == "SAVE":
        return [r.choice([b"SAVE", b"BGSAVE", b"BGREWRITEAOF"]), b"extra"]      # with an argument: refused by the handlers, nothing written
    return [b"UNKNOWNCMD", b"x"]


def makes_expired_key(name, args):
    """time-to-live <= 0: leaves (on one path or the other) an entry whose deadline has already passed"""
    if name in ("EXPIRE", "PEXPIRE") and len(args) == 3:
        v = intarg(args[2])
        return v is not None and v <= 0
    if name in ("SETEX", "PSETEX") and len(args) == 4:
        v = intarg(args[2])
        return v is not None and v <= 0
    if name == "SET":
        o = [x.upper() for x in args[3:]]
        return any(x in (b"EX", b"PX") and i + 1 < len(o) and (intarg(o[i + 1]) is not None and intarg(o[i + 1]) <= 0) for i, x in enumerate(o))
    return False


# ---- syntax forms: every command with a multi-key / variadic / option-bearing syntax, in forms with 1, 2 and 3 keys
#      (repeats, missing keys, wrong types) and with each option; the tag names the form (counted into the evidence)
FORMS_SETUP = [[b"XADD", b"s1", b"1-1", b"a", b"1"], [b"XADD", b"s1", b"2-1", b"a", b"2"], [b"XADD", b"s2", b"1-5", b"b", b"1"],
               [b"XADD", b"s2", b"3-1", b"b", b"2"], [b"XGROUP", b"CREATE", b"s1", b"g", b"0"], [b"XGROUP", b"CREATE", b"s2", b"g", b"0"],
               [b"SADD", b"sa", b"a", b"b"], [b"SADD", b"sb", b"b", b"c"], [b"HSET", b"hh", b"f1", b"1", b"f2", b"2", b"f3", b"3"],
               [b"RPUSH", b"ll", b"x", b"y"], [b"SET", b"ka", b"1"], [b"SET", b"kb", b"2"]]
F_SKEYS = [b"s1", b"s2", b"s1", b"s2", b"x", b"miss", b"k1"]
F_SIDS = [b"0", b"0-0", b"1-1", b"2-1", b"$", b"9-9", b"abc", b"1"]
F_GIDS = [b">", b">", b">", b"0", b"1-1", b"abc"]
F_NEWIDS = [b"5-0", b"6-1", b"7-0", b"2-1", b"0-0", b"4"]
F_SETKEYS = [b"sa", b"sb", b"sa", b"sb", b"s", b"miss", b"k1"]
F_STRKEYS = [b"ka", b"kb", b"k1", b"ka", b"miss", b"ll", b"hh"]
F_FIELDS = [b"f1", b"f2", b"f3", b"nope", b"f1", b""]
F_PATTERNS = [b"*", b"k*", b"f*", b"?a", b"[ab]*", b"s?", b"nomatch*", b"*1"]
F_SCORES = [b"0", b"1", b"2", b"3", b"(1", b"(2", b"(3", b"-inf", b"+inf", b"inf", b"2.5"]


def fcmd(r):
    """(args, form tag)"""
    def n123():
        return r.choice([1, 2, 2, 2, 3, 3])

    def cnt():
        return str(r.choice([0, 1, 1, 2, 5, -1, 100])).encode()
    fam = r.choice(["XREAD", "XREAD", "XREADGROUP", "XREADGROUP", "XADD", "XRANGE", "XDEL", "XACK", "XPENDING", "XCLAIM", "XGROUP", "XINFO", "XTRIM",
                    "ZADD", "ZRANGE", "ZBYSCORE", "ZBYSCORE", "ZREM", "SETALG", "SETALG", "SADD", "MSET", "MGET", "DELEX", "SETOPT", "HMGET", "HSET",
                    "HDEL", "PUSH", "POPN", "SCAN", "SCAN", "KSCAN", "KSCAN"])
    if fam in ("XREAD", "XREADGROUP"):
        n = n123()
        keys = [r.choice(F_SKEYS) for _ in range(n)]
        ids = [r.choice(F_SIDS if fam == "XREAD" else F_GIDS) for _ in range(n)]
        tag = "%s.%dkeys" % (fam, n)
        a = [fam.encode()] + ([b"GROUP", r.choice([b"g", b"g", b"g", b"nogroup"]), r.choice([b"c1", b"c2"])] if fam == "XREADGROUP" else [])
        if r.chance(1, 2):
            a += [r.choice([b"COUNT", b"count"]), cnt()]
            tag += ".count"
        if fam == "XREADGROUP" and r.chance(1, 5):
            a += [b"NOACK"]
            tag += ".noack"
        if r.chance(1, 12):
            ids = ids[:-1] if r.chance(1, 2) else ids + [b"0"]
            tag += ".unbalanced"
        return a + [b"STREAMS"] + keys + ids, tag
    if fam == "XADD":
        k = r.choice([b"s1", b"s2", b"snew", b"k1"])
        np_ = r.choice([1, 2, 3])
        tag = "XADD.%dpairs" % np_
        a = [b"XADD", k]
        if r.chance(1, 3):
            a += [b"MAXLEN"] + ([b"~"] if r.chance(1, 4) else []) + [r.choice([b"0", b"1", b"2", b"100"])]
            tag += ".maxlen"
        a += [r.choice(F_NEWIDS)]
        for i in range(np_):
            a += [b"f%d" % i, r.choice([b"v", b"", b"1"])]
        if r.chance(1, 10):
            a += [b"odd"]
            tag += ".oddfields"
        return a, tag
    if fam == "XRANGE":
        nm = r.choice([b"XRANGE", b"XREVRANGE"])
        a = [nm, r.choice(F_SKEYS), r.choice([b"-", b"+", b"1-1", b"2-1", b"0", b"(1-1", b"9"]), r.choice([b"+", b"-", b"2-1", b"1-5", b"(3-1", b"1"])]
        tag = nm.decode()
        if r.chance(1, 2):
            a += [b"COUNT", cnt()]
            tag += ".count"
        return a, tag
    if fam == "XDEL":
        n = n123()
        return [b"XDEL", r.choice(F_SKEYS)] + [r.choice([b"1-1", b"2-1", b"1-5", b"3-1", b"9-9", b"abc"]) for _ in range(n)], "XDEL.%dids" % n
    if fam == "XACK":
        n = n123()
        return [b"XACK", r.choice(F_SKEYS), r.choice([b"g", b"g", b"nogroup"])] + [r.choice([b"1-1", b"2-1", b"1-5", b"3-1", b"9-9", b"abc"]) for _ in range(n)], "XACK.%dids" % n
    if fam == "XPENDING":
        k, gname = r.choice(F_SKEYS), r.choice([b"g", b"g", b"g", b"nogroup"])
        f = r.below(4)
        if f == 0:
            return [b"XPENDING", k, gname], "XPENDING.summary"
        rng = [r.choice([b"-", b"1-1", b"2-0", b"9-9"]), r.choice([b"+", b"2-1", b"1-0"]), cnt()]
        if f in (1, 2):
            return [b"XPENDING", k, gname] + rng, "XPENDING.range"
        return [b"XPENDING", k, gname] + rng + [r.choice([b"c1", b"c2", b"nobody"])], "XPENDING.range.consumer"
    if fam == "XCLAIM":
        n = r.choice([1, 2, 2])
        a = [b"XCLAIM", r.choice(F_SKEYS), r.choice([b"g", b"g", b"nogroup"]), r.choice([b"c1", b"c2", b"c3"]), r.choice([b"0", b"0", b"3600000", b"abc"])]
        a += [r.choice([b"1-1", b"2-1", b"1-5", b"3-1", b"9-9"]) for _ in range(n)]
        tag = "XCLAIM.%dids" % n
        if r.chance(1, 2):
            o = r.choice([[b"JUSTID"], [b"FORCE"], [b"IDLE", b"0"], [b"RETRYCOUNT", b"5"], [b"FORCE", b"JUSTID"]])
            a += o
            tag += "." + b"+".join(x for x in o if not x.isdigit()).decode().lower()
        return a, tag
    if fam == "XGROUP":
        k = r.choice([b"s1", b"s2", b"miss", b"k1"])
        sub = r.choice(["CREATE", "CREATE", "DESTROY", "SETID", "DELCONSUMER", "CREATECONSUMER"])
        gname = r.choice([b"g", b"g2"])
        if sub == "CREATE":
            a = [b"XGROUP", b"CREATE", k, gname, r.choice([b"$", b"0", b"1-1", b"abc"])]
            if r.chance(1, 3):
                return a + [b"MKSTREAM"], "XGROUP.create.mkstream"
            return a, "XGROUP.create"
        if sub == "DESTROY":
            return [b"XGROUP", b"DESTROY", k, gname], "XGROUP.destroy"
        if sub == "SETID":
            return [b"XGROUP", b"SETID", k, gname, r.choice([b"$", b"0", b"1-1"])], "XGROUP.setid"
        return [b"XGROUP", sub.encode(), k, gname, r.choice([b"c1", b"c2"])], "XGROUP." + sub.lower()
    if fam == "XINFO":
        sub = r.choice([b"STREAM", b"GROUPS", b"CONSUMERS"])
        return [b"XINFO", sub, r.choice(F_SKEYS)] + ([r.choice([b"g", b"nogroup"])] if sub == b"CONSUMERS" else []), "XINFO." + sub.decode().lower()
    if fam == "XTRIM":
        o = r.choice([[b"MAXLEN", b"1"], [b"MAXLEN", b"0"], [b"MAXLEN", b"~", b"1"], [b"MAXLEN", b"=", b"1"], [b"MINID", b"2-0"], [b"MAXLEN", b"-1"]])
        return [b"XTRIM", r.choice(F_SKEYS)] + o, "XTRIM." + b"".join(x for x in o if not x.lstrip(b"-").isdigit() and b"-" not in x[1:]).decode().lower()
    if fam == "ZADD":
        n = n123()
        a = [b"ZADD", r.choice([b"z", b"z", b"znew", b"k1"])]
        tag = "ZADD.%dpairs" % n
        if r.chance(1, 3):
            o = r.choice([b"NX", b"XX", b"CH", b"INCR", b"GT", b"LT"])
            a.append(o)
            tag += "." + o.decode().lower()
        ms = [b"a", b"b", b"c", b"d"]
        for i in range(n):
            a += [r.choice([b"1", b"2.5", b"-3", b"1e2", b"inf", b"nope"]) if r.chance(1, 8) else r.choice([b"1", b"2", b"5", b"7.5"]), r.choice(ms)]
        return a, tag
    if fam == "ZRANGE":
        nm = r.choice([b"ZRANGE", b"ZREVRANGE"])
        a = [nm, r.choice([b"z", b"z", b"miss", b"k1"]), str(r.choice(SMALL)).encode(), str(r.choice(SMALL)).encode()]
        tag = nm.decode()
        if r.chance(1, 2):
            a.append(r.choice([b"WITHSCORES", b"withscores"]))
            tag += ".withscores"
        if nm == b"ZRANGE" and r.chance(1, 5):
            a.append(r.choice([b"REV", b"BYSCORE", b"LIMIT"]))
            tag += ".option"
        return a, tag
    if fam == "ZBYSCORE":
        nm = r.choice([b"ZRANGEBYSCORE", b"ZREVRANGEBYSCORE", b"ZCOUNT", b"ZREMRANGEBYSCORE"])
        lo, hi = r.choice(F_SCORES), r.choice(F_SCORES)
        a = [nm, r.choice([b"z", b"z", b"miss", b"k1"]), lo, hi]
        tag = nm.decode() + (".exclusive" if b"(" in lo + hi else "") + (".inf" if b"inf" in lo + hi else "")
        if nm in (b"ZRANGEBYSCORE", b"ZREVRANGEBYSCORE"):
            if r.chance(1, 3):
                a.append(b"WITHSCORES")
                tag += ".withscores"
            if r.chance(1, 3):
                a += [b"LIMIT", str(r.choice([0, 1, -1])).encode(), str(r.choice([0, 1, 2, -1])).encode()]
                tag += ".limit"
        return a, tag
    if fam == "ZREM":
        n = n123()
        return [b"ZREM", r.choice([b"z", b"miss", b"k1"])] + [r.choice([b"a", b"b", b"c", b"nope"]) for _ in range(n)], "ZREM.%dmembers" % n
    if fam == "SETALG":
        nm = r.choice([b"SUNION", b"SINTER", b"SDIFF"])
        n = n123()
        keys = [r.choice(F_SETKEYS) for _ in range(n)]
        tag = "%s.%dkeys" % (nm.decode(), n) + (".missing" if b"miss" in keys else "") + (".wrongtype" if b"k1" in keys else "") + \
            (".repeat" if len(set(keys)) < n else "")
        return [nm] + keys, tag
    if fam == "SADD":
        nm = r.choice([b"SADD", b"SREM"])
        n = r.choice([1, 2, 3, 4])
        return [nm, r.choice([b"sa", b"sb", b"snew", b"k1"])] + [r.choice([b"a", b"b", b"c", b"d", b"a"]) for _ in range(n)], "%s.%dmembers" % (nm.decode(), n)
    if fam == "MSET":
        n = n123()
        a = [b"MSET"]
        keys = []
        for _ in range(n):
            k = r.choice([b"ka", b"kb", b"kc", b"ka", b"ll"])
            keys.append(k)
            a += [k, r.choice([b"1", b"2", b""])]
        if r.chance(1, 10):
            return a + [b"odd"], "MSET.oddargs"
        return a, "MSET.%dpairs" % n + (".repeat" if len(set(keys)) < n else "")
    if fam == "MGET":
        n = r.choice([1, 2, 3, 4])
        keys = [r.choice(F_STRKEYS) for _ in range(n)]
        return [b"MGET"] + keys, "MGET.%dkeys" % n + (".missing" if b"miss" in keys else "") + (".wrongtype" if b"ll" in keys or b"hh" in keys else "") + \
            (".repeat" if len(set(keys)) < n else "")
    if fam == "DELEX":
        nm = r.choice([b"DEL", b"EXISTS"])
        n = r.choice([1, 2, 3, 4])
        keys = [r.choice(F_STRKEYS) for _ in range(n)]
        return [nm] + keys, "%s.%dkeys" % (nm.decode(), n) + (".repeat" if len(set(keys)) < n else "")
    if fam == "SETOPT":
        o = r.choice([[b"NX"], [b"XX"], [b"EX", b"1000"], [b"PX", b"1000000"], [b"NX", b"EX", b"1000"], [b"XX", b"PX", b"1000000"], [b"EX", b"1000", b"NX"],
                      [b"px", b"1000000", b"xx"], [b"NX", b"XX"], [b"EX"], [b"EX", b"1000", b"EX", b"1000"], [b"GET"], [b"KEEPTTL"], [b"EXAT", b"99999999999"]])
        return [b"SET", r.choice([b"ka", b"knew", b"ll"]), b"v"] + o, "SET." + b"+".join(x.upper() for x in o if not x.isdigit()).decode().lower()
    if fam == "HMGET":
        n = r.choice([1, 2, 3, 4])
        fs = [r.choice(F_FIELDS) for _ in range(n)]
        mid = n >= 3 and any(f in (b"nope", b"") for f in fs[1:-1])
        return [b"HMGET", r.choice([b"hh", b"hh", b"hh", b"miss", b"k1"])] + fs, "HMGET.%dfields" % n + (".missing-in-middle" if mid else "")
    if fam == "HSET":
        nm = r.choice([b"HSET", b"HMSET"])
        n = n123()
        a = [nm, r.choice([b"hh", b"hnew", b"k1"])]
        fs = []
        for _ in range(n):
            f = r.choice([b"f1", b"f2", b"g1", b"g1"])
            fs.append(f)
            a += [f, r.choice([b"1", b"x", b""])]
        return a, "%s.%dpairs" % (nm.decode(), n) + (".repeat" if len(set(fs)) < n else "")
    if fam == "HDEL":
        n = n123()
        return [b"HDEL", r.choice([b"hh", b"miss", b"k1"])] + [r.choice(F_FIELDS) for _ in range(n)], "HDEL.%dfields" % n
    if fam == "PUSH":
        nm = r.choice([b"LPUSH", b"RPUSH"])
        n = r.choice([1, 2, 3, 4])
        return [nm, r.choice([b"ll", b"lnew", b"k1"])] + [r.choice([b"a", b"b", b"", b"a"]) for _ in range(n)], "%s.%delems" % (nm.decode(), n)
    if fam == "POPN":
        nm = r.choice([b"LPOP", b"RPOP"])
        return [nm, r.choice([b"ll", b"miss", b"k1"]), r.choice([b"1", b"2", b"0"])], nm.decode() + ".count"
    if fam == "SCAN":
        a = [b"SCAN", r.choice([b"0", b"0", b"0", b"2", b"abc"])]
        tag = "SCAN"
        if r.chance(1, 2):
            a += [r.choice([b"MATCH", b"match"]), r.choice(F_PATTERNS)]
            tag += ".match"
        if r.chance(1, 2):
            a += [b"COUNT", r.choice([b"1", b"3", b"100", b"0", b"abc"])]
            tag += ".count"
        if r.chance(1, 5):
            a += [b"TYPE", r.choice([b"string", b"zset", b"stream", b"nonsense"])]
            tag += ".type"
        return a, tag
    nm = r.choice([b"HSCAN", b"SSCAN", b"ZSCAN"])
    key = {b"HSCAN": b"hh", b"SSCAN": b"sa", b"ZSCAN": b"z"}[nm] if r.chance(4, 5) else r.choice([b"miss", b"k1"])
    a = [nm, key, r.choice([b"0", b"0", b"0", b"1", b"abc"])]
    tag = nm.decode()
    if r.chance(1, 2):
        a += [b"MATCH", r.choice(F_PATTERNS)]
        tag += ".match"
    if r.chance(1, 2):
        a += [b"COUNT", r.choice([b"1", b"2", b"100", b"0"])]
        tag += ".count"
    if nm == b"HSCAN" and r.chance(1, 4):
        a += [b"NOVALUES"]
        tag += ".novalues"
    return a, tag


def gen_command(r, g):
    """one command of the data-type catalogue (never one of NEVER); returns (args, shape tag)"""
    while True:
        k = r.below(20)
        if k < 8:
            args = g.command()
            shape = g.last_shape
        elif k < 13:
            args = zcmd(r)
            shape = "z"
        else:
            args, shape = fcmd(r)
            shape = "form." + shape
        name = args[0].decode("latin-1").upper()
        if name in NEVER:
            continue
        if name == "SETRANGE" and len(args) > 2 and (intarg(args[2]) or 0) > 10 ** 6:
            continue        # huge offsets: allocation behaviour is C06's subject
        if makes_expired_key(name, args):
            continue        # a key that is expired but not yet swept is removed by each twin's sweeper at its own moment (C02's subject);
                            # these forms are exercised one by one in CORPUS, each followed by a fresh state
        return args, shape


# ----------------------------------------------------------------------------------------------------
# the twin: A answers the direct command, B the script
# ----------------------------------------------------------------------------------------------------
class Twin:
    def __init__(self, drv):
        self.drv = drv
        self.A = Server("c12a")
        self.B = Server("c12b")
        self.connect()
        self.db = 0
        self.history = []
        self.restarts = 0

    def connect(self):
        self.a, self.b = self.A.client(), self.B.client()
        self.a0, self.b0 = self.A.client(), self.B.client()     # stay on database 0

    def close(self):
        for c in (self.a, self.b, self.a0, self.b0):
            c.close()
        self.A.stop()
        self.B.stop()

    def both(self, *args):
        ra, rb = self.a.cmd(*args), self.b.cmd(*args)
        return ra, rb

    def fresh(self, db, setup):
        """both servers empty, both connections on database `db`, the same set-up applied directly"""
        self.db = db
        for c in (self.a0, self.b0):
            if c.cmd("FLUSHALL") != ("s", b"OK"):
                raise InternalError("FLUSHALL failed")
            if db != 0:
                c.cmd("SET", "sentinel0", "1")
        for c in (self.a, self.b):
            if c.cmd("SELECT", str(db)) != ("s", b"OK"):
                raise InternalError("SELECT failed")
        self.setup = [list(s) for s in setup]
        self.history = []
        for s in setup:
            ra, rb = self.both(*s)
            if canon(s[0].decode().upper(), ra) != canon(s[0].decode().upper(), rb):
                raise InternalError("twin servers disagree on a direct set-up command %r: %r vs %r" % (s, ra, rb))

    def restart_b(self):
        for c in (self.b, self.b0):
            c.close()
        self.crash_log = self.B.log_tail(1200)
        self.B.stop()
        self.B = Server("c12b")
        self.b, self.b0 = self.B.client(), self.B.client()
        self.restarts += 1

    def run(self, args, variant):
        """(ra, rb): the direct reply of A and the script reply of B"""
        ra = self.a.cmd(*args)
        try:
            rb = self.b.cmd("EVAL", VARIANTS[variant], "0", *args)
        except (Closed, TimeoutError, ProtocolError, OSError) as e:
            time.sleep(0.3)
            rb = ("died", type(e).__name__, self.B.alive())
        self.history.append((args, variant))
        return ra, rb

    def dumps(self):
        da, db_ = dump(self.a), dump(self.b)
        if self.db != 0:
            da += " || db0:" + show(self.a0.cmd("DBSIZE"))
            db_ += " || db0:" + show(self.b0.cmd("DBSIZE"))
        return da, db_


def dump(c):
    """full dump of the selected database through point reads (as lib/ks.py dump_impl, plus stream contents)"""
    keys = c.cmd("KEYS", "*")
    if keys[0] != "a":
        return "dump-failed:KEYS"
    out = []
    for k in sorted(x[1] for x in keys[1]):
        t = c.cmd("TYPE", k)[1].decode()
        if t == "string":
            g = c.cmd("GET", k)
            v = "string " + (hx(g[1]) if g[0] == "b" else "<" + g[0] + ">")
        elif t == "list":
            xs = c.cmd("LRANGE", k, "0", "-1")[1]
            v = "list " + ("|".join(hx(x[1]) for x in xs) if xs else ".")
        elif t == "set":
            xs = sorted(x[1] for x in c.cmd("SMEMBERS", k)[1])
            v = "set " + ("|".join(hx(x) for x in xs) if xs else ".")
        elif t == "hash":
            fl = c.cmd("HGETALL", k)[1]
            ps = sorted((fl[i][1], fl[i + 1][1]) for i in range(0, len(fl), 2))
            v = "hash " + ("|".join(hx(f) + "=" + hx(x) for f, x in ps) if ps else ".")
        elif t == "zset":
            fl = c.cmd("ZRANGE", k, "0", "-1", "WITHSCORES")[1]
            v = "zset " + ("|".join(hx(fl[i][1]) + "=" + hx(fl[i + 1][1]) for i in range(0, len(fl), 2)) if fl else ".")
        elif t == "stream":
            v = "stream " + show(sort_entry_fields(c.cmd("XRANGE", k, "-", "+")))
            gs = c.cmd("XINFO", "GROUPS", k)
            if gs[0] == "a" and gs[1]:
                # consumer groups: cursor, counts and the pending entries (id, owner, delivery count; idle time masked)
                gs = ("a", sorted(gs[1], key=show))
                v += " groups " + show(norm(gs))
                for gr in gs[1]:
                    if gr[0] == "a" and len(gr[1]) >= 2 and gr[1][1][0] == "b":
                        v += " pel[%s] " % hx(gr[1][1][1]) + show(norm(mask_times("XPENDING", [b"", b"", b"", b"-"], c.cmd("XPENDING", k, gr[1][1][1], "-", "+", "1000"))))
        else:
            v = "type-" + t
        ttl = c.cmd("PTTL", k)
        if ttl == ("i", 0) or ttl == ("i", -2):
            continue        # deadline passed, not swept yet (or swept during this dump): absent, as every reader should see it (C02)
        out.append("%s %s %s" % (hx(k), v, "ttl" if ttl[0] == "i" and ttl[1] >= 0 else "nottl"))
    return " ; ".join(out) if out else "."


class Checker:
    def __init__(self, rep, findings, tier):
        self.rep, self.tier = rep, tier
        self.findings = {f["match"]: f for f in findings}
        self.known = {}              # finding id -> finding (confirmed on this run)
        self.forms = {}              # syntax form -> number of twin cases
        self.cases = {}              # case of command name / option words -> number of twin cases
        self.oracle_fail = []        # details of oracle failures outside known findings
        self.disagree = []           # model disagreements
        self.samples = {}
        self.drv = lean_driver("lua")
        self.facts = lua_tables.facts(_extract.src, _extract.strip_comments, _extract.fn_body)
        q = self.facts["quirks"]
        self.quirks = {k: bool(q.get(k, True)) for k in CONV_TAGS}
        self.ask("quirks " + " ".join("%s=%d" % (k, int(v)) for k, v in self.quirks.items()), "ok")
        kq = ksgen.code_quirks()
        if kq:
            self.ask("ksquirks " + " ".join("%s=%d" % (k, int(v)) for k, v in kq.items()), "ok")
        self.t0 = time.monotonic()

    def now(self):
        return int((time.monotonic() - self.t0) * 1000) + 1000

    def ask(self, line, expect=None):
        a = self.drv.ask(line)
        if a is None or a == "bad-op" or (expect is not None and a != expect):
            raise InternalError("Lean lua driver failed on: %s -> %r %s" % (line[:300], a, self.drv.stderr_tail[-300:]))
        return a

    # ---- verdict helpers
    def note_known(self, match, sample=None):
        f = self.findings.get(match)
        if f is None:
            return False
        self.known.setdefault(f["id"], f)
        self.rep.count("known." + match)
        if sample is not None and match not in self.samples:
            self.samples[match] = sample
        return True

    def fail(self, layer, what, det):
        det = dict(det)
        det.update({"layer": layer, "why": what})
        self.oracle_fail.append(det)

    def conv(self, variant, ra):
        ans = self.ask("conv %s %s" % (variant, tok(ra)))
        code, spec, tags = ans.split(" # ")
        return parse_sexpr(code), parse_sexpr(spec), ([] if tags == "." else tags.split(","))

    def judge_twin(self, tw, args, variant, ra, rb, da, db_, shape=""):
        """classify one twin case; returns True when the states of A and B may have diverged"""
        rep = self.rep
        name = args[0].decode("latin-1").upper()
        det = {"db": tw.db, "setup": [[hx(x) for x in s] for s in tw.setup],
               "history": [[v] + [hx(x) for x in a] for a, v in tw.history[:-1]],
               "cmd": [hx(x) for x in args], "cmd_text": " ".join(x.decode("latin-1") for x in args)[:160], "variant": variant,
               "script": VARIANTS[variant], "direct_reply_A": show(ra) if ra[0] != "died" else str(ra)}
        if rb[0] == "died":
            det["script_reply_B"] = "connection lost (%s), server alive: %s" % (rb[1], rb[2])
            det["server_log"] = getattr(tw, "crash_log", "") or tw.B.log_tail(800)
            self.fail("twin", "the server %s on a script" % ("closed the connection" if rb[2] else "died"), det)
            return True
        rep.evaluations += 1
        if shape.startswith("form."):
            rep.count(shape)
            self.forms[shape[5:]] = self.forms.get(shape[5:], 0) + 1
        ra = mask_times(name, args, ra)
        if variant in ("raw", "praw"):
            rb = mask_times(name, args, rb)
        elif variant == "wrap" and rb[0] == "a" and len(rb[1]) == 1:
            rb = ("a", [mask_times(name, args, rb[1][0])])
        code, spec, tags = self.conv(variant, ra)
        cn = canon_name(name, args)
        cb, ccode, cspec = canon(cn, rb), canon(cn, code), canon(cn, spec)
        if FAULT == "reply" and name == "LLEN" and rb[0] == "i":
            cb = ("i", rb[1] + 1)
        if name in WINDOW and variant in ("raw", "praw", "wrap"):
            def ints(x):
                return x[1] if x[0] == "i" else (x[1][0][1] if x[0] == "a" and len(x[1]) == 1 and x[1][0][0] == "i" else None)
            ib, ic, isp = ints(cb), ints(ccode), ints(cspec)
            if ib is not None and ic is not None and ib >= 0 and abs(ib - ic) <= WINDOW[name]:
                ccode = cb
            if ib is not None and isp is not None and ib >= 0 and abs(ib - isp) <= WINDOW[name]:
                cspec = cb
        if variant == "len" and cb[0] == "i" and cb != ccode and ra[0] == "a" and self.quirks["nilBulkIsNil"] \
                and any(x[0] in ("nb", "na") for x in ra[1]):
            # `#t` of a table with holes (nil bulks became nil) may be ANY border (Lua 5.1 manual 2.5.5); the model returns the first
            n, xs = cb[1], ra[1]
            hole = lambda i: i < 1 or i > len(xs) or xs[i - 1][0] in ("nb", "na")       # noqa: E731
            if (n == 0 and hole(1)) or (n >= 1 and not hole(n) and hole(n + 1)):
                ccode = cb
                rep.count("twin.len-of-table-with-holes-any-border")
        det.update({"script_reply_B": show(cb), "code_predicts": show(ccode), "spec_prescribes": show(cspec), "tags": tags})
        kind = "err" if ra[0] == "e" else ra[0]
        rep.count("twin.%s.%s" % (name, kind))
        rep.nontrivial(("twin", name, variant, kind, show(cb)[:6], shape[:8]))
        diverged = da != db_
        if diverged:
            det.update({"dump_A": da, "dump_B": db_})
        binary = is_binary(args)
        ok_spec, ok_code = cb == cspec, cb == ccode
        if ra[0] == "e" and rb[0] == "e" and err_class(ra[1]) != err_class(rb[1]) \
                and parity_cause(name, args, ra, rb, tw.db, True, variant) != "script-only-commands":
            rep.count("twin.error-class-differs")
            if parity_cause(name, args, ra, rb, tw.db, True, variant) == "rebuild-lossy" and self.note_known("parity:rebuild-lossy", det):
                pass
            elif not self.note_known("parity:error-class", det):
                self.fail("twin", "error class %s became %s inside a script" % (err_class(ra[1]), err_class(rb[1])), det)
        if ok_spec and not diverged:
            if not ok_code:
                # the standard table is met by coincidence although the executor answered differently from the handler
                cause = parity_cause(name, args, ra, rb, tw.db, True, variant)
                if cause is None or not self.note_known("parity:" + cause, det):
                    self.disagree.append(det)
            return False
        # ---- the property's oracle fails on this case: find out why
        explained = False
        if ok_code and not diverged:
            # the conversion deviations of the model explain it: every switch involved must be a listed finding
            explained = bool(tags) and all(self.note_known("conv:" + t, det) for t in tags)
        elif binary and self.quirks["lossyStrings"]:
            # an argument that is not valid UTF-8 reaches the command altered: reply and effect may both differ
            explained = self.note_known("conv:lossyStrings", det)
        if not explained:
            cause = parity_cause(name, args, ra, rb, tw.db, not diverged, variant)
            if cause is not None:
                rep.count("twin.parity.%s.%s" % (cause, name))
                explained = self.note_known("parity:" + cause, det)
        if not explained:
            why = "datasets of the twins differ after" if diverged else "script reply is not the converted direct reply of"
            self.fail("twin", "%s %s" % (why, det["cmd_text"]), det)
        return diverged or not ok_code


# ----------------------------------------------------------------------------------------------------
# call programs: one description -> Lua source + driver syntax
# ----------------------------------------------------------------------------------------------------
def lua_str(b):
    out = ["'"]
    for c in b:
        if 32 <= c < 127 and c not in (39, 92):
            out.append(chr(c))
        else:
            out.append("\\%03d" % c)
    out.append("'")
    return "".join(out)


def lua_val(v):
    t = v[0]
    if t == "nil":
        return "nil"
    if t == "bool":
        return "true" if v[1] else "false"
    if t == "int":
        return "%d" % v[1] if v[1] >= 0 else "(%d)" % v[1]
    if t == "num":
        return repr(v[1]) if v[1] >= 0 else "(%r)" % v[1]
    if t == "str":
        return lua_str(v[1])
    if t == "tbl":
        return "{" + ", ".join(lua_val(x) for x in v[1]) + "}"
    if t == "err":
        return "{err=%s}" % lua_str(v[1])
    if t == "status":
        return "{ok=%s}" % lua_str(v[1])
    raise ValueError(v)


def drv_val(v):
    t = v[0]
    if t == "nil":
        return "nil"
    if t == "bool":
        return "true" if v[1] else "false"
    if t == "int":
        return "( int %d )" % v[1]
    if t == "num":
        n, d = v[1].as_integer_ratio()
        return "( num %d %d )" % (n, d)
    if t == "str":
        return "( str %s )" % hx(v[1])
    if t == "tbl":
        return "( tbl%s )" % "".join(" " + drv_val(x) for x in v[1])
    return "( %s %s )" % (t, hx(v[1]))


class Prog:
    """steps: [(pcall, [arg])], arg = ('l', bytes) | ('a', i) | ('k', i) | ('u',) (unpack(ARGV), last position only);
    ret = ('res', i) … | ('all',) | ('val', value)"""

    def __init__(self, steps, ret):
        self.steps, self.ret = steps, ret

    def lua(self):
        lines = []
        for i, (pc, args) in enumerate(self.steps, 1):
            xs = []
            for a in args:
                xs.append(lua_str(a[1]) if a[0] == "l" else ("ARGV[%d]" % a[1] if a[0] == "a" else ("KEYS[%d]" % a[1] if a[0] == "k" else "unpack(ARGV)")))
            lines.append("local r%d = redis.%s(%s)" % (i, "pcall" if pc else "call", ", ".join(xs)))
        k = self.ret[0]
        r = self.ret
        if k == "val":
            e = lua_val(r[1])
        elif k == "all":
            e = "{" + ", ".join("r%d" % i for i in range(1, len(self.steps) + 1)) + "}"
        elif k in ("argv", "key"):
            e = "%s[%d]" % ("ARGV" if k == "argv" else "KEYS", r[1])
        elif k in ("lenargv", "lenkey"):
            e = "#%s[%d]" % ("ARGV" if k == "lenargv" else "KEYS", r[1])
        else:
            v = "r%d" % r[1] if 1 <= r[1] <= len(self.steps) else "nil"
            e = {"res": v, "type": "type(%s)" % v, "isfalse": "%s == false" % v, "isnil": "%s == nil" % v,
                 "wrap": "{%s}" % v, "len": "#%s" % v}[k]
        lines.append("return " + e)
        return "\n".join(lines)

    def drv(self):
        st = []
        for pc, args in self.steps:
            xs = []
            for a in args:
                xs.append("l" + hx(a[1]) if a[0] == "l" else ("a%d" % a[1] if a[0] == "a" else ("k%d" % a[1] if a[0] == "k" else "u")))
            st.append("%s:%s" % ("p" if pc else "c", ",".join(xs)))
        r = self.ret
        rt = "all" if r[0] == "all" else ("val " + drv_val(r[1]) if r[0] == "val" else "%s:%d" % (r[0], r[1]))
        return "S " + " ".join(st) + " R " + rt

    def names(self):
        return [a[0][1].decode("latin-1").upper() if a and a[0][0] == "l" else "?" for _, a in self.steps]


RISKY = {"RENAMENX", "SETEX", "PSETEX", "EXPIRE", "PEXPIRE", "FLUSHALL", "FLUSHDB", "DBSIZE", "KEYS", "SPOP", "SRANDMEMBER",
         "RANDOMKEY", "TTL", "PTTL", "ZADD", "XADD", "DECRBY"}


def parity_safe(args):
    """commands on which handler and executor are known to agree and that the key-space model covers fully"""
    name = args[0].decode("latin-1").upper()
    if name in RISKY or name in NEVER:
        return False
    if name == "SET" and len(args) > 3:
        o = [x.upper() for x in args[3:]]
        if len(o) > 1 or o[0] not in (b"NX", b"XX"):
            return False
    if name == "SETRANGE" and len(args) > 2 and (intarg(args[2]) or 0) > 10 ** 6:
        return False
    return True


def gen_program(r, g):
    """a program over parity-safe commands with its KEYS / ARGV; mostly valid UTF-8 arguments"""
    keys, argv, steps = [], [], []
    n = r.choice([1, 1, 2, 2, 3, 4])
    for i in range(n):
        while True:
            args = g.command()
            if parity_safe(args) and (not is_binary(args) or r.chance(1, 6)):
                break
        pc = r.chance(1, 3)
        mode = r.below(4)
        if mode == 0 and i == n - 1 and not argv:
            # the wrapper form: whole command through unpack(ARGV)
            argv = list(args)
            steps.append((pc, [("u",)]))
            continue
        out = [("l", args[0])]
        for j, a in enumerate(args[1:], 1):
            k = r.below(6)
            if k == 0 and j == 1:
                keys.append(a)
                out.append(("k", len(keys)))
            elif k == 1:
                argv.append(a)
                out.append(("a", len(argv)))
            else:
                out.append(("l", a))
        if r.chance(1, 40):
            out.append(("a", len(argv) + 3))        # ARGV out of range: Lua nil as an argument
        steps.append((pc, out))
    k = r.below(16)
    i = r.range(1, n)
    if k < 4:
        ret = ("res", i)
    elif k == 4:
        ret = ("type", i)
    elif k == 5:
        ret = ("isfalse", i)
    elif k == 6:
        ret = ("isnil", i)
    elif k == 7:
        ret = ("wrap", i)
    elif k == 8:
        # `#` of an array reply with nil elements is any border (unspecified): keep `len` away from MGET / HMGET
        first = steps[i - 1][1][0]
        nm = first[1].upper() if first[0] == "l" else b"?"
        ret = ("len", i) if nm not in (b"MGET", b"HMGET", b"?") else ("res", i)
    elif k in (9, 10, 11):
        ret = ("all",)
    elif k == 12 and argv:
        ret = (r.choice(["argv", "lenargv"]), r.range(1, len(argv)))
    elif k == 13 and keys:
        ret = (r.choice(["key", "lenkey"]), r.range(1, len(keys)))
    elif k == 14:
        ret = ("val", gen_value(r, 2))
    else:
        ret = ("res", n)
    return Prog(steps, ret), keys, argv


FLOATS = [3.7, -0.5, 0.1, 1.5, -2.25, 1e-5, 123456.789, 2.0 ** -18, 1e20, -1e20, 0.30000000000000004, 1e300, 5e-324, 2.0 ** 63, 1e15 + 0.5]
STRS = [b"", b"s", b"hello", b"a\r\nb", b"\x00", b"\xff", b"\xc3\xa9", b"x" * 70, b"\xe2\x82", b"OK"]


def gen_value(r, depth):
    k = r.below(12 if depth > 0 else 8)
    if k == 0:
        return ("nil",)
    if k == 1:
        return ("bool", r.chance(1, 2))
    if k in (2, 3):
        return ("int", r.choice([0, 1, -1, 3, 42, -7, 2 ** 31, 2 ** 53 - 1, -(2 ** 53) + 1, 1000000]))
    if k == 4:
        return ("num", r.choice(FLOATS))
    if k in (5, 6):
        return ("str", r.choice(STRS))
    if k == 7:
        return ("err", r.choice([b"E", b"ERR custom"])) if r.chance(1, 2) else ("status", r.choice([b"X", b"OK"]))
    return ("tbl", [gen_value(r, depth - 1) for _ in range(r.choice([0, 1, 2, 3, 3, 4]))])


FIXED_VALUES = [("nil",), ("bool", False), ("bool", True), ("int", 1), ("num", 3.7), ("num", -0.5), ("str", b"s"), ("tbl", []),
                ("tbl", [("int", 1), ("str", b"a"), ("tbl", [("int", 2)])]), ("tbl", [("int", 1), ("nil",), ("int", 3)]),
                ("status", b"X"), ("err", b"E"), ("tbl", [("nil",), ("int", 1)]), ("tbl", [("int", 1), ("tbl", [])]),
                ("tbl", [("num", 1.5), ("bool", True), ("bool", False)]), ("int", 2 ** 53 - 1), ("num", 1e20), ("num", 2.0 ** -18),
                ("str", b""), ("str", b"\xff\x00a"), ("tbl", [("tbl", [("tbl", [])])]), ("num", 2.0 ** 63)]


# ----------------------------------------------------------------------------------------------------
# layers
# ----------------------------------------------------------------------------------------------------
CORPUS = [
    # (db, set-up, command, variant): one case per deviation known on the current tree, run first
    (0, [], [b"GET", b"missing"], "isfalse"),
    (0, [], [b"GET", b"missing"], "type"),
    (0, [], [b"GET", b"missing"], "wrap"),
    (0, [[b"SET", b"k", b"v"], [b"SET", b"n", b"5"]], [b"MGET", b"k", b"missing", b"n"], "raw"),
    (0, [], [b"SET", b"k", b"v"], "raw"),
    (0, [], [b"SET", b"k", b"v"], "type"),
    (0, [], [b"LRANGE", b"nol", b"0", b"-1"], "raw"),
    (0, [[b"SET", b"k", b"v"]], [b"INCR", b"k"], "praw"),
    (0, [[b"SET", b"k", b"v"]], [b"INCR", b"k"], "ptype"),
    (0, [[b"RPUSH", b"l", b"a"]], [b"GET", b"l"], "raw"),
    (0, [], [b"SET", b"bk\xff", b"val\xfe"], "raw"),
    (0, [[b"SET", b"binv", b"\xff\xfe"]], [b"GET", b"binv"], "raw"),
    (0, [[b"SET", b"binv", b"\xff\xfe"]], [b"GET", b"binv"], "len"),
    (0, [[b"SET", b"big", b"9223372036854775806"]], [b"INCRBY", b"big", b"0"], "raw"),
    (0, [[b"SET", b"k1", b"a"], [b"RPUSH", b"l", b"x"]], [b"RENAMENX", b"k1", b"l"], "raw"),
    (0, [[b"SET", b"k1", b"a"]], [b"SET", b"k1", b"b", b"EX", b"100", b"PX", b"100000"], "raw"),
    (0, [[b"SET", b"k1", b"a"]], [b"SET", b"k1", b"b", b"GET"], "raw"),
    (0, [[b"SET", b"k1", b"a"]], [b"SET", b"k1", b"b", b"EX", b"0"], "raw"),
    (0, [[b"SET", b"k1", b"a"]], [b"SETEX", b"k1", b"0", b"b"], "raw"),
    (0, [[b"SET", b"k1", b"a"]], [b"EXPIRE", b"k1", b"-1"], "raw"),
    (0, [[b"SET", b"k1", b"a"]], [b"EXPIRE", b"k1", b"0"], "raw"),
    (0, [[b"SET", b"k1", b"a"]], [b"PEXPIRE", b"k1", b"-5"], "raw"),
    (0, [[b"SET", b"k1", b"a"]], [b"PEXPIRE", b"k1", b"0"], "ptype"),
    (0, [[b"SET", b"k1", b"a"]], [b"PSETEX", b"k1", b"0", b"b"], "raw"),
    (0, [[b"SET", b"k1", b"a"]], [b"SET", b"k1", b"b", b"PX", b"0"], "type"),
    (0, [], [b"DECRBY", b"miss", b"-9223372036854775808"], "raw"),
    (0, [[b"SET", b"k1", b"a"]], [b"FLUSHDB", b"extra"], "raw"),
    (0, [[b"SET", b"k1", b"a"]], [b"DBSIZE", b"extra"], "raw"),
    (0, [[b"SET", b"k1", b"a"]], [b"GETBIT", b"k1", b"1"], "raw"),
    (0, [[b"SET", b"k1", b"a"]], [b"SETBIT", b"k1", b"1", b"0"], "raw"),
    (0, [[b"ZADD", b"z", b"1", b"m"]], [b"ZREMRANGEBYRANK", b"z", b"0", b"0"], "raw"),
    (0, [[b"ZADD", b"z", b"1", b"m"]], [b"ZADD", b"z", b"2", b"a", b"nope", b"b"], "raw"),
    (0, [[b"ZADD", b"z", b"1", b"m"]], [b"ZADD", b"z", b"nan", b"n"], "raw"),
    (0, [], [b"ZINCRBY", b"z2", b"nan", b"b"], "raw"),
    (0, [], [b"ZPOPMIN", b"miss"], "type"),
    (0, [], [b"ZPOPMAX", b"miss"], "ptype"),
    (0, [[b"SET", b"k1", b"a"]], [b"SET", b"k1", b"b", b"EX", b"9223372036854775808"], "raw"),
    (0, [[b"SET", b"k1", b"a"]], [b"SET", b"k1", b"b", b"PX", b"18446744073709551615"], "raw"),
    (0, [[b"SET", b"k1", b"a"]], [b"SET", b"k1", b"b", b"KEEPTTL"], "raw"),
    (0, [[b"SET", b"k1", b"a"]], [b"SET", b"k1", b"b", b"NX", b"XX"], "raw"),
    (0, [[b"SET", b"k1", b"a"]], [b"SET", b"k1", b"b", b"PX", b"-1"], "raw"),
    (0, [[b"SET", b"k1", b"a"]], [b"SETEX", b"k1", b"9223372036854775808", b"b"], "raw"),
    (0, [[b"SET", b"k1", b"a"]], [b"PSETEX", b"k1", b"18446744073709551615", b"b"], "raw"),
    (0, [[b"SET", b"k1", b"a"]], [b"SETEX", b"k1", b"-1", b"b"], "raw"),
    (0, [[b"SET", b"k1", b"a"]], [b"EXPIRE", b"k1", b"9223372036854775808"], "raw"),
    (0, [[b"SET", b"k1", b"a"]], [b"PEXPIRE", b"k1", b"9223372036854775808"], "raw"),
    (0, [], [b"EXPIRE", b"miss", b"-1"], "raw"),
    (0, [], [b"PEXPIRE", b"miss", b"-1"], "raw"),
    (0, [[b"SET", b"k1", b"a"]], [b"SETRANGE", b"k1", b"9223372036854775808", b"x"], "raw"),
    (0, [[b"SET", b"k1", b"a"]], [b"SETRANGE", b"k1", b"-1", b"x"], "raw"),
    (0, [[b"ZADD", b"z", b"1", b"a", b"2", b"b"]], [b"ZPOPMIN", b"z", b"9223372036854775808"], "raw"),
    (0, [[b"ZADD", b"z", b"1", b"a", b"2", b"b"]], [b"ZPOPMAX", b"z", b"18446744073709551615"], "raw"),
    (0, [[b"ZADD", b"z", b"1", b"a", b"2", b"b"]], [b"ZPOPMIN", b"z", b"0"], "type"),
    (0, [[b"ZADD", b"z", b"1", b"a", b"2", b"b"]], [b"ZPOPMAX", b"z", b"-1"], "raw"),
    (0, [[b"ZADD", b"z", b"1", b"a", b"2", b"b"]], [b"ZPOPMIN", b"z", b"5"], "raw"),
    (0, [[b"ZADD", b"z", b"inf", b"a"]], [b"ZINCRBY", b"z", b"-inf", b"a"], "raw"),
    (0, [[b"SET", b"k1", b"a"]], [b"ZADD", b"k1", b"1", b"m"], "raw"),
    # SPOP / SRANDMEMBER are random in general; on a one-member set (or a missing key) they are not
    (0, [[b"SADD", b"s", b"m"]], [b"SPOP", b"s"], "raw"),
    (0, [[b"SADD", b"s", b"m"]], [b"SPOP", b"s", b"1"], "raw"),
    (0, [[b"SADD", b"s", b"m"]], [b"SPOP", b"s", b"0"], "raw"),
    (0, [[b"SADD", b"s", b"m"]], [b"SPOP", b"s", b"5"], "raw"),
    (0, [[b"SADD", b"s", b"m"]], [b"SPOP", b"s", b"-1"], "raw"),
    (0, [[b"SADD", b"s", b"m"]], [b"SPOP", b"s", b"9223372036854775808"], "raw"),
    (0, [], [b"SPOP", b"miss"], "type"),
    (0, [], [b"SPOP", b"miss", b"2"], "type"),
    (0, [[b"SET", b"k1", b"a"]], [b"SPOP", b"k1"], "raw"),
    (0, [[b"SADD", b"s", b"m"]], [b"SRANDMEMBER", b"s"], "raw"),
    (0, [[b"SADD", b"s", b"m"]], [b"SRANDMEMBER", b"s", b"1"], "raw"),
    (0, [[b"SADD", b"s", b"m"]], [b"SRANDMEMBER", b"s", b"-3"], "raw"),
    (0, [[b"SADD", b"s", b"m"]], [b"SRANDMEMBER", b"s", b"0"], "raw"),
    (0, [[b"SADD", b"s", b"m"]], [b"SRANDMEMBER", b"s", b"9223372036854775808"], "raw"),
    (0, [], [b"SRANDMEMBER", b"miss"], "type"),
    (0, [], [b"SRANDMEMBER", b"miss", b"2"], "type"),
    (0, [[b"SET", b"k1", b"a"]], [b"FLUSHALL", b"extra"], "raw"),
    (0, [[b"SET", b"k1", b"a"]], [b"RANDOMKEY", b"extra"], "raw"),
    (0, [[b"SET", b"k1", b"a"]], [b"SAVE", b"extra"], "raw"),
    (0, [[b"SET", b"k1", b"a"]], [b"BGSAVE", b"extra"], "raw"),
    (0, [[b"SET", b"k1", b"a"]], [b"LASTSAVE", b"extra"], "raw"),
    (0, [[b"RPUSH", b"l", b"a"]], [b"INCR", b"l"], "raw"),
    (0, [[b"RPUSH", b"l", b"a"]], [b"SADD", b"l", b"x"], "praw"),
    (0, [[b"RPUSH", b"l", b"a"]], [b"HGET", b"l", b"f"], "raw"),
    (0, [[b"RPUSH", b"l", b"a"]], [b"MGET", b"l"], "raw"),
    (0, [[b"SET", b"k1", b"a"]], [b"LPUSH", b"k1", b"x"], "raw"),
    (0, [[b"SET", b"k1", b"a"]], [b"ZSCORE", b"k1", b"m"], "raw"),
    (5, [[b"SET", b"k1", b"a"]], [b"FLUSHDB"], "raw"),
    (5, [[b"SET", b"k1", b"a"]], [b"DBSIZE"], "raw"),
    (5, [[b"SET", b"k1", b"a"]], [b"KEYS", b"*"], "raw"),
    (3, [[b"SET", b"k1", b"a"]], [b"APPEND", b"k1", b"b"], "raw"),
    (15, [[b"RPUSH", b"l", b"a", b"b"]], [b"LRANGE", b"l", b"0", b"-1"], "wrap"),
]


# ---- the CASE of the command name and of option words is a dimension of every twin command (both sides get the same text)
OPTION_WORDS = {b"NX", b"XX", b"EX", b"PX", b"GET", b"KEEPTTL", b"EXAT", b"CH", b"INCR", b"GT", b"LT", b"WITHSCORES", b"LIMIT", b"REV", b"BYSCORE",
                b"COUNT", b"MATCH", b"TYPE", b"NOVALUES", b"MAXLEN", b"MINID", b"STREAMS", b"GROUP", b"NOACK", b"BLOCK", b"JUSTID", b"FORCE", b"IDLE",
                b"TIME", b"RETRYCOUNT", b"MKSTREAM", b"NOMKSTREAM", b"CREATE", b"DESTROY", b"SETID", b"DELCONSUMER", b"CREATECONSUMER", b"STREAM",
                b"GROUPS", b"CONSUMERS"}
CASES3 = ["upper", "lower", "mixed"]


def mix(b):
    return bytes((c | 0x20) if i % 2 else (c & 0xDF) for i, c in enumerate(b)) if b.isalpha() else b


def recase(args, how):
    """the command name, and every argument that is an option word of the command's syntax, in upper / lower / mixed case
    (option words are recognised by spelling, in whatever case the generator wrote them; data arguments are left alone)"""
    f = {"upper": bytes.upper, "lower": bytes.lower, "mixed": mix}[how]
    return [f(args[0])] + [f(a) if a.upper() in OPTION_WORDS and a.isalpha() else a for a in args[1:]]


G1 = [[b"XREADGROUP", b"GROUP", b"g", b"c1", b"STREAMS", b"s1", b">"]]       # delivers s1's two entries to c1
FORM_CORPUS = [
    # (extra set-up after FORMS_SETUP, command, form tag): the multi-key / option forms, one deterministic case each
    ([], [b"XREAD", b"STREAMS", b"s1", b"s2", b"1-1", b"0"], "XREAD.2keys"),
    ([], [b"XREAD", b"COUNT", b"1", b"STREAMS", b"s1", b"s2", b"0", b"0"], "XREAD.2keys.count"),
    ([], [b"XREAD", b"STREAMS", b"s1", b"s2", b"x", b"0", b"1-5", b"0"], "XREAD.3keys"),
    ([], [b"XREAD", b"COUNT", b"2", b"STREAMS", b"s2", b"miss", b"s1", b"0", b"0", b"$"], "XREAD.3keys.count"),
    ([], [b"XREAD", b"STREAMS", b"s1", b"s2", b"0"], "XREAD.2keys.unbalanced"),
    ([], [b"XREADGROUP", b"GROUP", b"g", b"c1", b"STREAMS", b"s1", b">"], "XREADGROUP.1keys"),
    ([], [b"XREADGROUP", b"GROUP", b"g", b"c1", b"STREAMS", b"s1", b"s2", b">", b">"], "XREADGROUP.2keys"),
    ([], [b"XREADGROUP", b"GROUP", b"g", b"c1", b"COUNT", b"1", b"STREAMS", b"s1", b"s2", b">", b">"], "XREADGROUP.2keys.count"),
    (G1, [b"XREADGROUP", b"GROUP", b"g", b"c1", b"STREAMS", b"s1", b"s2", b"0", b">"], "XREADGROUP.2keys"),
    ([], [b"XREADGROUP", b"GROUP", b"g", b"c1", b"COUNT", b"1", b"NOACK", b"STREAMS", b"s1", b">"], "XREADGROUP.1keys.count.noack"),
    ([], [b"XADD", b"s1", b"5-0", b"f", b"v", b"g", b"w", b"h", b""], "XADD.3pairs"),
    ([], [b"XADD", b"s1", b"MAXLEN", b"1", b"5-0", b"f", b"v"], "XADD.1pairs.maxlen"),
    ([], [b"XRANGE", b"s1", b"-", b"+", b"COUNT", b"1"], "XRANGE.count"),
    ([], [b"XREVRANGE", b"s2", b"+", b"-", b"COUNT", b"1"], "XREVRANGE.count"),
    ([], [b"XDEL", b"s1", b"1-1", b"2-1", b"9-9"], "XDEL.3ids"),
    (G1, [b"XACK", b"s1", b"g", b"1-1", b"2-1", b"9-9"], "XACK.3ids"),
    (G1, [b"XPENDING", b"s1", b"g"], "XPENDING.summary"),
    (G1, [b"XPENDING", b"s1", b"g", b"-", b"+", b"10"], "XPENDING.range"),
    (G1, [b"XPENDING", b"s1", b"g", b"-", b"+", b"10", b"c2"], "XPENDING.range.consumer"),
    (G1, [b"XCLAIM", b"s1", b"g", b"c2", b"0", b"1-1", b"2-1"], "XCLAIM.2ids"),
    (G1, [b"XCLAIM", b"s1", b"g", b"c2", b"0", b"1-1", b"JUSTID"], "XCLAIM.1ids.justid"),
    ([], [b"XCLAIM", b"s1", b"g", b"c2", b"0", b"1-1", b"FORCE"], "XCLAIM.1ids.force"),
    ([], [b"XGROUP", b"CREATE", b"snew", b"g2", b"$", b"MKSTREAM"], "XGROUP.create.mkstream"),
    ([], [b"XGROUP", b"SETID", b"s1", b"g", b"1-1"], "XGROUP.setid"),
    (G1, [b"XINFO", b"CONSUMERS", b"s1", b"g"], "XINFO.consumers"),
    ([], [b"ZADD", b"z", b"5", b"a", b"6", b"d", b"7", b"e"], "ZADD.3pairs"),
    ([], [b"ZRANGE", b"z", b"0", b"-1", b"WITHSCORES"], "ZRANGE.withscores"),
    ([], [b"ZREVRANGE", b"z", b"0", b"1", b"WITHSCORES"], "ZREVRANGE.withscores"),
    ([], [b"ZRANGEBYSCORE", b"z", b"(1", b"+inf", b"WITHSCORES"], "ZRANGEBYSCORE.exclusive.inf.withscores"),
    ([], [b"ZRANGEBYSCORE", b"z", b"-inf", b"3", b"LIMIT", b"1", b"1"], "ZRANGEBYSCORE.inf.limit"),
    ([], [b"ZCOUNT", b"z", b"(2", b"(3"], "ZCOUNT.exclusive"),
    ([], [b"SUNION", b"sa", b"sb", b"miss"], "SUNION.3keys.missing"),
    ([], [b"SINTER", b"sa", b"sb"], "SINTER.2keys"),
    ([], [b"SINTER", b"sa", b"sb", b"k1"], "SINTER.3keys.wrongtype"),
    ([], [b"SDIFF", b"sa", b"miss", b"sb"], "SDIFF.3keys.missing"),
    ([], [b"SDIFF", b"sa", b"sa"], "SDIFF.2keys.repeat"),
    ([], [b"MSET", b"ka", b"1", b"ka", b"2", b"kc", b"3"], "MSET.3pairs.repeat"),
    ([], [b"MGET", b"ka", b"ka", b"kb"], "MGET.3keys.repeat"),
    ([], [b"DEL", b"ka", b"ka", b"miss", b"kb"], "DEL.4keys.repeat"),
    ([], [b"EXISTS", b"ka", b"ka", b"miss", b"kb"], "EXISTS.4keys.repeat"),
    ([], [b"HMGET", b"hh", b"f1", b"nope", b"f3"], "HMGET.3fields.missing-in-middle"),
    ([], [b"HSET", b"hh", b"g1", b"1", b"g1", b"2", b"f1", b"9"], "HSET.3pairs.repeat"),
    ([], [b"HDEL", b"hh", b"f1", b"nope", b"f3"], "HDEL.3fields"),
    ([], [b"LPUSH", b"ll", b"a", b"b", b"c"], "LPUSH.3elems"),
    ([], [b"RPUSH", b"lnew", b"a", b"b", b"c", b"a"], "RPUSH.4elems"),
    ([], [b"SET", b"ka", b"v", b"XX", b"PX", b"1000000"], "SET.xx+px"),
    ([], [b"SET", b"ka", b"v", b"NX", b"EX", b"1000"], "SET.nx+ex"),
    ([], [b"SCAN", b"0", b"MATCH", b"k*", b"COUNT", b"100"], "SCAN.match.count"),
    ([], [b"SCAN", b"0", b"COUNT", b"3"], "SCAN.count"),
    ([], [b"HSCAN", b"hh", b"0", b"MATCH", b"f*", b"COUNT", b"10"], "HSCAN.match.count"),
    ([], [b"HSCAN", b"hh", b"0", b"NOVALUES"], "HSCAN.novalues"),
    ([], [b"SSCAN", b"sa", b"0", b"MATCH", b"a*", b"COUNT", b"10"], "SSCAN.match.count"),
    ([], [b"ZSCAN", b"z", b"0", b"MATCH", b"*", b"COUNT", b"2"], "ZSCAN.match.count"),
]


def layer_twin(ck, r, n_hist, per_hist):
    rep = ck.rep
    tw = Twin(ck.drv)
    try:
        def one(args, variant, shape="", case=None):
            if case is not None:
                args = recase(args, case)
                rep.count("case." + case)
                ck.cases[case] = ck.cases.get(case, 0) + 1
            ra, rb = tw.run(args, variant)
            if rb[0] == "died":
                ck.judge_twin(tw, args, variant, ra, rb, "", "")
                if not tw.B.alive():
                    tw.restart_b()
                else:
                    tw.b.close()
                    tw.b = tw.B.client()
                return True
            da, db_ = tw.dumps()
            return ck.judge_twin(tw, args, variant, ra, rb, da, db_, shape)
        for i, (db, setup, cmd, variant) in enumerate(CORPUS):
            for case in ("upper", CASES3[1 + i % 2]):
                tw.fresh(db, setup)
                one(cmd, variant, "corpus", case)
        base = [[b"SET", b"k1", b"v"], [b"ZADD", b"z", b"1", b"a", b"2", b"b", b"3", b"c"], [b"XADD", b"x", b"1-1", b"f", b"v"]] + FORMS_SETUP
        for i, (extra, cmd, tag) in enumerate(FORM_CORPUS):
            for j, variant in enumerate(("raw", "ptype" if i % 2 else "wrap", "raw")):
                tw.fresh(5 if i % 3 == 2 else 0, base + extra)
                one(cmd, variant, "form." + tag, CASES3[(i + j) % 3] if j < 2 else CASES3[(i + 2) % 3])
        for h in range(n_hist):
            rr = r.fork("twin%d" % h)
            g = ksgen.Gen(rr, ksgen.STRING_VOCAB + ksgen.COLL_VOCAB)
            db = rr.choice([0, 0, 1, 5, 9, 15])
            setup = g.setup() + [[b"SET", b"bc", b"abc"], [b"ZADD", b"z", b"2", b"a", b"3", b"b"]] + FORMS_SETUP
            tw.fresh(db, setup)
            for i in range(per_hist):
                args, shape = gen_command(rr, g)
                variant = rr.choice(VARIANT_PICK)
                if one(args, variant, shape, rr.choice(["upper", "upper", "lower", "mixed"])):
                    tw.fresh(db, setup)          # the twins may have diverged: start again from the common set-up
            rep.traces_validated += 1
            if h < 2:
                rep.sample({"twin_history_db%d" % db: ["%s [%s]" % (" ".join(repr(x.decode("latin-1")) for x in a)[:80], v) for a, v in tw.history[:12]]})
        rep.extra["twin_server_restarts"] = tw.restarts
    finally:
        tw.close()


class Single:
    """one server next to the model store"""

    def __init__(self, ck):
        self.ck = ck
        self.srv = Server("c12s")
        self.cli = self.srv.client()
        self.db = 0

    def close(self):
        self.cli.close()
        if getattr(self, "cli0", None):
            self.cli0.close()
        self.srv.stop()

    def fresh(self, db, setup):
        ck = self.ck
        if self.cli.cmd("FLUSHALL") != ("s", b"OK") or self.cli.cmd("SCRIPT", "FLUSH") != ("s", b"OK"):
            raise InternalError("FLUSHALL / SCRIPT FLUSH failed")
        if self.cli.cmd("SELECT", str(db)) != ("s", b"OK"):
            raise InternalError("SELECT failed")
        ck.ask("reset", "ok")
        self.db = db
        self.setup = [list(s) for s in setup]
        for s in setup:
            ri = self.cli.cmd(*s)
            rm = ck.ask("cmd %d %d %s" % (db, ck.now(), " ".join(hx(a) for a in s)))
            if show(canon(s[0].decode().upper(), ri)) != rm and not (ri[0] == "e" and rm == "( e )"):
                raise InternalError("set-up command disagrees between server and key-space model: %r -> %r vs %s" % (s, ri, rm))

    def restart(self):
        self.cli.close()
        if getattr(self, "cli0", None):
            self.cli0.close()
            self.cli0 = None
        self.srv.stop()
        self.srv = Server("c12s")
        self.cli = self.srv.client()

    def dump_model(self):
        d = self.ck.ask("dump %d %d" % (self.db, self.ck.now()))
        if self.db != 0:
            d += " || db0: " + self.ck.ask("dump 0 %d" % self.ck.now())
        return d

    def dump_impl(self):
        d = self.dump_one(self.cli)
        if self.db != 0:
            if getattr(self, "cli0", None) is None:
                self.cli0 = self.srv.client()
            d += " || db0: " + self.dump_one(self.cli0)
        return d

    def dump_one(self, c):
        # the model's dump format (lib/ks.py): zset sorted by member, stream as a count
        keys = c.cmd("KEYS", "*")
        out = []
        for k in sorted(x[1] for x in keys[1]):
            t = c.cmd("TYPE", k)[1].decode()
            if t == "string":
                v = "string " + hx(c.cmd("GET", k)[1])
            elif t == "list":
                xs = c.cmd("LRANGE", k, "0", "-1")[1]
                v = "list " + ("|".join(hx(x[1]) for x in xs) if xs else ".")
            elif t == "set":
                xs = sorted(x[1] for x in c.cmd("SMEMBERS", k)[1])
                v = "set " + ("|".join(hx(x) for x in xs) if xs else ".")
            elif t == "hash":
                fl = c.cmd("HGETALL", k)[1]
                ps = sorted((fl[i][1], fl[i + 1][1]) for i in range(0, len(fl), 2))
                v = "hash " + ("|".join(hx(f) + "=" + hx(x) for f, x in ps) if ps else ".")
            elif t == "zset":
                fl = c.cmd("ZRANGE", k, "0", "-1", "WITHSCORES")[1]
                ps = sorted((fl[i][1], fl[i + 1][1]) for i in range(0, len(fl), 2))
                v = "zset " + ("|".join(hx(f) + "=" + hx(x) for f, x in ps) if ps else ".")
            elif t == "stream":
                v = "stream %d" % c.cmd("XLEN", k)[1]
            else:
                v = "type-" + t
            ttl = c.cmd("PTTL", k)
            out.append("%s %s %s" % (hx(k), v, "ttl" if ttl[0] == "i" and ttl[1] >= 0 else "nottl"))
        return " ; ".join(out) if out else "."


def deep_sort(r):
    if r[0] != "a":
        return r
    xs = [deep_sort(x) for x in r[1]]
    if all(x[0] in ("b", "nb") for x in xs):
        xs = sorted(xs, key=show)
    return ("a", xs)


def run_program(ck, sg, prog, keys, argv, layer, via_sha=None, extra=None):
    """EVAL (or EVALSHA) of one program on the single server and on the model; classification. True = diverged"""
    rep = ck.rep
    src = prog.lua()
    now = ck.now()
    try:
        if via_sha is None:
            ri = sg.cli.cmd("EVAL", src, str(len(keys)), *(keys + argv))
        else:
            ri = sg.cli.cmd("EVALSHA", via_sha, str(len(keys)), *(keys + argv))
    except (Closed, TimeoutError, ProtocolError, OSError) as e:
        time.sleep(0.3)
        ck.fail(layer, "the server closed the connection or died on a script",
                {"db": sg.db, "setup": [[hx(x) for x in s] for s in sg.setup], "script": src, "program": prog.drv(), "keys": [hx(k) for k in keys],
                 "argv": [hx(a) for a in argv], "server_alive": sg.srv.alive(), "server_log": sg.srv.log_tail(800)})
        sg.restart()
        return True
    hl = lambda xs: "|".join(hx(x) for x in xs) if xs else "."
    if via_sha is None:
        ans = ck.ask("eval %d %d K %s A %s %s" % (sg.db, now, hl(keys), hl(argv), prog.drv()))
    else:
        ans = ck.ask("evalsha %d %d %s K %s A %s" % (sg.db, now, hx(via_sha.encode()), hl(keys), hl(argv)))
    code, spec, same, tags = ans.split(" # ")
    tags = [] if tags == "." else tags.split(",")
    unordered = any(n in UNORDERED or n in PAIRS or n == "?" for n in prog.names())
    ci, cc, cs = norm(ri), parse_sexpr(code), parse_sexpr(spec)
    if unordered:
        ci, cc, cs = deep_sort(ci), deep_sort(cc), deep_sort(cs)
    if FAULT == "program" and ri[0] == "i":
        ci = ("i", ri[1] + 1)
    rep.evaluations += 1
    di, dm = sg.dump_impl(), sg.dump_model()
    det = {"db": sg.db, "setup": [[hx(x) for x in s] for s in sg.setup], "script": src, "program": prog.drv(),
           "keys": [hx(k) for k in keys], "argv": [hx(a) for a in argv], "evalsha": via_sha,
           "server_reply": show(ci), "code_predicts": show(cc), "spec_prescribes": show(cs), "spec_store": same, "tags": tags}
    if extra:
        det.update(extra)
    rep.count("%s.%s" % (layer, "err" if ri[0] == "e" else ri[0]))
    rep.nontrivial((layer, tuple(prog.names()), prog.ret[0], show(ci)[:6], tuple(sorted(tags))))
    ok_code = show(ci) == show(cc) and di == dm
    ok_spec = show(ci) == show(cs) and same == "same" and di == dm
    if di != dm:
        det.update({"dump_server": di, "dump_model": dm})
    if ok_spec:
        if not ok_code:
            ck.disagree.append(det)
        return di != dm
    if ok_code and tags and all(ck.note_known("conv:" + t, det) for t in tags):
        return False
    ck.fail(layer, "script reply / effect is not what the %s prescribes" % ("model predicts nor what the property" if not ok_code else "property"), det)
    return True


def layer_programs(ck, r, n_hist, per_hist):
    rep = ck.rep
    sg = Single(ck)
    try:
        # fixed programs first: error after a write (call aborts, write persists), pcall continues
        L = lambda *xs: [("l", x) for x in xs]
        fixed = [
            (Prog([(False, L(b"SET", b"w", b"1")), (False, L(b"INCR", b"l")), (False, L(b"SET", b"w2", b"1"))], ("val", ("int", 1))), [], []),
            (Prog([(False, L(b"SET", b"w", b"1")), (True, L(b"INCR", b"l")), (False, L(b"SET", b"w2", b"1"))], ("all",)), [], []),
            (Prog([(False, L(b"RPUSH", b"l", b"x")), (False, L(b"LPUSH", b"k1", b"y"))], ("res", 1)), [], []),
            (Prog([(True, L(b"LPUSH", b"k1", b"y"))], ("type", 1)), [], []),
            (Prog([(True, L(b"LPUSH", b"k1", b"y"))], ("isnil", 1)), [], []),
            (Prog([(False, [("l", b"SET"), ("k", 1), ("a", 1)])], ("res", 1)), [b"key\xff"], [b"val\xfe\x00"]),
            (Prog([(False, [("l", b"SET"), ("l", b"bin"), ("l", b"\xff\xfe")])], ("res", 1)), [], []),
            (Prog([(True, [("l", b"SET"), ("l", b"bin"), ("l", b"\xff\xfe")])], ("res", 1)), [], []),
            (Prog([], ("argv", 1)), [], [b"\xff\x00a"]),
            (Prog([], ("lenargv", 1)), [], [b"\xff\x00a"]),
            (Prog([], ("key", 1)), [b"\xff\x00a"], []),
            (Prog([], ("lenkey", 1)), [b"\xc3\xa9"], []),
            (Prog([], ("argv", 2)), [], [b"only-one"]),
            (Prog([(False, [("u",)])], ("res", 1)), [], []),
            (Prog([(False, [("l", b"GET"), ("a", 4)])], ("res", 1)), [], [b"x"]),
            (Prog([(True, [("l", b"GET"), ("a", 4)])], ("type", 1)), [], [b"x"]),
            (Prog([(False, L(b"get", b"k1"))], ("res", 1)), [], []),
        ]
        base = [[b"SET", b"k1", b"v"], [b"RPUSH", b"l", b"a", b"b"], [b"SADD", b"s", b"m"], [b"HSET", b"h", b"f1", b"1"]]
        for db in (0, 7):
            for prog, keys, argv in fixed:
                sg.fresh(db, base)
                run_program(ck, sg, prog, keys, argv, "program")
        for h in range(n_hist):
            rr = r.fork("prog%d" % h)
            g = ksgen.Gen(rr, ksgen.STRING_VOCAB + ksgen.COLL_VOCAB)
            db = rr.choice([0, 0, 2, 11])
            setup = [s for s in g.setup() if s[0] not in (b"ZADD", b"XADD")] + [[b"ZADD", b"z", b"1", b"m"], [b"XADD", b"x", b"1-1", b"f", b"v"]]
            sg.fresh(db, setup)
            for i in range(per_hist):
                prog, keys, argv = gen_program(rr, g)
                if run_program(ck, sg, prog, keys, argv, "program"):
                    sg.fresh(db, setup)
            rep.traces_validated += 1
            if h < 1:
                rep.sample({"program_sample": prog.lua().split("\n")})
        # ---- return-value shapes
        sg.fresh(0, [])
        vals = FIXED_VALUES + [gen_value(r.fork("val%d" % i), 3) for i in range(60 if ck.tier == "quick" else 1500)]
        for v in vals:
            run_program(ck, sg, Prog([], ("val", v)), [], [], "values")
        # ---- KEYS / ARGV contents
        for i in range(40 if ck.tier == "quick" else 600):
            rr = r.fork("arg%d" % i)
            b = rr.choice([rr.bytes(rr.range(0, 6)), rr.choice(STRS), bytes(rr.choice(b"a\xc3\xa9\xe2\x82\xac\xf0\x9f\x98\x80\xff\xc0\xed\xa0") for _ in range(rr.range(1, 7)))])
            kind = rr.choice(["argv", "lenargv", "key", "lenkey"])
            if kind in ("argv", "lenargv"):
                run_program(ck, sg, Prog([], (kind, 1)), [], [b], "values")
            else:
                run_program(ck, sg, Prog([], (kind, 1)), [b], [], "values")
        # ---- EVALSHA == EVAL: the same program by EVAL and, from the same fresh state, by SCRIPT LOAD + EVALSHA;
        #      the model's `evalsha` (cache lookup, then `eval`) predicts, `Spec` (= EVAL on the selected database) judges
        for i in range(14 if ck.tier == "quick" else 300):
            rr = r.fork("sha%d" % i)
            g = ksgen.Gen(rr, ksgen.STRING_VOCAB + ksgen.COLL_VOCAB)
            db = rr.choice([0, 1, 4, 15])
            setup = [[b"SET", b"k1", b"v"], [b"RPUSH", b"l", b"a"]]
            if i == 0:
                db, prog, keys, argv = 3, Prog([(False, [("l", b"SET"), ("k", 1), ("a", 1)])], ("res", 1)), [b"shakey"], [b"v"]
            else:
                prog, keys, argv = gen_program(rr, g)
            src = prog.lua()
            sha = hashlib.sha1(src.encode()).hexdigest()
            sg.fresh(db, setup)
            run_program(ck, sg, prog, keys, argv, "evalsha", extra={"step": "EVAL"})
            sg.fresh(db, setup)
            got = sg.cli.cmd("SCRIPT", "LOAD", src)
            rep.evaluations += 1
            if got != ("b", sha.encode()):
                ck.fail("evalsha", "SCRIPT LOAD did not return the SHA-1 of the source", {"script": src, "reply": str(got), "sha1": sha})
                continue
            ck.ask("load %s %s" % (hx(sha.encode()), prog.drv()), "ok")
            ex = sg.cli.cmd("SCRIPT", "EXISTS", sha, "0" * 40)
            if ex != ("a", [("i", 1), ("i", 0)]):
                ck.fail("evalsha", "SCRIPT EXISTS wrong", {"reply": str(ex)})
            run_program(ck, sg, prog, keys, argv, "evalsha", via_sha=sha, extra={"step": "EVALSHA", "sha1": sha})
        # unknown sha
        sg.fresh(0, [])
        got = sg.cli.cmd("EVALSHA", "f" * 40, "0")
        rep.evaluations += 1
        if not (got[0] == "e" and got[1].startswith(b"NOSCRIPT")):
            ck.fail("evalsha", "EVALSHA of an unknown SHA did not answer NOSCRIPT", {"reply": str(got)})
    finally:
        sg.close()


# ----------------------------------------------------------------------------------------------------
# the script cache: the handle of a script is SHA1(source), computed by the CLIENT (hashlib here), for every shape of source text
# ----------------------------------------------------------------------------------------------------
SCRIPT_BODIES = [
    ("rpush-llen", b"redis.call('RPUSH', KEYS[1], ARGV[1])\nreturn {redis.call('LLEN', KEYS[1]), ARGV[1]}", [b"lst"], [b"a"]),
    ("incr", b"return redis.call('INCRBY', KEYS[1], ARGV[1])", [b"cnt"], [b"5"]),
    ("pure", b"return {1, 'two', {3}}", [], []),
    ("failing-call", b"redis.call('SET', 'w', '1')\nreturn redis.call('INCR', 'l0')", [], []),
]


def text_shapes(body):
    """(shape tag, source bytes): the same chunk in every shape of surrounding / embedded text"""
    crlf = body.replace(b"\n", b"\r\n")
    return [
        ("plain", body),
        ("leading-space", b"  " + body), ("trailing-space", body + b"   "), ("leading-tab", b"\t" + body), ("trailing-tab", body + b"\t"),
        ("leading-newline", b"\n" + body), ("trailing-newline", body + b"\n"), ("both-newlines", b"\n\n" + body + b"\n\n"),
        ("crlf-lines", crlf), ("trailing-crlf", crlf + b"\r\n"), ("leading-crlf", b"\r\n" + crlf), ("trailing-cr", body + b"\r"),
        ("indented-heredoc", b"\n    " + body.replace(b"\n", b"\n    ") + b"\n  "),
        ("leading-comment", b"-- a comment\n" + body), ("trailing-comment", body + b" -- trailing comment"),
        ("trailing-comment-newline", body + b"\n-- done\n"), ("block-comment", b"--[[ block\ncomment ]] " + body),
        ("blank-lines-inside", body.replace(b"\n", b"\n\n\n")), ("vertical-tab-formfeed", b"\x0b\x0c" + body + b"\x0c"),
        ("utf8-in-comment", b"-- \xc3\xa9\xe2\x82\xac\n" + body + b"\n-- \xf0\x9f\x98\x80"),
        ("nul-in-comment", b"-- a\x00b\n" + body), ("nul-in-string", b"local z = 'a\x00b'\n" + body),
        ("trailing-nul", body + b"\x00"), ("invalid-utf8", b"-- \xff\xfe\n" + body), ("semicolons", b";" + body if False else body + b";"),
        ("very-long", b"local x = 0\n" + b"x = x + 1 -- padding padding padding padding\n" * 3000 + body),
    ]


EXTRA_SOURCES = [("empty", b"", [], []), ("blank-only", b" \n\t\r\n", [], []), ("comment-only", b"-- nothing\n", [], []),
                 ("syntax-error", b"return return", [], []), ("syntax-error-padded", b"\n return ( \n", [], []),
                 ("runtime-error", b" error('boom') ", [], []), ("return-only-padded", b"\n\nreturn 7\n\n", [], [])]


def layer_script_cache(ck, r):
    """EVALSHA sha1(source) == EVAL source, SCRIPT LOAD answers sha1(source), SCRIPT EXISTS knows it, for every shape of source text;
    a hash that was never loaded, or was flushed, is NOSCRIPT without effect"""
    rep = ck.rep
    srv = Server("c12h")
    c = srv.client()
    shapes = {}
    try:
        cases = []
        for bi, (bname, body, keys, argv) in enumerate(SCRIPT_BODIES):
            for tag, src in text_shapes(body):
                if ck.tier == "quick" and bi >= 2 and tag not in ("plain", "trailing-newline", "leading-space", "crlf-lines", "indented-heredoc"):
                    continue
                cases.append((bname + "." + tag, src, keys, argv))
        cases += [(t, s_, k, a) for t, s_, k, a in EXTRA_SOURCES]
        for n, (tag, src, keys, argv) in enumerate(cases):
            db = [0, 6, 0, 15][n % 4]
            sha = hashlib.sha1(src).hexdigest()
            shape = tag.split(".")[-1]
            shapes[shape] = shapes.get(shape, 0) + 1
            rep.count("script-text." + shape)
            det = {"layer": "script-cache", "source_hex": hx(src), "source_repr": repr(src[:160]), "sha1_of_source": sha, "keys": [hx(k) for k in keys],
                   "argv": [hx(a) for a in argv], "db": db, "text_shape": tag}

            def fresh():
                if c.cmd("FLUSHALL") != ("s", b"OK") or c.cmd("SCRIPT", "FLUSH") != ("s", b"OK") or c.cmd("SELECT", str(db)) != ("s", b"OK"):
                    raise InternalError("FLUSHALL / SCRIPT FLUSH / SELECT failed")
                c.cmd("RPUSH", "l0", "x")
            tail = [str(len(keys))] + keys + argv
            # (1) EVAL of the source
            fresh()
            r_eval = norm(c.cmd("EVAL", src, *tail))
            d_eval = dump(c)
            # (2) never loaded: NOSCRIPT, nothing changes, SCRIPT EXISTS 0
            fresh()
            d0 = dump(c)
            never = c.cmd("EVALSHA", sha, *tail)
            ex0 = c.cmd("SCRIPT", "EXISTS", sha)
            rep.evaluations += 3
            if not (never[0] == "e" and never[1].startswith(b"NOSCRIPT")) or dump(c) != d0 or ex0 != ("a", [("i", 0)]):
                ck.fail("script-cache", "EVALSHA / SCRIPT EXISTS of a hash that was never loaded", dict(det, evalsha=str(never), exists=str(ex0)))
                continue
            # (3) SCRIPT LOAD answers sha1(source) — or refuses exactly what EVAL cannot compile
            loaded = c.cmd("SCRIPT", "LOAD", src)
            rep.nontrivial(("script-cache", shape, r_eval[0], loaded[0]))
            if loaded[0] == "e":
                compile_err = r_eval[0] == "e"
                ex = c.cmd("SCRIPT", "EXISTS", sha)
                after = c.cmd("EVALSHA", sha, *tail)
                if not compile_err or ex != ("a", [("i", 0)]) or not (after[0] == "e" and after[1].startswith(b"NOSCRIPT")):
                    ck.fail("script-cache", "SCRIPT LOAD refused a source that EVAL runs (or cached a refused one)",
                            dict(det, script_load=str(loaded), eval_reply=show(r_eval), exists=str(ex), evalsha=str(after)))
                continue
            if loaded != ("b", sha.encode()):
                ck.fail("script-cache", "SCRIPT LOAD did not answer SHA1(source)", dict(det, script_load=str(loaded)))
                continue
            ex = c.cmd("SCRIPT", "EXISTS", sha, "0" * 40, sha)
            if ex != ("a", [("i", 1), ("i", 0), ("i", 1)]):
                ck.fail("script-cache", "SCRIPT EXISTS does not know SHA1(source) after SCRIPT LOAD", dict(det, exists=str(ex)))
                continue
            # (4) EVALSHA sha1(source) == EVAL source: reply and dataset; lower-case and upper-case hex; loaded twice
            ok = True
            for how, h in (("lower-case", sha), ("upper-case", sha.upper()), ("loaded-twice", sha)):
                if how != "lower-case":
                    fresh()
                    again = c.cmd("SCRIPT", "LOAD", src)
                    if how == "loaded-twice":
                        again = c.cmd("SCRIPT", "LOAD", src)
                    if again != ("b", sha.encode()):
                        ck.fail("script-cache", "SCRIPT LOAD of the same source answered differently the second time", dict(det, script_load=str(again)))
                        ok = False
                        break
                r_sha = norm(c.cmd("EVALSHA", h, *tail))
                d_sha = dump(c)
                rep.evaluations += 1
                if FAULT == "sha" and shape == "trailing-newline":
                    r_sha = ("e", b"")
                if show(r_sha) != show(r_eval) or d_sha != d_eval:
                    if how == "upper-case" and r_sha[0] == "e" and ck.note_known("cache:evalsha-case-sensitive", det):
                        continue
                    ck.fail("script-cache", "EVALSHA SHA1(source) (%s hex) is not EVAL of the source" % how,
                            dict(det, evalsha_hex=h, eval_reply=show(r_eval), evalsha_reply=show(r_sha), dump_after_eval=d_eval, dump_after_evalsha=d_sha))
                    ok = False
                    break
            if not ok:
                continue
            # (5) SCRIPT FLUSH forgets it: NOSCRIPT without effect
            fresh()
            c.cmd("SCRIPT", "LOAD", src)
            c.cmd("SCRIPT", "FLUSH")
            d0 = dump(c)
            gone = c.cmd("EVALSHA", sha, *tail)
            ex = c.cmd("SCRIPT", "EXISTS", sha)
            rep.evaluations += 2
            if not (gone[0] == "e" and gone[1].startswith(b"NOSCRIPT")) or dump(c) != d0 or ex != ("a", [("i", 0)]):
                ck.fail("script-cache", "SCRIPT FLUSH did not forget the script", dict(det, evalsha=str(gone), exists=str(ex)))
        rep.extra["script_text_shapes"] = dict(sorted(shapes.items()))
        rep.extra["script_cache_cases"] = len(cases)
    finally:
        c.close()
        srv.stop()


# ----------------------------------------------------------------------------------------------------
# third parties: what OTHER connections observe must not depend on how the script was started (EVAL / EVALSHA, plain / inside EXEC),
# and for data commands not on whether the command came from a script or directly
# ----------------------------------------------------------------------------------------------------
def TP(tag, observers, script, keys, argv, direct=None, note=""):
    return {"tag": tag, "observers": observers, "script": script, "keys": keys, "argv": argv, "direct": direct, "note": note}


THIRD_PARTY_SCENARIOS = [
    # observers: ("blpop"|"brpop", [keys]) a client blocked on those keys; ("sub", channel); ("psub", pattern); ("watch", key) a connection
    # that WATCHes the key, queues a write and EXECs after the script.   direct: the same effect as directly issued commands (or None)
    TP("blpop.rpush", [("blpop", [b"q"])], "return redis.call('RPUSH', KEYS[1], ARGV[1])", [b"q"], [b"v"], [[b"RPUSH", b"q", b"v"]]),
    TP("brpop.lpush", [("brpop", [b"q"])], "return redis.call('LPUSH', KEYS[1], ARGV[1], ARGV[2])", [b"q"], [b"v1", b"v2"], [[b"LPUSH", b"q", b"v1", b"v2"]]),
    TP("blpop.two-keys.second-pushed", [("blpop", [b"q1", b"q2"])], "return redis.call('RPUSH', KEYS[1], ARGV[1])", [b"q2"], [b"v"], [[b"RPUSH", b"q2", b"v"]]),
    TP("blpop.two-waiters.one-element", [("blpop", [b"q"]), ("blpop", [b"q"])], "return redis.call('RPUSH', KEYS[1], ARGV[1])", [b"q"], [b"v"], [[b"RPUSH", b"q", b"v"]]),
    TP("blpop.two-waiters.two-elements", [("blpop", [b"q"]), ("brpop", [b"q"])], "return redis.call('RPUSH', KEYS[1], ARGV[1], ARGV[2])", [b"q"], [b"a", b"b"],
       [[b"RPUSH", b"q", b"a", b"b"]]),
    TP("blpop.push-then-pop-in-script", [("blpop", [b"q"])], "redis.call('RPUSH', KEYS[1], ARGV[1]) return redis.call('LPOP', KEYS[1])", [b"q"], [b"v"],
       [[b"MULTI"], [b"RPUSH", b"q", b"v"], [b"LPOP", b"q"], [b"EXEC"]], note="net effect: the list is empty again when the script is over"),
    TP("blpop.list-renamed-onto-key", [("blpop", [b"q"])], "redis.call('RPUSH', 'tmp', ARGV[1]) return redis.call('RENAME', 'tmp', KEYS[1])", [b"q"], [b"v"],
       [[b"RPUSH", b"tmp", b"v"], [b"RENAME", b"tmp", b"q"]]),
    TP("blpop.two-pushes-two-keys", [("blpop", [b"q1"]), ("blpop", [b"q2"])], "redis.call('RPUSH', KEYS[1], 'a') return redis.call('RPUSH', KEYS[2], 'b')",
       [b"q1", b"q2"], [], [[b"RPUSH", b"q1", b"a"], [b"RPUSH", b"q2", b"b"]]),
    TP("blpop.failing-call-after-push", [("blpop", [b"q"])], "redis.call('RPUSH', KEYS[1], ARGV[1]) return redis.call('INCR', KEYS[1])", [b"q"], [b"v"], None,
       note="the script aborts after the push: the element is there, the waiter must get it"),
    TP("blpop.other-key-pushed", [("blpop", [b"q"])], "return redis.call('RPUSH', 'elsewhere', ARGV[1])", [b"q"], [b"v"], [[b"RPUSH", b"elsewhere", b"v"]]),
    TP("subscriber.publish", [("sub", b"ch"), ("psub", b"c*"), ("sub", b"other")], "return redis.call('PUBLISH', ARGV[1], ARGV[2])", [], [b"ch", b"m"],
       [[b"PUBLISH", b"ch", b"m"]], note="one message per matching subscription, at the same moment (inside MULTI: at EXEC), as for the directly issued PUBLISH"),
    TP("subscriber.write-then-publish", [("sub", b"ch")], "redis.call('SET', KEYS[1], ARGV[2]) return redis.pcall('publish', ARGV[1], ARGV[2])", [b"pk"], [b"ch", b"\xff\x00m"],
       [[b"SET", b"pk", b"\xff\x00m"], [b"PUBLISH", b"ch", b"\xff\x00m"]]),
    TP("subscriber.nobody-listens", [("sub", b"other")], "return redis.call('PUBLISH', ARGV[1], ARGV[2])", [], [b"ch", b"m"], [[b"PUBLISH", b"ch", b"m"]]),
    TP("watch.key-written", [("watch", b"w")], "return redis.call('SET', KEYS[1], ARGV[1])", [b"w"], [b"2"], [[b"SET", b"w", b"2"]]),
    TP("watch.key-not-written", [("watch", b"w")], "return redis.call('SET', 'other', ARGV[1])", [b"w"], [b"2"], [[b"SET", b"other", b"2"]]),
    TP("watch.key-deleted", [("watch", b"w")], "return redis.call('DEL', KEYS[1])", [b"w"], [], [[b"DEL", b"w"]]),
    TP("watch.key-expire-set", [("watch", b"w")], "return redis.call('EXPIRE', KEYS[1], 1000)", [b"w"], [], [[b"EXPIRE", b"w", b"1000"]]),
    TP("watch+blpop", [("watch", b"q"), ("blpop", [b"q"])], "return redis.call('RPUSH', KEYS[1], ARGV[1])", [b"q"], [b"v"], [[b"RPUSH", b"q", b"v"]]),
]


def layer_third_parties(ck):
    rep = ck.rep
    srv = Server("c12o")
    ctl = srv.client()
    dist = {}
    try:
        def blocked_on(key):
            r_ = ctl.cmd("VERIF", "BLOCKED")
            return r_[0] == "a" and any(x == ("b", key) for x in r_[1])

        def run(sc, runner, in_exec, db):
            """-> dict of everything anybody observes"""
            if ctl.cmd("FLUSHALL") != ("s", b"OK") or ctl.cmd("SCRIPT", "FLUSH") != ("s", b"OK") or ctl.cmd("SELECT", str(db)) != ("s", b"OK"):
                raise InternalError("FLUSHALL / SCRIPT FLUSH / SELECT failed")
            ctl.cmd("SET", "w", "1")
            obs, conns = {}, []
            try:
                for i, o in enumerate(sc["observers"]):
                    c = srv.client()
                    conns.append((o, c))
                    c.cmd("SELECT", str(db))
                    if o[0] in ("blpop", "brpop"):
                        c.send(o[0].upper(), *(o[1] + [b"0"]))
                        t0 = time.time()
                        while not blocked_on(o[1][0]) and time.time() - t0 < 2.0:
                            time.sleep(0.005)
                        time.sleep(0.01 * (i + 1))          # registration order = the order of this list
                    elif o[0] in ("sub", "psub"):
                        c.cmd("SUBSCRIBE" if o[0] == "sub" else "PSUBSCRIBE", o[1])
                    elif o[0] == "watch":
                        c.cmd("WATCH", o[1])
                        c.cmd("MULTI")
                        c.cmd("SET", "by-watcher", "1")
                a = srv.client()
                conns.append((("actor",), a))
                a.cmd("SELECT", str(db))
                tail = [str(len(sc["keys"]))] + sc["keys"] + sc["argv"]
                if runner == "EVALSHA":
                    sha = hashlib.sha1(sc["script"].encode()).hexdigest()
                    if a.cmd("SCRIPT", "LOAD", sc["script"]) != ("b", sha.encode()):
                        raise InternalError("SCRIPT LOAD did not answer SHA1(source) in the third-party layer")
                    cmds = [[b"EVALSHA", sha.encode()] + tail]
                elif runner == "EVAL":
                    cmds = [[b"EVAL", sc["script"].encode()] + tail]
                else:
                    cmds = [list(x) for x in sc["direct"]]
                if in_exec and not (cmds and cmds[0] == [b"MULTI"]):
                    cmds = [[b"MULTI"]] + cmds + [[b"EXEC"]]
                replies = [a.cmd(*x, timeout=5.0) for x in cmds]
                if runner != "DIRECT":
                    last = replies[-1]
                    obs["actor"] = show(norm(last[1][-1] if in_exec and last[0] == "a" and last[1] else last))
                time.sleep(0.05)
                for i, (o, c) in enumerate(conns[:-1]):
                    if o[0] in ("blpop", "brpop"):
                        try:
                            obs["%d.%s" % (i, o[0])] = show(norm(c.read_reply(0.6)))
                        except TimeoutError:
                            obs["%d.%s" % (i, o[0])] = "STILL-BLOCKED"
                    elif o[0] in ("sub", "psub"):
                        got = []
                        try:
                            while True:
                                got.append(show(norm(c.read_reply(0.2))))
                        except TimeoutError:
                            pass
                        obs["%d.%s" % (i, o[0])] = " ".join(got) or "NOTHING"
                    elif o[0] == "watch":
                        obs["%d.watch.exec" % i] = show(norm(c.cmd("EXEC", timeout=3.0)))
                obs["dataset"] = dump(ctl)
                bl = ctl.cmd("VERIF", "BLOCKED")
                # the blocking registry afterwards: key -> number of waiters (connection ids differ from run to run), and the wake-queue length
                if bl[0] == "a" and bl[1]:
                    xs = bl[1][:-1]
                    obs["still-registered"] = " ".join("%s:%d" % (hx(xs[i][1]), len(xs[i + 1][1])) for i in range(0, len(xs) - 1, 2)) + " wakeq=" + show(bl[1][-1])
                else:
                    obs["still-registered"] = str(bl)
            finally:
                for _, c in conns:
                    c.close()
                time.sleep(0.02)
            return obs
        for n, sc in enumerate(THIRD_PARTY_SCENARIOS):
            for in_exec in (False, True):
                db = [0, 4][(n + in_exec) % 2]
                ctx = "inside-exec" if in_exec else "plain"
                dist[sc["tag"] + "." + ctx] = dist.get(sc["tag"] + "." + ctx, 0) + 1
                rep.count("third-party.%s.%s" % (sc["tag"], ctx))
                o_eval = run(sc, "EVAL", in_exec, db)
                o_sha = run(sc, "EVALSHA", in_exec, db)
                rep.evaluations += 2
                rep.nontrivial(("third-party", sc["tag"], ctx, tuple(sorted((k, v[:12]) for k, v in o_eval.items() if k != "dataset"))))
                det = {"layer": "third-party", "scenario": sc["tag"], "context": ctx, "db": db, "observers": [str(o) for o in sc["observers"]], "script": sc["script"],
                       "keys": [hx(k) for k in sc["keys"]], "argv": [hx(a_) for a_ in sc["argv"]], "note": sc["note"],
                       "observed_after_EVAL": o_eval, "observed_after_EVALSHA": o_sha}
                if FAULT == "third" and sc["tag"] == "blpop.rpush" and not in_exec:
                    o_sha = dict(o_sha, **{"0.blpop": "STILL-BLOCKED"})
                    det["observed_after_EVALSHA"] = o_sha
                if o_eval != o_sha:
                    diff = sorted(k for k in set(o_eval) | set(o_sha) if o_eval.get(k) != o_sha.get(k))
                    ck.fail("third-party", "what other connections observe after EVALSHA differs from EVAL of the same source (%s, %s): %s" % (sc["tag"], ctx, ", ".join(diff)), det)
                    continue
                if sc["direct"] is not None:
                    o_dir = run(sc, "DIRECT", in_exec, db)
                    rep.evaluations += 1
                    det["observed_after_direct_commands"] = o_dir
                    o_cmp = {k: v for k, v in o_eval.items() if k != "actor"}
                    if o_cmp != o_dir:
                        diff = sorted(k for k in set(o_cmp) | set(o_dir) if o_cmp.get(k) != o_dir.get(k))
                        cause = "parity:publish-missing-in-scripts" if sc["tag"].startswith("subscriber") else \
                            "third-party:" + sc["tag"].split(".")[0] + ("-in-exec" if in_exec else "")
                        if not ck.note_known(cause, det):
                            ck.fail("third-party", "what other connections observe after the script differs from the directly issued commands (%s, %s): %s"
                                    % (sc["tag"], ctx, ", ".join(diff)), det)
        rep.extra["third_party_scenarios"] = dict(sorted(dist.items()))
    finally:
        ctl.close()
        srv.stop()


# names that need not (or must not) be reachable from a script: what Redis itself refuses inside scripts, and administration /
# introspection / test commands; none of them is sent by the sweep
SWEEP_EXEMPT = {"SUBSCRIBE", "UNSUBSCRIBE", "PSUBSCRIBE", "PUNSUBSCRIBE", "PUBSUB", "MULTI", "EXEC", "DISCARD", "WATCH", "UNWATCH", "AUTH", "SELECT", "QUIT", "RESET",
                "BLPOP", "BRPOP", "BZPOPMIN", "BZPOPMAX", "EVAL", "EVALSHA", "SCRIPT", "MONITOR", "SHUTDOWN", "DEBUG", "SLEEP", "SYNC", "PSYNC", "REPLICAOF",
                "SLAVEOF", "REPLCONF", "CLIENT", "CONFIG", "ACL", "SAVE", "BGSAVE", "BGREWRITEAOF", "LASTSAVE", "SLOWLOG", "MEMORY", "COMMAND", "INFO", "VERIF"}


def dispatched_names():
    """the command names the server dispatches for a client (Gen/Dispatch.lean, regenerated by the translator on this run)"""
    path = os.path.join(LEAN, "FerrousSpec", "Gen", "Dispatch.lean")
    if not os.path.exists(path):
        raise InternalError("Gen/Dispatch.lean is missing (translator)")
    text = open(path).read()
    names = set(re.findall(r'^\s*\("([A-Z]+)", (?:true|false)\),?', text, re.M))
    m = re.search(r"def preDispatch : List String := \[(.*?)\]", text)
    if not names or not m:
        raise InternalError("Gen/Dispatch.lean: dispatch / preDispatch not recognised")
    return sorted(names | set(re.findall(r'"([A-Z]+)"', m.group(1))))


def layer_dispatch_sweep(ck):
    """every command a client can issue directly - except what Redis refuses in scripts and administration names - must be KNOWN inside a
    script too: redis.pcall(NAME) without arguments on a dedicated server; any answer but 'unknown command' passes (an arity error does)"""
    rep = ck.rep
    names = [n for n in dispatched_names() if n not in SWEEP_EXEMPT]
    srv = Server("c12w")
    c = srv.client()
    unknown = []
    try:
        for n in names:
            for nm in (n, n.lower()):
                got = c.cmd("EVAL", "return redis.pcall(ARGV[1])", "0", nm, timeout=5.0)
                rep.evaluations += 1
                if got[0] == "e" and b"unknown command" in got[1].lower():
                    unknown.append(n)
                    det = {"layer": "dispatch-sweep", "name": nm, "script": "return redis.pcall(ARGV[1])", "argv": [nm], "reply": str(got)}
                    if not (n == "PUBLISH" and ck.note_known("parity:publish-missing-in-scripts", det)):
                        ck.fail("dispatch-sweep", "%s can be issued directly but is an unknown command inside a script" % n, det)
                    break
            rep.nontrivial(("dispatch-sweep", n, n in unknown))
        rep.extra["dispatch_sweep"] = {"names_swept": len(names), "exempt": sorted(SWEEP_EXEMPT & set(dispatched_names())), "unknown_inside_scripts": sorted(set(unknown))}
    finally:
        c.close()
        srv.stop()


REFUSED_ARGS = {
    "BLPOP": [b"l", b"0"], "BRPOP": [b"l", b"0"], "BZPOPMIN": [b"z", b"0"], "BZPOPMAX": [b"z", b"0"],
    "SELECT": [b"1"], "AUTH": [b"pw"], "QUIT": [], "CLIENT": [b"GETNAME"], "RESET": [],
    "SUBSCRIBE": [b"ch"], "UNSUBSCRIBE": [b"ch"], "PSUBSCRIBE": [b"c*"], "PUNSUBSCRIBE": [b"c*"],
    "MULTI": [], "EXEC": [], "DISCARD": [], "WATCH": [b"k1"], "UNWATCH": [],
    "EVAL": [b"return 1", b"0"], "EVALSHA": [b"0" * 40, b"0"], "SCRIPT": [b"FLUSH"],
    "MONITOR": [], "CONFIG": [b"GET", b"maxmemory"],
}
NOT_SENT = {"SHUTDOWN", "DEBUG"}        # refused by the table theorem only: never sent, not even inside a script
UNKNOWN_TO_EXECUTOR = {"BRPOPLPUSH": [b"l", b"l2", b"0"], "BLMOVE": [b"l", b"l2", b"LEFT", b"RIGHT", b"0"], "WAIT": [b"0", b"0"],
                       "HELLO": [b"3"], "SLOWLOG": [b"GET"], "MEMORY": [b"USAGE", b"k1"], "COMMAND": []}


def layer_refused(ck):
    rep = ck.rep
    names = ck.ask("refused").split("|")
    srv = Server("c12r")
    c = srv.client()
    try:
        c.cmd("SELECT", "2")
        for s in ([b"SET", b"k1", b"v"], [b"RPUSH", b"l", b"a"], [b"ZADD", b"z", b"1", b"m"]):
            c.cmd(*s)
        before = dump(c)
        todo = [(n, REFUSED_ARGS.get(n)) for n in names if n not in NOT_SENT] + list(UNKNOWN_TO_EXECUTOR.items())
        for n, a in todo:
            if a is None:
                raise InternalError("no argument template for refused command %s (extend REFUSED_ARGS)" % n)
            for low in (False, True):
                nm = n.lower() if low else n
                for pc in (False, True):
                    src = "local r = redis.%s(unpack(ARGV)); redis.call('SET','after','1'); return type(r)" % ("pcall" if pc else "call")
                    got = c.cmd("EVAL", src, "0", nm, *a, timeout=3.0)
                    rep.evaluations += 1
                    after_set = c.cmd("DEL", "after")
                    det = {"name": nm, "args": [x.decode("latin-1") for x in a], "pcall": pc, "script": src, "reply": str(got)}
                    rep.nontrivial(("refused", n, pc, got[0]))
                    rep.count("refused.%s" % ("pcall" if pc else "call"))
                    # call: error reply, script stopped; pcall: script continued, the failure value's type
                    if not pc:
                        ok = got[0] == "e" and after_set == ("i", 0)
                    else:
                        want = b"nil" if ck.quirks["pcallErrIsNil"] else b"table"
                        ok = got == ("b", want) and after_set == ("i", 1)
                        if ok and want == b"nil":
                            ck.note_known("conv:pcallErrIsNil", det)
                    # connection state untouched: still database 2, not in MULTI, not subscribed
                    probe = c.cmd("GET", "k1")
                    now_ = dump(c)
                    if not ok or probe != ("b", b"v") or now_ != before:
                        det.update({"probe_GET_k1": str(probe), "dump_before": before, "dump_after": now_, "after_marker": str(after_set)})
                        ck.fail("refused", "%s inside a script was not refused cleanly" % n, det)
        # blocking options of commands that ARE allowed must not block inside a script (XREAD BLOCK, XREADGROUP BLOCK)
        c.cmd("XADD", "x", "1-1", "f", "v")
        c.cmd("XGROUP", "CREATE", "x", "g", "$")
        before = dump(c)
        for a in ([b"XREAD", b"BLOCK", b"0", b"STREAMS", b"x", b"$"], [b"XREADGROUP", b"GROUP", b"g", b"c1", b"BLOCK", b"0", b"STREAMS", b"x", b">"]):
            try:
                got = c.cmd("EVAL", "return type(redis.pcall(unpack(ARGV)))", "0", *a, timeout=4.0)
                blocked = False
            except (TimeoutError, Closed, ProtocolError, OSError):
                got, blocked = None, True
            rep.evaluations += 1
            rep.nontrivial(("refused-blocking-option", a[0], blocked))
            if blocked or dump(c) != before:
                ck.fail("refused", "%s with BLOCK inside a script blocked the server" % a[0].decode(), {"args": [x.decode() for x in a], "reply": str(got)})
                break
        rep.extra["refused_names_probed"] = len(todo)
        rep.extra["refused_names_not_sent"] = sorted(NOT_SENT)
    finally:
        c.close()
        srv.stop()


SANDBOX_EXPR = ["os", "io", "loadfile", "dofile", "require", "package", "debug", "load",
                "os.execute('true')", "os.getenv('HOME')", "io.open('/etc/passwd')", "io.popen('id')", "require('os')", "dofile('/etc/passwd')",
                "loadfile('/etc/passwd')", "package.loadlib('libc.so.6','system')", "debug.getinfo(1)", "debug.getregistry()"]


def layer_sandbox(ck):
    rep = ck.rep
    removed = ck.facts["removed_eval"] or []
    srv = Server("c12x", preexec_fn=cap_address_space)
    c = srv.client()
    try:
        for e in SANDBOX_EXPR + [x for x in removed if x not in SANDBOX_EXPR]:
            for form in ("return type(%s)", "return %s"):
                got = c.cmd("EVAL", form % e, "0")
                rep.evaluations += 1
                rep.nontrivial(("sandbox", e, got[0]))
                ok = got[0] == "e" or got == ("b", b"nil") or got == ("nb",)
                if not ok:
                    ck.fail("sandbox", "`%s` is reachable from a script" % e, {"script": form % e, "reply": str(got)})
        # the persistence names the executor accepts are stubs: nothing appears on disk
        c.cmd("SET", "k", "v")
        for n in ("SAVE", "BGSAVE", "BGREWRITEAOF"):
            got = c.cmd("EVAL", "return redis.call(ARGV[1])", "0", n)
            rep.evaluations += 1
            time.sleep(0.05)
            files = sorted(f for f in os.listdir(srv.dir) if f != "server.log")
            rep.nontrivial(("sandbox-stub", n, got[0]))
            if files:
                ck.fail("sandbox", "redis.call('%s') wrote to the file system" % n, {"files": files, "reply": str(got)})
        # a script can still compile strings: loadstring is present (noted, not a file-system or process access)
        got = c.cmd("EVAL", "return type(loadstring)", "0")
        rep.extra["loadstring_available"] = got == ("b", b"function")
        # ---- finalizers: Lua 5.1 runs __gc with the debug hooks off, so script code in a finalizer is outside the time limit (and, at
        #      state close, outside the script).  `newproxy` is the only way a script can make an object with a finalizer.
        has_newproxy = c.cmd("EVAL", "return type(newproxy)", "0") == ("b", b"function")
        rep.extra["newproxy_available"] = has_newproxy
        rep.evaluations += 1
        if has_newproxy:
            # a FINITE finalizer as the witness (an endless one wedges the server for ever and is never sent while newproxy exists):
            # it runs a redis.call AFTER the script has returned
            src = "getmetatable(newproxy(true)).__gc = function() redis.call('SET','gc-ran','1') end return redis.call('EXISTS','gc-ran')"
            got = c.cmd("EVAL", src, "0")
            ran = c.cmd("GET", "gc-ran")
            det = {"layer": "sandbox", "script": src, "reply": str(got), "GET gc-ran afterwards": str(ran),
                   "never_sent": "getmetatable(newproxy(true)).__gc = function() while true do end end return 1"}
            rep.nontrivial(("sandbox-finalizer", str(ran)))
            if ran == ("b", b"1") or "newproxy" not in removed:
                if not ck.note_known("sandbox:finalizer-outside-script", det):
                    ck.fail("sandbox", "a script can install a __gc finalizer (newproxy): its code runs with the debug hooks off - outside the script time limit - "
                            "and after the script has returned; an endless one wedges the command thread for ever", det)
        else:
            got = c.cmd("EVAL", "getmetatable(newproxy(true)).__gc = function() while true do end end return 1", "0", timeout=8.0)
            rep.evaluations += 1
            if got[0] != "e" or c.cmd("PING") != ("s", b"PONG"):
                ck.fail("sandbox", "the finalizer script was not refused", {"reply": str(got)})
        # ---- precompiled chunks: Lua 5.1 executes bytecode without validation (a patched chunk crashes the VM)
        probes = {"dump": c.cmd("EVAL", "return type(string.dump)", "0"),
                  "roundtrip": c.cmd("EVAL", "local ok, r = pcall(function() return loadstring(string.dump(function() return 42 end))() end) return tostring(r)", "0"),
                  "signature": c.cmd("EVAL", "local f, e = loadstring('\\27Lua\\81\\0\\1\\4\\8\\4\\8\\0') return type(f)", "0"),
                  "text": c.cmd("EVAL", "return loadstring('return 1+1')()", "0")}
        rep.evaluations += 4
        rep.extra["bytecode_probes"] = {k: str(v)[:60] for k, v in probes.items()}
        det = {"layer": "sandbox", "probes": {k: str(v)[:120] for k, v in probes.items()},
               "scripts": {"roundtrip": "return loadstring(string.dump(function() return 42 end))()"}}
        open_door = probes["roundtrip"] == ("b", b"42") or probes["dump"] == ("b", b"function")
        rep.nontrivial(("sandbox-bytecode", open_door))
        if open_door:
            # the crashing chunk (hunt/C06/d4) is not sent while the door is open: the witness is the harmless round trip
            if not ck.note_known("sandbox:loadstring-bytecode", det):
                ck.fail("sandbox", "loadstring accepts precompiled chunks and string.dump makes them: Lua 5.1 runs bytecode without validation "
                        "(a chunk patched by the script kills the server with SIGSEGV)", det)
        else:
            crash = ("local function victim() local zzzzzz; zzzzzz() end\nlocal d = string.dump(victim)\n"
                     "local a, b = string.find(d, '\\7\\0\\0\\0\\0\\0\\0\\0zzzzzz\\0', 1, true)\n"
                     "local f = loadstring(d:sub(1, a - 1) .. '\\0\\0\\0\\0\\0\\0\\0\\0' .. d:sub(b + 1))\npcall(f)")
            got = c.cmd("EVAL", crash, "0", timeout=8.0)
            rep.evaluations += 1
            if got[0] != "e" or probes["signature"] != ("b", b"nil") or probes["text"] != ("i", 2) or c.cmd("PING") != ("s", b"PONG"):
                ck.fail("sandbox", "precompiled chunks are not refused cleanly (or loadstring of source text no longer works)", dict(det, crash_script_reply=str(got)))
    finally:
        c.close()
        srv.stop()


def layer_atomic(ck, n_writers=3, n_scripts=150):
    """writers pipeline a two-INCR script, readers pipeline MGET: a reader must never see a != b"""
    rep = ck.rep
    srv = Server("c12t")
    src = "redis.call('INCR','a'); redis.call('INCR','b'); return redis.call('INCR','c')"
    bad, errs = [], []

    def writer():
        try:
            c = srv.client()
            c.send_raw(b"".join(c.encode(["EVAL", src, "0"]) for _ in range(n_scripts)))
            for _ in range(n_scripts):
                c.read_reply(10.0)
            c.close()
        except Exception as e:      # noqa
            errs.append(repr(e))

    def reader():
        try:
            c = srv.client()
            for _ in range(6):
                c.send_raw(b"".join(c.encode(["MGET", "a", "b"]) for _ in range(100)))
                for _ in range(100):
                    x = c.read_reply(10.0)
                    if x[0] == "a" and x[1][0] != x[1][1]:
                        bad.append(str(x))
            c.close()
        except Exception as e:      # noqa
            errs.append(repr(e))
    try:
        ts = [threading.Thread(target=writer) for _ in range(n_writers)] + [threading.Thread(target=reader) for _ in range(2)]
        for t in ts:
            t.start()
        for t in ts:
            t.join(60)
        c = srv.client()
        fin = c.cmd("MGET", "a", "b", "c")
        c.close()
        rep.evaluations += n_writers * n_scripts + 1200
        rep.nontrivial(("atomic", len(bad) == 0))
        want = str(n_writers * n_scripts).encode()
        if errs:
            raise InternalError("atomicity workload failed: %s" % errs[:2])
        if bad or fin != ("a", [("b", want)] * 3):
            ck.fail("atomic", "a reader observed a state in the middle of a script", {"script": src, "observed": bad[:5], "final": str(fin)})
    finally:
        srv.stop()


LOOP_SCRIPTS = [
    # (tag, source, must an error come back?)  — sent ONLY when the source installs a run-time limit (Gen.luaScriptTimeLimit > 0)
    ("plain-loop", "while true do end", True),
    ("write-then-loop", "redis.call('SET','done','1') redis.call('RPUSH','q','a','b') while true do end", True),
    ("calls-in-loop", "while true do redis.call('INCR','n') end", True),
    ("pcall-inner", "pcall(function() while true do end end) return 'escaped'", True),
    ("pcall-loop", "while true do pcall(function() while true do end end) end", True),
    ("coroutine", "local co = coroutine.wrap(function() while true do end end) co()", True),
    ("coroutine-pcall-loop", "local co = coroutine.wrap(function() while true do pcall(function() while true do end end) end end) co()", True),
    ("string-work-loop", "local s = '' while true do s = string.rep('x', 10) end", True),
    ("evalsha-loop", "while true do end -- by hash", True),
    ("finite-long", "local x = 0 for i = 1, 20000000 do x = x + i end return x", False),
]
W = "redis.call('SET','done','1') redis.call('RPUSH','q','a','b') "
MEMORY_SCRIPTS = [
    # sent ONLY when the source also bounds a script's memory (Gen.luaScriptMemoryLimit > 0), always to an address-space-capped server
    ("memory-bomb", W + "local t={} while true do t[#t+1]=string.rep('x',1000000)..#t end", True),
    ("string-rep-2^31", W + "return #string.rep('x', 2^31)", None),          # error or a reply: must just come back at once
    ("doubling-concat", W + "local s='x' while true do s=s..s end", True),
    ("table-growth", W + "local t={} local i=0 while true do i=i+1 t[i]=i end", True),
    ("pcall-bomb-loop", W + "while true do pcall(function() local t={} while true do t[#t+1]=string.rep('x',1000000)..#t end end) end", True),
    ("coroutine-bomb", W + "local co = coroutine.wrap(function() local t={} while true do t[#t+1]=string.rep('x',1000000)..#t end end) co()", True),
    ("expensive-ccall-loop", W + "while true do string.rep('x', 300000000) end", True),
    ("expensive-concat-loop", W + "local s = string.rep('x', 200000000) while true do local u = s..'y' end", True),
    ("expensive-upper-loop", W + "local s = string.rep('x', 200000000) while true do s:upper() end", True),
    ("big-value-under-the-limit", W + "local s = string.rep('x', 100000000) return #s", False),
]
AS_CAP = 3 << 30


def cap_address_space():
    """preexec of a dedicated server that is given an allocating script: the process may never take more than 3 GiB"""
    import resource
    resource.setrlimit(resource.RLIMIT_AS, (AS_CAP, AS_CAP))


def layer_time_limit(ck):
    """scripts that do not terminate, each on a dedicated server: an error reply within the limit (+ slack), the effects of the
    calls made before in place, the server alive and serving other connections and further scripts afterwards"""
    rep = ck.rep
    limit_ms = ck.facts.get("time_limit")
    rep.extra["script_time_limit_ms"] = limit_ms
    if not limit_ms:
        # nothing bounds a script: never send one that does not terminate; the finding is confirmed from the source
        if limit_ms == 0 and not ck.note_known("static:no-script-time-limit", {"script": "while true do end (never sent)"}):
            ck.fail("time-limit", "nothing bounds a script's run time: LuaEngine::eval installs no count hook, so EVAL \"while true do end\" 0 "
                    "wedges the only command thread for ever (input identified from the source; it is not sent to a server without a limit)",
                    {"layer": "time-limit", "script": "while true do end", "sent": False, "Gen.luaScriptTimeLimit": 0})
        return
    limit = limit_ms / 1000.0
    slack = 10.0
    results = []
    mem_limit = ck.facts.get("memory_limit")
    rep.extra["script_memory_limit_bytes"] = mem_limit
    cases = list(LOOP_SCRIPTS)
    if mem_limit and ck.tier != "quick":
        # the allocating scripts copy gigabytes: how long that takes depends on the machine, so they belong to the thorough tier
        cases += MEMORY_SCRIPTS
    elif mem_limit:
        rep.count("time-limit.memory-cases-thorough-tier-only")
        cases += [x for x in MEMORY_SCRIPTS if x[0] in ("memory-bomb",)][:1]
    elif mem_limit == 0:
        # nothing bounds a script's memory: allocating scripts are not sent; C06 owns that finding (C06-lua-memory-unbounded)
        rep.count("time-limit.memory-cases-not-sent-no-memory-limit")

    def run(tag, src, must_fail):
        out = {"case": tag, "script": src, "limit_s": limit, "memory_limit_bytes": mem_limit, "address_space_cap": AS_CAP}
        srv = None
        for attempt in range(4):            # many servers start at once: a free port can be taken between probing and binding
            try:
                srv = Server("c12l", preexec_fn=cap_address_space)
                break
            except InternalError as e:
                out["start_error"] = str(e)[-200:]
                time.sleep(0.2 * (attempt + 1))
        if srv is None:
            out["bad"] = []
            out["harness_error"] = "dedicated server did not start: " + out.get("start_error", "")
            results.append(out)
            return
        try:
            c, c2 = srv.client(timeout=limit + slack + 5), srv.client()
            c.cmd("SELECT", "3")
            c2.cmd("SELECT", "3")
            t0 = time.time()
            try:
                if tag == "evalsha-loop":
                    sha = c.cmd("SCRIPT", "LOAD", src)[1]
                    t0 = time.time()
                    got = c.cmd("EVALSHA", sha, "0", timeout=limit + slack)
                else:
                    got = c.cmd("EVAL", src, "0", timeout=limit + slack)
            except (TimeoutError, Closed, ProtocolError, OSError) as e:
                got = ("no-reply", type(e).__name__)
            out["seconds"] = round(time.time() - t0, 2)
            out["reply"] = str(got)[:200]
            out["server_alive"] = srv.alive()
            try:
                out["other_connection"] = str(c2.cmd("PING", timeout=3.0))
                out["done"], out["q"], out["n"] = str(c2.cmd("GET", "done")), str(c2.cmd("LRANGE", "q", "0", "-1")), c2.cmd("GET", "n")
                out["next_script_same_connection"] = str(c.cmd("EVAL", "return redis.call('INCR','after')", "0", timeout=3.0)) if got[0] != "no-reply" else "-"
            except (TimeoutError, Closed, ProtocolError, OSError) as e:
                out["other_connection"] = "not served: " + type(e).__name__
            bad = []
            if must_fail is None:
                if got[0] == "no-reply":
                    bad.append("no reply within the limit + %.0f s" % slack)
            elif must_fail:
                if got[0] != "e":
                    bad.append("no error reply within the limit + %.0f s" % slack)
                elif out["seconds"] < limit - 0.5 and b"memory" not in str(got).encode():
                    bad.append("ended before the limit")
            elif got[0] != "i":
                bad.append("a finite script under the limits was disturbed")
            if not out["server_alive"] or out.get("other_connection") != "('s', b'PONG')":
                bad.append("the server does not serve other connections afterwards")
            if got[0] != "no-reply" and out.get("next_script_same_connection") != "('i', 1)":
                bad.append("the next script on the same connection did not run normally")
            if (tag == "write-then-loop" or src.startswith(W)) and (out.get("done") != "('b', b'1')" or out.get("q") != "('a', [('b', b'a'), ('b', b'b')])"):
                bad.append("the effects of the calls completed before the limit did not persist")
            if tag == "calls-in-loop" and not (isinstance(out.get("n"), tuple) and out["n"][0] == "b" and int(out["n"][1]) > 0):
                bad.append("the effects of the calls completed before the limit did not persist")
            out["n"] = str(out.get("n"))
            out["bad"] = bad
        except Exception as e:      # noqa
            out["bad"] = []
            out["harness_error"] = "%s: %r" % (tag, e)
        finally:
            srv.stop()
        results.append(out)
    # at most 6 dedicated servers at a time (each may hold up to the script memory limit and spins a core): the verdicts
    # must not depend on how loaded the machine is
    gate = threading.Semaphore(4)

    def gated(tag, src, must_fail):
        with gate:
            run(tag, src, must_fail)
    finite = [x for x in cases if x[2] is False]
    ts = [threading.Thread(target=gated, args=x) for x in cases if x[2] is not False]
    for t in ts:
        t.start()
    for t in ts:
        t.join(4 * (limit + slack + 30))
    # the finite scripts under the limits run alone, afterwards; one that was disturbed is tried again (twice) before it counts:
    # a script that is finite and under the limits must pass on a quiet machine, the property says nothing about a starved one
    for x in finite:
        for attempt in range(3):
            before = len(results)
            run(*x)
            if len(results) > before and not results[-1].get("bad") and not results[-1].get("harness_error"):
                break
            if attempt < 2 and len(results) > before:
                rep.count("time-limit.finite-script-retried")
                results.pop()
                time.sleep(1.0)
    broken = [o for o in results if o.get("harness_error")]
    if broken or len(results) != len(cases):
        raise InternalError("time-limit layer: %s" % (broken[0]["harness_error"] if broken else "a case thread did not finish"))
    for out in sorted(results, key=lambda o: o["case"]):
        rep.evaluations += 1
        rep.count("time-limit." + out["case"])
        rep.nontrivial(("time-limit", out["case"], not out["bad"]))
        if out["bad"]:
            ck.fail("time-limit", "%s: %s" % (out["case"], "; ".join(out["bad"])), dict(out, layer="time-limit"))
    rep.extra["time_limit_cases"] = {o["case"]: o.get("seconds") for o in results}


# ----------------------------------------------------------------------------------------------------
# the depth of a script's return value: cyclic and deeply nested tables
# ----------------------------------------------------------------------------------------------------
def encode_reply(r):
    """RESP bytes of a reply tuple (what the server put on the wire for it)"""
    t = r[0]
    if t == "s":
        return b"+" + r[1] + b"\r\n"
    if t == "e":
        return b"-" + r[1] + b"\r\n"
    if t == "i":
        return b":%d\r\n" % r[1]
    if t == "b":
        return b"$%d\r\n%s\r\n" % (len(r[1]), r[1])
    if t == "nb":
        return b"$-1\r\n"
    if t == "na":
        return b"*-1\r\n"
    return b"*%d\r\n" % len(r[1]) + b"".join(encode_reply(x) for x in r[1])


def chain(n, leaf):
    """a table with n further tables below it (nest = n, or n + 1 with a leaf value in the innermost one): (Lua source, value)"""
    src = "local r={} local t=r for i=1,%d do t[1]={} t=t[1] end %sreturn r" % (n, "t[1]=7 " if leaf else "")
    # the value in the driver's syntax, written out directly (5000 levels are too deep for a recursive Python value)
    v = "( tbl " * n + ("( tbl ( int 7 ) )" if leaf else "( tbl )") + " )" * n
    return src, v


def reply_depth_cases(limit):
    """(tag, Lua source, value for the model or None = cyclic: must be the error)"""
    out = []
    for n in (limit - 2, limit - 1, limit, limit + 1, limit + 2, 5000):
        s_, v = chain(n, False)
        out.append(("chain-%s.empty-innermost" % ("5000" if n == 5000 else "limit%+d" % (n - limit)), s_, v))
        s_, v = chain(n, True)
        out.append(("chain-%s.leaf" % ("5000" if n == 5000 else "limit%+d" % (n - limit)), s_, v))

    def mk(d):
        return ("int", 1) if d == 0 else ("tbl", [mk(d - 1) for _ in range(3)])
    out.append(("wide-and-deep.3^7", "local function mk(d) if d==0 then return 1 end local t={} for i=1,3 do t[i]=mk(d-1) end return t end return mk(7)", mk(7)))
    for n in (limit - 1, limit + 1):
        src = "local r={1,2} local t=r for i=1,%d do t[3]={1,2} t=t[3] end return r" % n
        v = "( tbl ( int 1 ) ( int 2 ) " * n + "( tbl ( int 1 ) ( int 2 ) )" + " )" * n
        out.append(("wide-chain-limit%+d" % (n - limit), src, v))
    out.append(("deep-behind-nil.not-looked-at", "local r={1,nil} local t={} r[3]=t for i=1,%d do t[1]={} t=t[1] end return r" % (limit + 50),
                ("tbl", [("int", 1), ("nil",)])))
    out += [("cyclic.self", "local t={} t[1]=t return t", None), ("cyclic.self-second-element", "local t={1} t[2]=t return t", None),
            ("cyclic.mutual", "local a,b={},{} a[1]=b b[1]=a return a", None), ("cyclic.three", "local a,b,c={},{},{} a[1]=b b[1]=c c[2]=a c[1]=1 return a", None),
            ("cyclic.metatable-index", "local t={} setmetatable(t,{__index=function(_,i) return t end}) return t", None),
            ("cyclic.inside-finite", "local t={} t[1]=t return {1,{2,t}}", None)]
    return out


def layer_reply_depth(ck):
    """cyclic / deep return values, each batch on a dedicated address-space-capped server (never the shared ones): the reply is the
    conversion or the error the model predicts, parses with the project's own parser, the server lives, earlier effects persist"""
    rep = ck.rep
    limit = ck.facts.get("reply_depth_limit")
    rep.extra["script_reply_depth_limit"] = limit
    if limit is None:
        raise InternalError("reply-depth fact not recognised (translator/lua_tables.py)")
    if limit == 0:
        # no limit in the source: a cyclic table recurses until the stack overflows.  One witness, on a throw-away capped server.
        srv = Server("c12y", preexec_fn=cap_address_space)
        try:
            c = srv.client()
            c.cmd("SET", "before", "1")
            try:
                got = c.cmd("EVAL", "local t={} t[1]=t return t", "0", timeout=8.0)
                died = False
            except (Closed, TimeoutError, ProtocolError, OSError):
                time.sleep(0.4)
                got, died = None, True
            rep.evaluations += 1
            det = {"layer": "reply-depth", "script": "local t={} t[1]=t return t", "reply": str(got)[:200], "server_alive": srv.alive(), "server_log": srv.log_tail(300)}
            rep.nontrivial(("reply-depth-witness", died))
            if died or not srv.alive():
                if not ck.note_known("crash:reply-depth-unbounded", det):
                    ck.fail("reply-depth", "a script that returns a table containing itself takes the server down (unbounded recursion in lua_value_to_resp)", det)
            elif not (got and got[0] == "e"):
                ck.fail("reply-depth", "a cyclic table was answered with something else than an error although the source has no depth limit", det)
        finally:
            srv.stop()
        return
    ck.ask("cfg depthlimit %d" % limit, "ok")
    build_harness("resp")
    parser = impl_driver("resp")
    cases = reply_depth_cases(limit)
    srv = Server("c12y", preexec_fn=cap_address_space)
    dist = {}
    try:
        c, c2 = srv.client(timeout=15.0), srv.client()
        for tag, body, val in cases:
            if val is None:
                want = ("e", b"")
            else:
                want = parse_sexpr(ck.ask("ret " + (val if isinstance(val, str) else drv_val(val))).split(" # ")[0])
            src = "redis.call('INCR','done') " + body
            sha = hashlib.sha1(src.encode()).hexdigest()
            for runner in ("EVAL", "EVALSHA", "EVAL-inside-EXEC", "EVALSHA-inside-EXEC"):
                dist[tag.split(".")[0] + "." + runner] = dist.get(tag.split(".")[0] + "." + runner, 0) + 1
                rep.count("reply-depth.%s.%s" % (tag, runner))
                c2.cmd("FLUSHALL")
                det = {"layer": "reply-depth", "case": tag, "runner": runner, "script": src[:300], "reply_depth_limit": limit, "model_predicts": show(want)[:200]}
                try:
                    if runner.startswith("EVALSHA"):
                        c.cmd("SCRIPT", "LOAD", src)
                    inner = ["EVALSHA", sha, "0"] if runner.startswith("EVALSHA") else ["EVAL", src, "0"]
                    if runner.endswith("EXEC"):
                        c.cmd("MULTI")
                        c.cmd(*inner)
                        whole = c.cmd("EXEC")
                        got = whole[1][0] if whole[0] == "a" and len(whole[1]) == 1 else ("bad-exec-reply", whole)
                    else:
                        whole = got = c.cmd(*inner)
                except (Closed, TimeoutError, ProtocolError, OSError, RecursionError) as e:
                    time.sleep(0.4)
                    det.update({"reply": "no reply: " + type(e).__name__, "server_alive": srv.alive(), "server_log": srv.log_tail(300)})
                    ck.fail("reply-depth", "no reply to a script returning a deep / cyclic table (%s, %s)" % (tag, runner), det)
                    if not srv.alive():
                        srv.stop()
                        srv = Server("c12y", preexec_fn=cap_address_space)
                    c, c2 = srv.client(timeout=15.0), srv.client()
                    continue
                rep.evaluations += 1
                rep.nontrivial(("reply-depth", tag, runner, got[0]))
                bad = []
                if show(norm(got)) != show(want):
                    bad.append("the reply is not what the model predicts")
                pr = parser.ask("parse " + hx(encode_reply(whole)))
                if pr is None or not pr.startswith("ok "):
                    bad.append("the reply does not parse with the project's own parser (%s)" % (pr or "parser died")[:40])
                if c2.cmd("GET", "done") != ("b", b"1"):
                    bad.append("the effect of the call made before the return did not persist")
                if c2.cmd("PING") != ("s", b"PONG") or not srv.alive():
                    bad.append("the server does not serve afterwards")
                if bad:
                    det.update({"reply": show(norm(got))[:300], "problems": bad})
                    ck.fail("reply-depth", "%s (%s, %s)" % ("; ".join(bad), tag, runner), det)
        rep.extra["reply_depth_cases"] = dict(sorted(dist.items()))
    finally:
        ck.ask("cfg depthlimit 0", "ok")
        parser.close()
        srv.stop()


def layer_ttl_parity(ck):
    """TTL inside a script == TTL directly, measured at the same instant: right after EXPIRE inside one script / one MULTI block
    (the twin layer compares TTL through a window of a second, which hides a rounding difference)"""
    rep = ck.rep
    srv = Server("c12e")
    c = srv.client()
    try:
        cases = [("EXPIRE", n) for n in (1, 2, 3, 10, 100, 86400)] + [("PEXPIRE", n) for n in (1, 999, 1000, 1001, 1500, 10001)]
        for how, n in cases:
            c.cmd("FLUSHALL")
            c.cmd("MULTI")
            for x in (["SET", "k", "v"], [how, "k", str(n)], ["TTL", "k"], ["PTTL", "k"]):
                c.cmd(*x)
            d = c.cmd("EXEC")
            c.cmd("FLUSHALL")
            src = "redis.call('SET',KEYS[1],'v') redis.call(ARGV[1],KEYS[1],ARGV[2]) return {redis.call('TTL',KEYS[1]), redis.call('PTTL',KEYS[1])}"
            sc = c.cmd("EVAL", src, "1", "k", how, str(n))
            rep.evaluations += 2
            rep.count("ttl-parity.%s" % how)
            ttl_d, ttl_s = (d[1][2] if d[0] == "a" and len(d[1]) == 4 else None), (sc[1][0] if sc[0] == "a" and len(sc[1]) == 2 else None)
            rep.nontrivial(("ttl-parity", how, n, str(ttl_d), str(ttl_s)))
            det = {"layer": "ttl-parity", "direct": "MULTI; SET k v; %s k %d; TTL k; PTTL k; EXEC -> %s" % (how, n, show(norm(d))), "script": src,
                   "keys": ["k"], "argv": [how, str(n)], "script_reply": show(norm(sc))}
            if ttl_d is None or ttl_s is None or ttl_d[0] != "i" or ttl_s[0] != "i":
                ck.fail("ttl-parity", "unexpected replies", det)
            elif ttl_d != ttl_s and not ck.note_known("parity:ttl-rounding", det):
                ck.fail("ttl-parity", "TTL inside a script (%d) differs from the directly issued TTL (%d) at the same instant, right after %s k %d"
                        % (ttl_s[1], ttl_d[1], how, n), det)
        # no time to live / no key
        c.cmd("FLUSHALL")
        c.cmd("SET", "p", "v")
        sc = c.cmd("EVAL", "return {redis.call('TTL','p'), redis.call('TTL','nokey'), redis.call('PTTL','p'), redis.call('PTTL','nokey')}", "0")
        rep.evaluations += 1
        if sc != ("a", [("i", -1), ("i", -2), ("i", -1), ("i", -2)]):
            ck.fail("ttl-parity", "TTL / PTTL of a key without time to live or of a missing key inside a script", {"layer": "ttl-parity", "script_reply": show(norm(sc))})
    finally:
        c.close()
        srv.stop()


def layer_crash_witness(ck):
    """the one known way to take the server down from a script (a script-only command): replayed on a throw-away server"""
    f = ck.findings.get("crash:bitcount-empty")
    srv = Server("c12c")
    try:
        c = srv.client()
        c.cmd("SET", "e", "")
        try:
            got = c.cmd("EVAL", "return redis.call('BITCOUNT', KEYS[1])", "1", "e", timeout=3.0)
            died = False
        except (Closed, TimeoutError, ProtocolError, OSError):
            time.sleep(0.3)
            died = True
            got = None
        ck.rep.evaluations += 1
        det = {"setup": "SET e ''", "script": "return redis.call('BITCOUNT', KEYS[1])", "keys": ["e"], "reply": str(got), "server_alive": srv.alive(),
               "server_log": srv.log_tail(400)}
        if died or not srv.alive():
            if f is None or not ck.note_known("crash:bitcount-empty", det):
                ck.fail("crash", "redis.call('BITCOUNT', k) on an empty string takes the server down", det)
        ck.rep.nontrivial(("crash-witness", died))
    finally:
        srv.stop()
    # two more script-only commands that took the server down (hunt/C06/extras): each on its own throw-away capped server
    for match, what, setup, src, keys in (
            ("crash:bitcount-range", "redis.call('BITCOUNT', k, 4, 1) (a start after the end) panics on a slice", [["SET", "k", "hello"]],
             "return redis.call('BITCOUNT', KEYS[1], 4, 1)", ["k"]),
            ("crash:setbit-offset", "redis.call('SETBIT', k, <offset near 2^63>, 0) asks for 2^60 bytes and aborts the process", [],
             "return redis.call('SETBIT', KEYS[1], '9223372036854775806', 0)", ["k"])):
        srv = Server("c12c", preexec_fn=cap_address_space)
        try:
            c = srv.client()
            for x in setup:
                c.cmd(*x)
            try:
                got = c.cmd("EVAL", src, str(len(keys)), *keys, timeout=5.0)
                died = False
            except (Closed, TimeoutError, ProtocolError, OSError):
                time.sleep(0.3)
                got, died = None, True
            ck.rep.evaluations += 1
            det = {"layer": "crash", "setup": [" ".join(x) for x in setup], "script": src, "keys": keys, "reply": str(got), "server_alive": srv.alive(),
                   "server_log": srv.log_tail(400)}
            ck.rep.nontrivial((match, died))
            if died or not srv.alive():
                if not ck.note_known(match, det):
                    ck.fail("crash", what + " - the server dies", det)
            elif got[0] not in ("i", "e"):
                ck.fail("crash", "unexpected reply to " + src, det)
        finally:
            srv.stop()


# ----------------------------------------------------------------------------------------------------
def verdict(ck, ok, log, errs):
    rep = ck.rep
    for fid, f in sorted(ck.known.items()):
        rep.known(fid, f["what"])
    rep.extra["syntax_form_distribution"] = dict(sorted(ck.forms.items()))
    rep.extra["syntax_forms_distinct"] = len(ck.forms)
    rep.extra["command_case_distribution"] = dict(sorted(ck.cases.items()))
    rep.extra["model_disagreements"] = len(ck.disagree)
    rep.extra["oracle_failures_outside_known_findings"] = len(ck.oracle_fail)
    rep.extra["known_finding_samples"] = {m: {k: v for k, v in d.items() if k in ("cmd_text", "variant", "db", "direct_reply_A", "script_reply_B", "spec_prescribes", "script", "server_reply")}
                                          for m, d in sorted(ck.samples.items())}
    if ck.oracle_fail:
        ck.oracle_fail.sort(key=lambda d: (len(d.get("history", [])), len(d.get("script", ""))))
        det = ck.oracle_fail[0]
        rep.violation("C12 (%s): %s" % (det["layer"], det["why"]),
                      {"replay": det, "family": "lua", "more": [{k: d.get(k) for k in ("layer", "why", "cmd_text", "variant", "script", "script_reply_B", "server_reply", "spec_prescribes")}
                                                               for d in ck.oracle_fail[1:8]], "lean_errors": errs[:5],
                       "model_disagreements": ck.disagree[:5]})
    elif not ok:
        rep.violation("proof obligations of C12 no longer check against the regenerated tables", {"theorem_errors": errs[:10], "log_tail": log[-3000:]}, no_input=True)
    elif ck.disagree:
        rep.violation("correspondence Lua conversion model (code variant) vs server broke (%d disagreements) although the standard table holds" % len(ck.disagree),
                      {"correspondence": "Ferrous.Lua (Quirks from translator/lua_tables.py) vs ferrous over TCP", "disagreements": ck.disagree[:8]}, no_input=True)


def main(tier, seed):
    rep = Report(PID, tier, seed)
    rep.rule = ("twin servers in the same state: each command of the catalogue (C01/C03 vocabulary of lib/ksgen.py + sorted-set, stream, scan, bit and server commands; "
                "argument universes incl. binary / invalid UTF-8, i64 edges, wrong types, wrong arity) is sent directly to A and wrapped in "
                "redis.call / redis.pcall (8 wrapper variants exposing the Lua-side value) to B on databases {0,1,5,9,15}; B's reply must be the conversion of A's "
                "(Code model predicts, standard table judges), full dumps of A and B compared after every command; then call programs (1-4 steps, call/pcall, literal / KEYS / ARGV "
                "arguments, 12 return expressions) against `Lua.eval` on the model store with dumps; return-value shapes; KEYS/ARGV contents; SCRIPT LOAD + EVALSHA vs EVAL; "
                "every refused name inside call and pcall; sandbox probes; a concurrent two-counter workload. distinct = (layer, command(s), variant / return form, reply class, tags) reached")
    rep.assumptions = [
        "the Lua interpreter (mlua, vendored Lua 5.1) is trusted: the model covers call programs, not Lua",
        "parity of the second command implementation (commands/executor.rs) with the handlers is measured by the twin run, not proved; redis.call executes KS.step in the model",
        "error replies are compared as 'an error' (wording ignored; a changed error class is reported once as a finding)",
        "commands with random results (SPOP, SRANDMEMBER, RANDOMKEY), clock-dependent replies (TIME, XADD *, LASTSAVE) and INFO are left out of the twin comparison; TTL/PTTL through a window",
        "NaN / infinite return values and error frames nested in array replies are not modelled (no data command produces the latter)",
        "non-terminating scripts are sent only when the source installs a run-time limit (Gen.luaScriptTimeLimit > 0), and then only to dedicated server instances; without a limit its absence is confirmed from the source, not dynamically",
        "SHUTDOWN and DEBUG are never sent, not even inside scripts: their refusal rests on the regenerated table theorem only",
        "integers pass through a Lua 5.1 double in both the standard table and the code (precision above 2^53 is lost by the standard conversion itself)",
    ]
    ok, log, errs = proof_phase(rep, families=["lua"])
    build_server()
    # a private copy of the binary: the source facts read now and every server started during this run belong to the
    # same tree even if another check rebuilds the shared binary meanwhile
    import server as _server
    import shutil
    bin_dir = os.path.join(CACHE, "run", "c12-bin-%d" % os.getpid())
    os.makedirs(bin_dir, exist_ok=True)
    shared_bin = _server.SERVER_BIN
    with BuildLock("cargo-bin"):
        shutil.copy2(shared_bin, os.path.join(bin_dir, "ferrous"))
    _server.SERVER_BIN = os.path.join(bin_dir, "ferrous")
    findings = load_findings()
    ck = Checker(rep, findings, tier)
    r = Rng(seed)
    try:
        q = tier == "quick"
        layer_twin(ck, r, 120 if q else 1800, 30 if q else 40)
        layer_programs(ck, r, 80 if q else 1000, 16 if q else 30)
        layer_script_cache(ck, r)
        layer_third_parties(ck)
        layer_refused(ck)
        layer_dispatch_sweep(ck)
        layer_sandbox(ck)
        layer_atomic(ck, 3, 150 if q else 1500)
        layer_ttl_parity(ck)
        layer_crash_witness(ck)
        layer_reply_depth(ck)
        layer_time_limit(ck)
        rep.extra["conversion_switches_seen_in_source"] = ck.quirks
        verdict(ck, ok, log, errs)
    finally:
        ck.drv.close()
        _server.SERVER_BIN = shared_bin
        shutil.rmtree(bin_dir, ignore_errors=True)
    return rep.finish()


# ----------------------------------------------------------------------------------------------------
def replay(path):
    """re-execute a replay file written by this check against the server built from the current tree"""
    obj = json.load(open(path))
    det = obj.get("replay") or {}
    rep = Report(PID, "replay", obj.get("seed", 0))
    run_translator()
    build_driver("lua")
    build_server()
    ck = Checker(rep, load_findings(), "quick")
    try:
        layer = det.get("layer")
        if layer == "twin":
            tw = Twin(ck.drv)
            try:
                tw.fresh(det["db"], [[unhx(x) for x in s] for s in det["setup"]])
                for h in det.get("history", []):
                    args = [unhx(x) for x in h[1:]]
                    tw.run(args, h[0])
                args = [unhx(x) for x in det["cmd"]]
                ra, rb = tw.run(args, det["variant"])
                if rb[0] == "died":
                    print("direct reply of A:", show(ra))
                    print("script reply of B: connection lost; server alive: %s" % rb[2])
                    print(tw.B.log_tail(600))
                    return 1
                code, spec, tags = ck.conv(det["variant"], ra)
                da, db_ = tw.dumps()
                print("command          :", det.get("cmd_text"), "| variant", det["variant"], "| db", det["db"])
                print("direct reply of A:", show(ra))
                print("script reply of B:", show(rb))
                print("Code predicts    :", show(code))
                print("Spec prescribes  :", show(spec), "| tags", tags)
                print("dumps equal      :", da == db_)
                if da != db_:
                    print("  A:", da)
                    print("  B:", db_)
                name = args[0].decode("latin-1").upper()
                good = canon(name, rb) == canon(name, spec) and da == db_
                print("REPLAY: %s" % ("property holds on this input now" if good else "still fails"))
                return 0 if good else 1
            finally:
                tw.close()
        if layer in ("program", "values", "evalsha"):
            print("script:\n" + det.get("script", ""))
            sg = Single(ck)
            try:
                sg.fresh(det["db"], [[unhx(x) for x in s] for s in det["setup"]])
                keys, argv = [unhx(x) for x in det["keys"]], [unhx(x) for x in det["argv"]]
                got = sg.cli.cmd("EVAL", det["script"], str(len(keys)), *(keys + argv))
                hl = lambda xs: "|".join(hx(x) for x in xs) if xs else "."
                ans = ck.ask("eval %d %d K %s A %s %s" % (sg.db, ck.now(), hl(keys), hl(argv), det["program"]))
                print("server reply   :", show(got))
                print("model code/spec:", ans)
                print("dump server    :", sg.dump_impl())
                print("dump model     :", sg.dump_model())
                good = show(got) == ans.split(" # ")[1] and ans.split(" # ")[2] == "same" and sg.dump_impl() == sg.dump_model()
                print("REPLAY: %s" % ("property holds on this input now" if good else "still fails"))
                return 0 if good else 1
            finally:
                sg.close()
        if layer == "script-cache":
            src = unhx(det["source_hex"])
            keys, argv = [unhx(x) for x in det["keys"]], [unhx(x) for x in det["argv"]]
            sha = hashlib.sha1(src).hexdigest()
            tail = [str(len(keys))] + keys + argv
            srv = Server("c12h")
            c = srv.client()
            try:
                def fresh():
                    c.cmd("FLUSHALL"), c.cmd("SCRIPT", "FLUSH"), c.cmd("SELECT", str(det["db"])), c.cmd("RPUSH", "l0", "x")
                fresh()
                r_eval, d_eval = norm(c.cmd("EVAL", src, *tail)), dump(c)
                fresh()
                loaded = c.cmd("SCRIPT", "LOAD", src)
                ex = c.cmd("SCRIPT", "EXISTS", sha)
                r_sha, d_sha = norm(c.cmd("EVALSHA", sha, *tail)), dump(c)
                print("source (%s)      : %r" % (det.get("text_shape"), src[:200]))
                print("SHA1(source)      :", sha)
                print("SCRIPT LOAD       :", loaded)
                print("SCRIPT EXISTS sha :", ex)
                print("EVAL source       :", show(r_eval), "| dataset", d_eval)
                print("EVALSHA sha       :", show(r_sha), "| dataset", d_sha)
                good = (loaded == ("b", sha.encode()) and ex == ("a", [("i", 1)]) and show(r_eval) == show(r_sha) and d_eval == d_sha) or \
                    (loaded[0] == "e" and r_eval[0] == "e")
                print("REPLAY: %s" % ("property holds on this input now" if good else "still fails"))
                return 0 if good else 1
            finally:
                c.close()
                srv.stop()
        print(json.dumps(det, indent=1)[:4000])
        print("REPLAY: this replay kind (%s) is descriptive; re-run ./check C12 to re-evaluate it" % layer)
        return 1
    finally:
        ck.drv.close()
