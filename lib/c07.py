"""C07 — MULTI/EXEC: queued only, executed in order as one indivisible step, replies in order,
DISCARD / disconnect drop the queue, runtime errors stay in their slot, state is per connection.

Deciding artefact: lean/FerrousSpec/Props/C07.lean (theorems over ALL queues and ALL schedules of
the event-loop model `Ferrous.Tx.run`: queued_has_no_effect, exec_runs_all_in_order,
exec_eq_back_to_back, exec_is_one_transition, runtime_error_in_slot, discarded/disconnected
transactions are invisible, state_is_per_connection, …; three deviations of the current tree with
`_partial` theorems and witnesses).  This module ties the model (`drv_tx`, Model/Tx.lean on top of
`KS.step`) to the real server over TCP:

  (i)   twin runs: a random queue sent as MULTI … EXEC to server A and, command by command, to a
        twin server T in the same state; the property's oracle is evaluated on the implementation
        (EXEC's array = the direct replies, equal dumps; QUEUED replies; nothing applied before EXEC,
        after DISCARD, after a disconnect; nested MULTI / EXEC without MULTI refused) and every reply
        and dump of A is compared with the Lean model;
  (ii)  interleaved schedules of 2-3 connections on one server (transactions, plain commands, SELECT,
        disconnects), every reply predicted by the model;
  (iii) an invariant workload in real time (transfers between two counters by MULTI/EXEC writers, a
        pipelining writer and a Lua script; readers must always see the same sum) — support for the
        single-command-thread fact the atomicity theorem rests on, not a proof;
  (iv)  the witnesses of the listed findings, replayed.
"""
import json
import threading
import types

from common import *
from server import Server, Client, Closed, ProtocolError, show_reply
from ks import KsSession, canon_reply
import ksgen

PID = "C07"
FAMILY = "tx"
PENDING_FINDINGS = os.path.join(VERIF, "pending_repo_patches", "C07_findings.json")
QUEUED = "( s 515545554544 )"
OK = "( s 4f4b )"
EXCLUDE = {"SPOP", "SRANDMEMBER", "RANDOMKEY", "TTL", "PTTL"}     # random outcomes / clock readings differ between twin runs
VOCAB = [n for n in ksgen.STRING_VOCAB + ksgen.COLL_VOCAB if n not in EXCLUDE]
FAILING = [[b"INCR", b"l"], [b"LPUSH", b"k1", b"x"], [b"NOSUCHCMD", b"x"], [b"GET"], [b"SET", b"k1"], [b"HINCRBY", b"h", b"f1", b"abc"],
           [b"INCRBY", b"k1", b"notanint"], [b"SADD", b"l", b"a"], [b"HGET", b"s", b"f1"], [b"LSET", b"l", b"99", b"x"], [b"RENAME", b"miss", b"k9"],
           [b"GET", b"l"], [b"EXPIRE", b"k1", b"abc"], [b"ZADD", b"k1", b"1", b"m"], [b"DECRBY", b"k2", b"-9223372036854775808"]]


def load_findings():
    fs = [f for f in load_known_findings()["open"] if f["property"] == PID]
    if os.path.exists(PENDING_FINDINGS):
        have = {f["id"] for f in fs}
        fs += [f for f in json.load(open(PENDING_FINDINGS)) if f["id"] not in have]
    ign = os.environ.get("C07_IGNORE_FINDING")          # sanity-testing of the violation path only
    if ign:
        fs = [f for f in fs if f["id"] != ign]
    return {f["match"]: f for f in fs}


def name_of(args):
    return args[0].decode("latin-1").upper() if args else ""


def canon_exec(names, r):
    """EXEC's reply: each slot canonicalised as a reply to the command queued in that slot"""
    if r[0] != "a":
        return canon_reply("", r)
    cands = [names] if (not names or isinstance(names[0], str)) else names
    for ns in cands:
        if len(r[1]) == len(ns):
            return "( a%s )" % "".join(" " + canon_reply(n, x) for n, x in zip(ns, r[1]))
    return "( a%s )" % "".join(" " + canon_reply("", x) for x in r[1])


def exec_names(queue):
    """the names of the commands whose replies EXEC's array holds: as prescribed, and as the source variant queues them
    (an UNWATCH the source runs at once inside MULTI has no slot)"""
    names = [name_of(c) for c in queue]
    if switches().get("unwatch-in-multi"):
        return [names, [n for n in names if n != "UNWATCH"]]
    return [names]


def dump_db(cli, db):
    """point-read dump of one database through an observer connection (ks.py's dump)"""
    r = cli.cmd("SELECT", str(db))
    if r != ("s", b"OK"):
        return "dump-failed:SELECT"
    try:
        return KsSession.dump_impl(types.SimpleNamespace(cli=cli))
    finally:
        cli.cmd("SELECT", "0")


class Model:
    """drv_tx: one line per frame; answers (reply of the source variant, prescribed reply, same|differ) and keeps
    what the service of blocked clients after the frame delivers to other connections in `last_deliveries`"""

    def __init__(self):
        self.p = lean_driver(FAMILY)
        self.t0 = time.monotonic()
        self.lines = []
        self.last_deliveries = ([], [])

    def now(self):
        return int((time.monotonic() - self.t0) * 1000) + 1000

    def ask(self, line):
        self.lines.append(line)
        a = self.p.ask(line)
        if a is None or a == "bad-op":
            raise InternalError("Lean tx driver failed on: %s -> %r" % (line, a))
        return a

    def reset(self):
        self.lines = []
        assert self.ask("reset") == "ok"

    @staticmethod
    def _deliv(txt):
        if txt == ".":
            return []
        out = []
        for part in txt.split(" ; "):
            cid, rep = part.split("=", 1)
            out.append((int(cid), rep))
        return out

    def frame(self, conn, args, watch_ok=True, watch_ok_code=None):
        """watch_ok: the outcome of the WATCH check the property prescribes for an EXEC; watch_ok_code: the outcome for the
        source variant when the source drops watches the property keeps (default: the same)"""
        w = "%d" % watch_ok if (watch_ok_code is None or watch_ok_code == watch_ok) else "%d%d" % (watch_ok_code, watch_ok)
        a = self.ask("frame %d %d %s %s" % (conn, self.now(), w, " ".join(hx(x) for x in args)))
        code, spec, same, dcode, dspec = a.split(" # ")
        self.last_deliveries = (self._deliv(dcode), self._deliv(dspec))
        return code, spec, same == "same"

    def disc(self, conn):
        assert self.ask("disc %d" % conn) == "ok"

    def conn(self, conn):
        db, intx, qlen, ab, bl = self.ask("conn %d" % conn).split()
        return int(db), intx == "1", int(qlen), ab == "1"

    def blocked(self, conn):
        return self.ask("conn %d" % conn).split()[4] == "1"

    def dump(self, db):
        return self.ask("dump %d %d" % (db, self.now()))

    def dumpspec(self, db):
        return self.ask("dumpspec %d %d" % (db, self.now()))

    def waiters(self):
        return self.ask("waiters")

    def close(self):
        self.p.close()


def top_slots(x):
    """the slots of a canonical array reply `( a slot slot .. )`, None for anything else"""
    t = x.split(" ")
    if len(t) < 3 or t[0] != "(" or t[1] != "a" or t[-1] != ")":
        return None
    out, depth, cur = [], 0, []
    for tok in t[2:-1]:
        cur.append(tok)
        if tok == "(":
            depth += 1
        elif tok == ")":
            depth -= 1
            if depth == 0:
                out.append(" ".join(cur))
                cur = []
    return out if depth == 0 and not cur else None


def eqx(impl, model):
    """equality of canonical replies where the model's `( ext )` (a reply produced by a subsystem the model only
    hands the command to: CLIENT, pub/sub, ..) stands for any reply"""
    if "( ext )" not in model:
        return impl == model
    if model == "( ext )":
        return not impl.startswith(("closed", "nothing"))
    a, b = top_slots(impl), top_slots(model)
    return a is not None and b is not None and len(a) == len(b) and all(eqx(x, y) for x, y in zip(a, b))


def failed_oracle(impl, code, spec, same):
    """the property's verdict on one reply: the implementation must answer what is prescribed, and when it
    answers what the source variant of the model answers, that variant's state must be the prescribed one
    (a model/implementation disagreement alone is not a verdict: dumps are compared with the prescribed state)"""
    return (not eqx(impl, spec)) or (eqx(impl, code) and not same)


BPOP_KEYS = [b"l", b"bq", b"bq2", b"k1", b"miss"]


def bpop_valid(c):
    """a blocking pop the server accepts (name, >= 1 key, time-out an unsigned decimal integer)"""
    return name_of(c) in ("BLPOP", "BRPOP") and len(c) >= 3 and c[-1].isdigit() and len(c[-1]) <= 15


def named_keys(queue):
    """every key a list of commands names (first argument; all keys of a blocking pop), in order, once"""
    out = []
    for c in queue:
        ks = c[1:-1] if bpop_valid(c) else c[1:2]
        for k in ks:
            if k not in out:
                out.append(k)
    return out


class QueueGen:
    """random queues over the C01/C03 vocabulary: mostly valid, ~15 % guaranteed to fail at run time,
    a few syntax-invalid ones, now and then SELECT or a blocking pop that is served at once"""

    def __init__(self, r):
        self.r = r
        self.g = ksgen.Gen(r, VOCAB)

    def setup(self):
        return self.g.setup()

    def queue(self, n=None, specials=True):
        r = self.r
        n = r.range(0, 12) if n is None else n
        out, shapes = [], []
        while len(out) < n:
            k = r.below(100)
            if k < 15:
                out.append(list(r.choice(FAILING)))
                shapes.append("fails")
            elif k < 18 and specials:
                out.append([b"SELECT", r.choice([b"1", b"1", b"0", b"2", b"16", b"abc", b"-1"])])
                shapes.append("select")
            elif k < 26 and specials:
                # blocking pop inside MULTI: BLPOP / BRPOP, 1-2 keys, lists empty / missing / non-empty / of another type
                keys = [r.choice(BPOP_KEYS) for _ in range(r.range(1, 2))]
                sh = "bpop%dk" % len(keys)
                if r.chance(1, 2):
                    out.append([r.choice([b"RPUSH", b"LPUSH"]), r.choice(keys)] + [r.choice(ksgen.ELEMS) for _ in range(r.range(1, 2))])
                    shapes.append("push")
                    sh += "-after-push"
                out.append([r.choice([b"BLPOP", b"BRPOP"])] + keys + [r.choice([b"0", b"0", b"1", b"5"])])
                shapes.append(sh)
            elif k < 28:
                out.append([r.choice([b"BLPOP", b"BRPOP"]), b"l"] + r.choice([[], [b"abc"], [b"-1"]]))
                shapes.append("bpop-bad")
            elif k < 32 and specials:
                # UNWATCH between MULTI and EXEC: only queued, OK in its slot (well-formed) / an error in its slot (surplus argument)
                out.append([b"UNWATCH"] if r.chance(2, 3) else [b"UNWATCH", b"junk"])
                shapes.append("unwatch" if len(out[-1]) == 1 else "unwatch-junk")
            elif k < 35 and specials:
                # commands about the connection itself: they must act on the connection that queued them
                out.append(r.choice([[b"CLIENT", b"SETNAME", r.choice([b"worker-7", b"w2"])], [b"CLIENT", b"GETNAME"], [b"client", b"getname"]]))
                shapes.append("client")
            else:
                out.append(self.g.command())
                shapes.append(self.g.last_shape or "plain")
        return out, shapes


class Twin:
    """server A (transactions) + twin T (the same commands sent directly) + the Lean model of A"""

    def __init__(self, rep):
        self.rep = rep
        self.A = Server("c07a")
        self.T = Server("c07t")
        self.model = Model()
        self.a = self.A.client(timeout=2.0)
        self.b = self.A.client()          # observer on A
        self.t = self.T.client(timeout=2.0)
        self.tobs = self.T.client()
        self.cid = 0
        self.deaths = 0
        self.restarts = 0

    def close(self):
        for c in (self.a, self.b, self.t, self.tobs):
            c.close()
        self.A.stop()
        self.T.stop()
        self.model.close()

    def alive(self):
        return self.A.alive() and self.T.alive()

    def fresh(self):
        """both servers empty, new connection id in the model, both clients on database 0"""
        for c in (self.b, self.tobs):
            if c.cmd("FLUSHALL") != ("s", b"OK"):
                raise InternalError("FLUSHALL failed")
        self.model.reset()
        self.cid += 1
        self.a.close()
        self.t.close()
        self.a = self.A.client(timeout=2.0)
        self.t = self.T.client(timeout=2.0)

    def restart(self):
        """new server processes (after a failure that may have left state no FLUSHALL removes, e.g. a waiter)"""
        for c in (self.a, self.b, self.t, self.tobs):
            c.close()
        self.A.stop()
        self.T.stop()
        self.A = Server("c07a")
        self.T = Server("c07t")
        self.a, self.b = self.A.client(timeout=2.0), self.A.client()
        self.t, self.tobs = self.T.client(timeout=2.0), self.T.client()
        self.restarts += 1

    def turn(self, cli, n=3):
        """let the event loop turn n times (wake-ups, time-outs, clean-ups are loop work between frames)"""
        try:
            n0 = cli.cmd("VERIF", "LOOP")[1]
            for _ in range(5000):
                if cli.cmd("VERIF", "LOOP")[1] >= n0 + n:
                    return
        except (Closed, TimeoutError, ProtocolError, OSError, TypeError, IndexError):
            pass

    def direct_equiv(self, cli, c):
        """what the property prescribes for a queued command, sent directly: a blocking pop inside MULTI acts as
        its non-blocking variant (first key with an element: [key, element]; none: null array)"""
        if not bpop_valid(c):
            return self.impl(cli, c)
        pop = b"LPOP" if name_of(c) == "BLPOP" else b"RPOP"
        for k in c[1:-1]:
            try:
                r = cli.cmd(pop, k)
            except (Closed, TimeoutError, ProtocolError, OSError) as e:
                return "closed:" + type(e).__name__
            if r[0] == "b":
                return "( a ( b %s ) ( b %s ) )" % (hx(k), hx(r[1]))
            if r[0] != "nb":
                return canon_reply(pop.decode(), r)
        return "( na )"

    def impl(self, cli, args, names=None):
        """one request / one reply, canonical text; a closed connection or a malformed reply is an outcome"""
        try:
            r = cli.cmd(*args)
        except (Closed, TimeoutError, ProtocolError, OSError) as e:
            return "closed:" + type(e).__name__
        if names is not None:
            return canon_exec(names, r)
        return canon_reply(name_of(args), r)


def run_twin_case(tw, case, rep=None):
    """Executes one case. Returns a dict: steps (per frame: impl / code / spec), oracle failures,
    model disagreements, deviation tags."""
    setup, queue, mode = case["setup"], case["queue"], case["mode"]
    tw.fresh()
    m, cid = tw.model, tw.cid
    res = {"steps": [], "oracle": [], "disagree": [], "tags": set()}

    def record(impl, code, spec, same, args, what):
        st = {"frame": [hx(x) for x in args], "text": " ".join(repr(x.decode("latin-1")) for x in args), "what": what,
              "impl": impl, "code": code, "spec": spec, "same": same}
        res["steps"].append(st)
        if not eqx(impl, code):
            res["disagree"].append(st)
        if failed_oracle(impl, code, spec, same):
            res["oracle"].append(dict(st, why="reply (or the state the model's source variant reaches with it) differs from the prescribed one"))
        return st

    def step(conn_cli, args, what, names=None, conn=None):
        impl = tw.impl(conn_cli, args, names)
        code, spec, same = m.frame(cid if conn is None else conn, args)
        record(impl, code, spec, same, args, what)
        return impl

    def oracle(ok, why, **kw):
        if not ok:
            res["oracle"].append(dict(kw, why=why))

    for c in setup:
        step(tw.a, c, "setup")
        tw.impl(tw.t, c)
    before = dump_db(tw.b, 0) if mode["check_before"] else None
    names = [name_of(c) for c in queue]
    xnames = exec_names(queue)

    if mode["exec_first"]:
        r = step(tw.a, [b"EXEC"], "exec-without-multi")
        oracle(r == "( e )", "EXEC without MULTI must be refused", got=r)
        r = step(tw.a, [b"DISCARD"], "discard-without-multi")
        oracle(r == "( e )", "DISCARD without MULTI must be refused", got=r)

    exec_reply = None
    if mode["pipelined"]:
        # MULTI, the queue and the terminator in ONE write; replies read afterwards
        term = {"exec": b"EXEC", "discard": b"DISCARD"}[mode["end"]]
        frames = [[b"MULTI"]] + queue + [[term]]
        try:
            tw.a.send_raw(b"".join(Client.encode(f) for f in frames))
            raw = [tw.a.read_reply() for _ in frames]
        except (Closed, TimeoutError, ProtocolError, OSError) as e:
            raw = None
            res["oracle"].append({"why": "pipelined transaction: connection failed or reply malformed (%s)" % type(e).__name__})
        if raw is not None:
            for i, f in enumerate(frames):
                last = i == len(frames) - 1
                impl = canon_exec(xnames, raw[i]) if (last and term == b"EXEC") else canon_reply(name_of(f), raw[i])
                code, spec, same = m.frame(cid, f)
                st = record(impl, code, spec, same, f, "pipelined")
                if 0 < i < len(frames) - 1:
                    oracle(impl == QUEUED, "a command between MULTI and EXEC must be answered QUEUED", got=impl, frame=st["text"])
            exec_reply = res["steps"][-1]["impl"] if term == b"EXEC" else None
        else:
            for f in frames:
                m.frame(cid, f)
    else:
        if mode.get("malformed") in ("multi", "both"):
            r = step(tw.a, [b"MULTI", b"junk"], "malformed-multi")
            oracle(r == "( e )", "MULTI with a surplus argument must be refused", got=r)
            res["tags"].add("control-arity")
        r = step(tw.a, [b"MULTI"], "multi")
        oracle(r == OK, "MULTI must answer OK", got=r)
        nested_at = None
        if mode["nested"] and queue:
            nested_at = mode["nested"] % (len(queue) + 1)
        for i, c in enumerate(queue):
            if nested_at == i:
                r = step(tw.a, [b"MULTI"], "nested-multi")
                oracle(r == "( e )", "nested MULTI must be refused", got=r)
                r = step(tw.a, [b"WATCH", b"k1"], "watch-in-multi")
            r = step(tw.a, c, "queue")
            oracle(r == QUEUED, "a command between MULTI and EXEC must be answered QUEUED", got=r, frame=res["steps"][-1]["text"])
        if before is not None:
            mid = dump_db(tw.b, 0)
            oracle(mid == before, "queued commands took effect before EXEC", before=before, after=mid)
            if rep:
                rep.evaluations += 1
        if mode.get("malformed") in ("end", "both") and mode["end"] in ("exec", "discard"):
            bad = [b"EXEC", b"junk"] if mode["end"] == "exec" else [b"DISCARD", b"junk", b"x"]
            r = step(tw.a, bad, "malformed-" + mode["end"], names=xnames)
            oracle(r == "( e )", "%s with a surplus argument must be refused (and must neither run nor drop the queue)" % mode["end"].upper(), got=r)
            res["tags"].add("control-arity")
        if mode["end"] == "exec":
            exec_reply = step(tw.a, [b"EXEC"], "exec", names=xnames)
        elif mode["end"] == "discard":
            r = step(tw.a, [b"DISCARD"], "discard")
            oracle(r == OK, "DISCARD must answer OK", got=r)
        elif mode["end"] == "disconnect":
            tw.a.close()
            m.disc(cid)
            tw.turn(tw.b)       # so that "dropped" is not merely "not yet executed"
            tw.a = tw.A.client(timeout=2.0)
        elif mode["end"] == "quit":
            r = step(tw.a, [b"QUIT"], "quit-in-multi")       # the code queues it, and closes the connection
            try:
                tw.a.cmd("PING")
                res["oracle"].append({"why": "connection still open after QUIT"})
            except (Closed, TimeoutError, ProtocolError, OSError):
                pass
            m.disc(cid)
            tw.a.close()
            tw.a = tw.A.client(timeout=2.0)

    if mode["end"] == "exec":
        # ---- the property's oracle: EXEC = the same commands sent directly, one after another (a blocking pop
        #      acting as its non-blocking variant)
        direct = [tw.direct_equiv(tw.t, c) for c in queue]
        want = "( a%s )" % "".join(" " + x for x in direct)
        oracle(exec_reply == want, "EXEC's array differs from the replies of the same commands sent directly to the twin",
               exec=exec_reply, direct=want)
        if rep:
            for c, d in zip(queue, direct):
                if bpop_valid(c):
                    out = "nil" if d == "( na )" else ("error" if d == "( e )" else "served")
                    rep.count("twin.bpop-in-exec.%s.%dkey.%s" % (name_of(c), len(c) - 2, out))
                    rep.nontrivial(("bpop-in-exec", name_of(c), len(c) - 2, out))
        after = step(tw.a, [b"EXEC"], "exec-again")
        oracle(after == "( e )", "transaction state not cleared by EXEC", got=after)
    else:
        if mode["end"] != "discard":
            tw.cid += 1           # the model sees the reconnected client as a new connection
        after = step(tw.a, [b"EXEC"], "exec-after-" + mode["end"], conn=tw.cid)
        oracle(after == "( e )", "transaction state survived %s" % mode["end"], got=after)
        if mode["check_before"]:
            da = dump_db(tw.b, 0)
            oracle(da == before, "a transaction ended by %s changed the dataset" % mode["end"], before=before, after=da)

    # ---- post-transaction probe: once the transaction is over it has no further effect. Another connection
    #      pushes to every key the transaction named (on A and on the twin, and in the model); afterwards the
    #      dataset must be the twin's (which ran the commands directly / not at all) and the prescribed one
    probes = [[b"RPUSH", k, b"probe"] for k in named_keys(queue)[:6]] if mode.get("probe", True) else []
    for pc in probes:
        impl = tw.impl(tw.b, pc)
        code, spec, same = m.frame(9001, pc)
        record(impl, code, spec, same, pc, "probe")
        if m.last_deliveries[1]:
            oracle(False, "the model prescribes a delivery to a blocked client in a twin case (harness error)", deliveries=m.last_deliveries[1])
        tw.impl(tw.tobs, pc)
    if probes:
        if rep:
            rep.count("twin.probe.push-after-%s" % mode["end"], len(probes))
            rep.nontrivial(("probe", mode["end"], any(bpop_valid(c) for c in queue)))
        tw.turn(tw.b)
        tw.turn(tw.tobs)
    dbs = [0, 1, 2] if any(n == "SELECT" for n in names) else [0]
    for db in dbs:
        da, dt = dump_db(tw.b, db), dump_db(tw.tobs, db)
        dm, ds = m.dump(db), m.dumpspec(db)
        what = "after EXEC" if mode["end"] == "exec" else "after a transaction ended by %s" % mode["end"]
        oracle(da == dt, "dataset %s and later pushes by another connection differs from the twin's (same commands sent directly%s, same pushes) (db %d)"
               % (what, "" if mode["end"] == "exec" else " - none, the transaction was dropped", db), impl_dump=da, twin_dump=dt)
        oracle(da == ds, "dataset %s and later pushes by another connection differs from the prescribed one (db %d)" % (what, db), impl_dump=da, prescribed=ds)
        if da != dm:
            res["disagree"].append({"what": "dump db %d" % db, "impl": da, "code": dm})
    for st in res["steps"]:
        if "( noresponse )" in st["code"]:
            res["tags"].add("blocking-in-exec")
    if any(n == "SELECT" for n in names):
        res["tags"].add("select-in-exec")
    for c in queue:
        res["tags"] |= shape_tags(c, True)
    return res


def protocol_scenarios(tw, rep):
    """fixed scenarios the random cases do not reach: EXEC after a WATCH that fails / passes (the outcome of the
    check is handed to the model as `watchOk`: C08 owns it), an empty frame inside MULTI"""
    out = {"oracle": [], "disagree": []}
    m = tw.model

    def step(cli, conn, args, watch_ok=True, names=None, raw=None):
        if raw is not None:
            try:
                cli.send_raw(raw)
                impl = canon_reply("", cli.read_reply())
            except (Closed, TimeoutError, ProtocolError, OSError) as e:
                impl = "closed:" + type(e).__name__
        else:
            impl = tw.impl(cli, args, names)
        code, spec, same = m.frame(conn, args, watch_ok)
        st = {"text": " ".join(repr(x.decode("latin-1")) for x in args) or "<empty frame>", "impl": impl, "code": code, "spec": spec, "same": same}
        rep.evaluations += 1
        if not eqx(impl, code):
            out["disagree"].append(st)
        if failed_oracle(impl, code, spec, same):
            out["oracle"].append(dict(st, why="reply or resulting state differs from the prescribed one"))
        return impl

    for touched in (True, False):
        tw.fresh()
        cid = tw.cid
        step(tw.a, cid, [b"SET", b"k", b"1"])
        step(tw.a, cid, [b"WATCH", b"k"])
        if touched:
            step(tw.b, 9001, [b"SET", b"k", b"2"])
        step(tw.a, cid, [b"MULTI"])
        step(tw.a, cid, [b"SET", b"j", b"1"])
        step(tw.a, cid, [b"INCR", b"k"])
        r = step(tw.a, cid, [b"EXEC"], watch_ok=not touched, names=["SET", "INCR"])
        rep.nontrivial(("scenario", "watch", touched, r))
        want = "( na )" if touched else "( a ( s 4f4b ) ( i 2 ) )"
        if r != want:
            out["oracle"].append({"why": "EXEC after WATCH (%s): expected %s" % ("key changed" if touched else "key untouched", want), "got": r})
        da, dm = dump_db(tw.b, 0), m.dump(0)
        if da != dm:
            out["disagree"].append({"what": "dump after EXEC with WATCH", "impl": da, "code": dm})
        r = step(tw.a, cid, [b"EXEC"])
        if r != "( e )":
            out["oracle"].append({"why": "transaction state not cleared by an EXEC whose WATCH check failed", "got": r})
    tw.fresh()
    cid = tw.cid
    step(tw.a, cid, [b"MULTI"])
    r = step(tw.a, cid, [], raw=b"*0\r\n")
    rep.nontrivial(("scenario", "empty-frame", r))
    step(tw.a, cid, [b"SET", b"x", b"1"])
    r = step(tw.a, cid, [b"EXEC"], names=["SET"])
    if r != "( a ( s 4f4b ) )":
        out["oracle"].append({"why": "an empty frame inside MULTI must not be queued", "got": r})
    return out


# ---------------------------------------------------------------- (i-c) chains of transactions on one connection
WATCH_KEYS = [b"wk", b"k1", b"l"]


def gen_chain(r):
    """2-4 transactions one after another on ONE connection; the earlier ones end in every possible way (EXEC that
    runs, EXEC aborted because another connection changed a WATCHed key, DISCARD, commands failing at run time or
    refused names queued, MULTI inside MULTI, EXEC/DISCARD without MULTI in between); the last one is a fresh
    MULTI..EXEC that must run exactly its own commands"""
    g = QueueGen(r)
    rounds = []
    n = r.range(2, 4)
    for i in range(n):
        last = i == n - 1
        k = r.below(100)
        watch = [r.choice(WATCH_KEYS) for _ in range(r.range(1, 2))] if (k < 55 or (last and r.chance(1, 3))) else []
        touch = "none"
        unwatch = bool(watch) and r.chance(1, 5)          # WATCH ..; UNWATCH: later changes of the keys must not abort
        if watch and r.chance(3, 4) and (not last or unwatch):
            touch = r.choice(["before-multi", "after-queue"]) if not unwatch else "before-multi"
        end = "exec" if (last or r.chance(7, 10)) else "discard"
        q, _ = g.queue(r.range(0 if not last else 1, 5))
        rounds.append({"watch": [hx(x) for x in watch], "unwatch": unwatch, "touch": touch, "pre": r.choice(["none", "none", "none", "exec", "discard"]),
                       "nested": r.below(7) if r.chance(1, 5) else 0, "queue": [[hx(x) for x in c] for c in q], "end": end,
                       # once the transaction has ended (in whatever way) its WATCHes are gone: another connection then changes every
                       # key it had watched, and the NEXT transaction on this connection must run
                       "stale_touch": bool(watch) and not last and r.chance(3, 4),
                       # WATCH ..; UNWATCH junk: refused, the keys stay watched
                       "malformed_unwatch": bool(watch) and r.chance(1, 6)})
    return {"kind": "chain", "setup": [[hx(x) for x in c] for c in g.setup()], "rounds": rounds}


def chain_text(case):
    def t(c):
        return " ".join(unhx(x).decode("latin-1") for x in c)
    return {"setup": [t(c) for c in case["setup"]],
            "rounds": [{"watch": [unhx(x).decode("latin-1") for x in rd["watch"]], "then_unwatch": rd.get("unwatch", False),
                        "then_unwatch_with_a_surplus_argument": rd.get("malformed_unwatch", False),
                        "another_connection_changes_watched_key": rd["touch"], "and_again_after_the_transaction_ended": rd.get("stale_touch", False), "first": rd["pre"],
                        "nested_multi_at": rd["nested"], "queue": [t(c) for c in rd["queue"]], "end": rd["end"]} for rd in case["rounds"]]}


def run_chain_case(tw, case, rep=None):
    tw.fresh()
    m, cid = tw.model, tw.cid
    res = {"steps": [], "oracle": [], "disagree": [], "tags": set()}

    def step(cli, args, what, names=None, conn=None, watch_ok=True, watch_ok_code=None):
        impl = tw.impl(cli, args, names)
        code, spec, same = m.frame(cid if conn is None else conn, args, watch_ok, watch_ok_code)
        st = {"text": " ".join(repr(x.decode("latin-1")) for x in args), "what": what, "impl": impl, "code": code, "spec": spec, "same": same}
        res["steps"].append(st)
        if not eqx(impl, code):
            res["disagree"].append(st)
        if failed_oracle(impl, code, spec, same):
            res["oracle"].append(dict(st, why="reply (or the state the model's source variant reaches with it) differs from the prescribed one"))
        return impl

    def oracle(ok, why, **kw):
        if not ok:
            res["oracle"].append(dict(kw, why=why))

    for c in case["setup"]:
        c = [unhx(x) for x in c]
        step(tw.a, c, "setup")
        tw.impl(tw.t, c)
    all_cmds = []
    for ri, rd in enumerate(case["rounds"]):
        queue = [[unhx(x) for x in c] for c in rd["queue"]]
        watch = [unhx(x) for x in rd["watch"]]
        names = [name_of(c) for c in queue]
        all_cmds += queue
        touched = False

        wdb = str(m.conn(cid)[0]).encode()      # keys are watched in the database selected at WATCH time

        def touch(keys, what):
            cs = [[b"SET", k, b"changed%d" % ri] for k in keys]
            if wdb != b"0":
                cs = [[b"SELECT", wdb]] + cs + [[b"SELECT", b"0"]]
            for c in cs:
                step(tw.b, c, what, conn=9001)
                tw.impl(tw.tobs, c)
        if rd["pre"] in ("exec", "discard"):
            r0 = step(tw.a, [rd["pre"].upper().encode()], rd["pre"] + "-without-multi")
            oracle(r0 == "( e )", "%s without MULTI must be refused" % rd["pre"].upper(), got=r0, round=ri)
        if watch:
            r0 = step(tw.a, [b"WATCH"] + watch, "watch")
            oracle(r0 == OK, "WATCH must answer OK", got=r0, round=ri)
            if rd.get("unwatch"):
                r0 = step(tw.a, [b"UNWATCH"], "unwatch")
                oracle(r0 == OK, "UNWATCH must answer OK", got=r0, round=ri)
            if rd.get("malformed_unwatch"):
                r0 = step(tw.a, [b"UNWATCH", b"junk"], "malformed-unwatch")
                oracle(r0 == "( e )", "UNWATCH with a surplus argument must be refused (the keys stay watched)", got=r0, round=ri)
                res["tags"].add("control-arity")
        # what is still watched when EXEC checks: the property (a valid UNWATCH sent OUTSIDE a transaction drops the watches; one sent
        # between MULTI and EXEC is only queued; a malformed one is refused) / the source variant (switches read off the source)
        armed_spec = bool(watch) and not rd.get("unwatch")
        armed_code = armed_spec and not (rd.get("malformed_unwatch") and switches().get("control-arity"))
        if switches().get("unwatch-in-multi") and any(name_of(c) == "UNWATCH" and (len(c) == 1 or switches().get("control-arity")) for c in queue):
            armed_code = False
        changed = False
        for c in queue:
            res["tags"] |= shape_tags(c, True)
        if watch and rd["touch"] == "before-multi":
            touch(watch[:1], "another-connection-changes-watched-key")
            changed = True
        r0 = step(tw.a, [b"MULTI"], "multi")
        oracle(r0 == OK, "MULTI must answer OK", got=r0, round=ri)
        nested_at = rd["nested"] % (len(queue) + 1) if (rd["nested"] and queue) else None
        for i, c in enumerate(queue):
            if nested_at == i:
                r0 = step(tw.a, [b"MULTI"], "nested-multi")
                oracle(r0 == "( e )", "nested MULTI must be refused", got=r0, round=ri)
            r0 = step(tw.a, c, "queue")
            oracle(r0 == QUEUED, "a command between MULTI and EXEC must be answered QUEUED", got=r0, round=ri)
        if watch and rd["touch"] == "after-queue":
            touch(watch[:1], "another-connection-changes-watched-key")
            changed = True
        touched = changed and armed_spec
        if rd["end"] == "exec":
            got = step(tw.a, [b"EXEC"], "exec", names=exec_names(queue), watch_ok=not touched, watch_ok_code=not (changed and armed_code))
            if touched:
                oracle(got == "( na )", "EXEC after a WATCHed key was changed by another connection must answer a null array", got=got, round=ri)
                outcome = "aborted-by-watch"
            else:
                oracle(got != "( na )", "EXEC answered a null array although no key WATCHed for THIS transaction was changed (the watches of an earlier "
                       "transaction end with its EXEC / DISCARD, those dropped by UNWATCH with it)", got=got, round=ri)
                direct = [tw.direct_equiv(tw.t, c) for c in queue]
                want = "( a%s )" % "".join(" " + x for x in direct)
                oracle(got == want, "EXEC of transaction %d on this connection must return exactly the replies of ITS %d queued commands (as sent directly to the twin)"
                       % (ri + 1, len(queue)), exec=got, direct=want, round=ri)
                outcome = "ran" if "( e )" not in got else "ran-with-errors"
        else:
            r0 = step(tw.a, [b"DISCARD"], "discard")
            oracle(r0 == OK, "DISCARD must answer OK", got=r0, round=ri)
            outcome = "discarded"
        if watch and rd.get("stale_touch"):
            touch(watch, "another-connection-changes-formerly-watched-keys")
            if rep:
                rep.count("chain.formerly-watched-keys-changed-after.%s" % outcome)
        if rep:
            if rd.get("unwatch"):
                rep.count("chain.watch-unwatch%s" % (".then-changed" if rd["touch"] != "none" else ""))
            rep.count("chain.round%d.%s" % (min(ri, 3), outcome))
            rep.nontrivial(("chain", min(ri, 3), outcome, rd["pre"], bool(nested_at is not None), len(queue) > 0))
    after = step(tw.a, [b"EXEC"], "exec-again")
    oracle(after == "( e )", "transaction state not cleared at the end of the chain", got=after)
    for pc in [[b"RPUSH", k, b"probe"] for k in named_keys(all_cmds)[:6]]:
        step(tw.b, pc, "probe", conn=9001)
        tw.impl(tw.tobs, pc)
    tw.turn(tw.b)
    da, dt, dm, ds = dump_db(tw.b, 0), dump_db(tw.tobs, 0), m.dump(0), m.dumpspec(0)
    oracle(da == dt, "dataset after the chain of transactions differs from the twin's (which ran directly exactly the commands of the transactions that were executed)",
           impl_dump=da, twin_dump=dt)
    oracle(da == ds, "dataset after the chain of transactions differs from the prescribed one", impl_dump=da, prescribed=ds)
    if da != dm:
        res["disagree"].append({"what": "dump db 0", "impl": da, "code": dm})
    return res


def shrink_chain(case, findings):
    rep = Report(PID, "shrink", 0)
    tw = Twin(rep)

    def fails(c):
        res = run_chain_case(tw, c)
        return bool(res["oracle"]) and classify(res, findings) is None
    try:
        if not fails(case):
            return case
        small = dict(case)
        if len(small["rounds"]) > 1:
            small["rounds"] = shrink_list(small["rounds"], lambda rs: fails(dict(small, rounds=rs)), max_steps=20)
        for i in range(len(small["rounds"])):
            rd = small["rounds"][i]
            if len(rd["queue"]) > 1:
                def with_q(q, i=i, rd=rd):
                    rs = list(small["rounds"])
                    rs[i] = dict(rd, queue=q)
                    return dict(small, rounds=rs)
                q = shrink_list(rd["queue"], lambda q: fails(with_q(q)), max_steps=20)
                small = with_q(q)
        if len(small["setup"]) > 1:
            small["setup"] = shrink_list(small["setup"], lambda su: fails(dict(small, setup=su)), max_steps=15)
        small["text"] = chain_text(small)
        small["shrunk_from"] = {"rounds": len(case["rounds"])}
        return small
    except (InternalError, OSError):
        return case
    finally:
        tw.close()


# ---------------------------------------------------------------- (i-d) a transaction that straddles a blocking pop and two writes
def gen_straddle(r, allow_timeout):
    """one connection sends, in a first write, a BLPOP/BRPOP that really blocks followed by the first part of
    `MULTI q.. EXEC tail..`, and in a second write - while it is blocked - the rest; it is then unblocked by another
    connection's push or by its time-out.  Frames of a blocked client wait, and run in the order sent."""
    g = QueueGen(r)
    q, _ = g.queue(r.range(1, 5), specials=False)
    tail = [g.g.command() for _ in range(r.range(0, 2))]
    frames = [[b"MULTI"]] + q + [[b"EXEC"]] + tail
    unblock = "timeout" if (allow_timeout and r.chance(1, 2)) else "push"
    keys = [b"bq"] + ([b"bq2"] if r.chance(1, 3) else [])
    pop = [r.choice([b"BLPOP", b"BRPOP"])] + keys + [b"1" if unblock == "timeout" else b"0"]
    return {"kind": "straddle", "setup": [[hx(x) for x in c] for c in g.setup()], "pop": [hx(x) for x in pop], "push_key": hx(r.choice(keys)),
            "frames": [[hx(x) for x in c] for c in frames], "split": r.range(0, len(frames)), "unblock": unblock}


def straddle_text(case):
    def t(c):
        return " ".join(unhx(x).decode("latin-1") for x in c)
    fr = [t(c) for c in case["frames"]]
    return {"setup": [t(c) for c in case["setup"]], "first_write": [t(case["pop"])] + fr[:case["split"]], "second_write_while_blocked": fr[case["split"]:],
            "unblocked_by": "another connection: RPUSH %s j1" % unhx(case["push_key"]).decode("latin-1") if case["unblock"] == "push" else "its time-out (1 s)"}


def run_straddle_case(tw, case, rep=None):
    tw.fresh()
    m, cid = tw.model, tw.cid
    res = {"steps": [], "oracle": [], "disagree": [], "tags": set()}
    pop = [unhx(x) for x in case["pop"]]
    frames = [[unhx(x) for x in c] for c in case["frames"]]
    split = min(case["split"], len(frames))
    push_key = unhx(case["push_key"])

    def oracle(ok, why, **kw):
        if not ok:
            res["oracle"].append(dict(kw, why=why))

    for c in case["setup"]:
        c = [unhx(x) for x in c]
        tw.impl(tw.a, c)
        m.frame(cid, c)
        tw.impl(tw.t, c)
    # ---- first write: the pop (blocks) and what is pipelined behind it
    code, spec, same = m.frame(cid, pop)
    if spec != "( noresponse )":
        raise InternalError("harness: the pop of a straddle case does not block in the model: %s" % spec)
    try:
        tw.a.send_raw(b"".join(Client.encode(f) for f in [pop] + frames[:split]))
    except OSError:
        res["oracle"].append({"why": "connection failed on the first write"})
        return res
    for _ in range(3000):
        reg = tw.b.cmd("VERIF", "BLOCKED")
        if reg[0] == "a" and any(reg[1][j] == ("b", pop[1]) and reg[1][j + 1][0] == "a" and reg[1][j + 1][1] for j in range(0, len(reg[1]) - 1, 2)):
            break
    # ---- second write, while the client is blocked
    try:
        if frames[split:]:
            tw.a.send_raw(b"".join(Client.encode(f) for f in frames[split:]))
    except OSError:
        res["oracle"].append({"why": "connection failed on the second write"})
        return res
    tw.turn(tw.b)
    oracle(tw.a.nothing_pending(0.01), "a client blocked in a blocking pop was sent a reply before it was unblocked")
    # ---- unblock
    if case["unblock"] == "push":
        pc = [b"RPUSH", push_key, b"j1"]
        impl = tw.impl(tw.b, pc)
        code, spec, same = m.frame(9001, pc)
        if failed_oracle(impl, code, spec, same):
            res["oracle"].append({"why": "the unblocking push was not answered as prescribed", "impl": impl, "spec": spec})
        want_pop = m.last_deliveries[1][0][1] if m.last_deliveries[1] else "?"
        tw.impl(tw.tobs, pc)
        twin_pop = tw.impl(tw.t, pop)            # on the twin the element is already there: the same command does not block
    else:
        want_pop = "( na )"
        m.disc(cid)                                # (time-outs are outside the model: the waiter goes, the connection is as before)
        twin_pop = tw.direct_equiv(tw.t, pop)
    # ---- replies, in the order sent
    qnames = []
    seen_multi = False
    for f in frames:
        if name_of(f) == "MULTI":
            seen_multi = True
        elif name_of(f) == "EXEC":
            break
        elif seen_multi:
            qnames.append(name_of(f))
    got = []
    try:
        got.append(canon_reply("", tw.a.read_reply(3.0)))
        for f in frames:
            rr = tw.a.read_reply(2.0)
            got.append(canon_exec(qnames, rr) if name_of(f) == "EXEC" else canon_reply(name_of(f), rr))
    except (Closed, TimeoutError, ProtocolError, OSError) as e:
        got.append("nothing:" + type(e).__name__)
    twin = [twin_pop] + [tw.impl(tw.t, f, qnames if name_of(f) == "EXEC" else None) for f in frames]
    model = [(want_pop, want_pop, True)] + [m.frame(cid, f) for f in frames]
    for i, f in enumerate([pop] + frames):
        have = got[i] if i < len(got) else "nothing"
        code, spec, same = model[i]
        st = {"text": " ".join(repr(x.decode("latin-1")) for x in f), "what": "first-write" if i <= split else "second-write", "impl": have, "twin": twin[i],
              "code": code, "spec": spec, "same": same}
        res["steps"].append(st)
        if not eqx(have, code):
            res["disagree"].append(st)
        if have != twin[i]:
            res["oracle"].append(dict(st, why="reply %d of the stream differs from the twin's, where the same frames were sent without blocking (frames of a blocked "
                                              "client must wait and then run in the order sent)" % i))
        elif failed_oracle(have, code, spec, same):
            res["oracle"].append(dict(st, why="reply differs from the prescribed one"))
    r0 = tw.impl(tw.a, [b"EXEC"])
    c0 = m.frame(cid, [b"EXEC"])
    oracle(r0 == "( e )", "after the pipeline the connection must be outside any transaction (EXEC without MULTI refused)", got=r0)
    if r0 != c0[0]:
        res["disagree"].append({"what": "exec-again", "impl": r0, "code": c0[0]})
    tw.impl(tw.t, [b"EXEC"])
    for pc in [[b"RPUSH", k, b"probe"] for k in named_keys([pop] + frames)[:6]]:
        impl = tw.impl(tw.b, pc)
        code, spec, same = m.frame(9001, pc)
        if failed_oracle(impl, code, spec, same):
            res["oracle"].append({"why": "probe push after the pipeline not answered as prescribed", "text": repr(pc), "impl": impl, "spec": spec})
        tw.impl(tw.tobs, pc)
    tw.turn(tw.b)
    for db in (0,):
        da, dt, dm, ds = dump_db(tw.b, db), dump_db(tw.tobs, db), m.dump(db), m.dumpspec(db)
        oracle(da == dt, "dataset after the pipeline differs from the twin's", impl_dump=da, twin_dump=dt)
        oracle(da == ds, "dataset after the pipeline differs from the prescribed one", impl_dump=da, prescribed=ds)
        if da != dm:
            res["disagree"].append({"what": "dump db %d" % db, "impl": da, "code": dm})
    if rep:
        where = "pop-only" if split == 0 else ("whole-pipeline" if split >= len(frames) else ("multi-and-part-of-queue" if split <= len(qnames) + 1 else "through-exec"))
        rep.count("straddle.first-write.%s.unblocked-by-%s" % (where, case["unblock"]))
        rep.nontrivial(("straddle", where, case["unblock"], name_of(pop), len(pop) - 2))
    if res["oracle"]:
        tw.restart()
    return res


def shrink_straddle(case, findings):
    rep = Report(PID, "shrink", 0)
    tw = Twin(rep)

    def fails(c):
        return bool(run_straddle_case(tw, c)["oracle"])
    try:
        if not fails(case):
            return case
        small = dict(case)
        # drop frames one at a time (keeping the position of the cut between the two writes relative to what remains)
        i = 0
        while i < len(small["frames"]) and len(small["frames"]) > 1:
            cand = dict(small, frames=small["frames"][:i] + small["frames"][i + 1:], split=small["split"] - (1 if i < small["split"] else 0))
            if fails(cand):
                small = cand
            else:
                i += 1
        if len(small["setup"]) > 1:
            small["setup"] = shrink_list(small["setup"], lambda su: fails(dict(small, setup=su)), max_steps=12)
        small["text"] = straddle_text(small)
        small["shrunk_from"] = {"frames": len(case["frames"])}
        return small
    except (InternalError, OSError):
        return case
    finally:
        tw.close()


def gen_mode(r):
    k = r.below(100)
    end = "exec" if k < 66 else ("discard" if k < 80 else ("disconnect" if k < 94 else "quit"))
    pipelined = end in ("exec", "discard") and r.chance(1, 5)
    return {"end": end, "pipelined": pipelined, "nested": r.below(13) if (not pipelined and r.chance(1, 5)) else 0,
            "exec_first": r.chance(1, 8), "check_before": r.chance(1, 3),
            # MULTI / EXEC / DISCARD with a surplus argument: refused, nothing changes
            "malformed": r.choice(["multi", "end", "both"]) if (not pipelined and r.chance(1, 7)) else None}


def case_text(case):
    return {"setup": [[x.decode("latin-1") for x in c] for c in case["setup"]],
            "queue": [[x.decode("latin-1") for x in c] for c in case["queue"]], "mode": case["mode"]}


def case_json(case):
    return {"kind": "twin", "setup": [[hx(x) for x in c] for c in case["setup"]], "queue": [[hx(x) for x in c] for c in case["queue"]],
            "mode": case["mode"], "text": case_text(case)}


def case_from_json(o):
    return {"setup": [[unhx(x) for x in c] for c in o["setup"]], "queue": [[unhx(x) for x in c] for c in o["queue"]], "mode": o["mode"]}


def shape_tags(args, in_tx):
    """shapes of the open findings a frame can have: (name, sent inside a transaction?)"""
    nm = name_of(args)
    out = set()
    if nm == "UNWATCH" and in_tx:
        out.add("unwatch-in-multi")
    if nm in ("MULTI", "EXEC", "DISCARD", "UNWATCH") and len(args) != 1:
        out.add("control-arity")
    if nm == "CLIENT" and in_tx:
        out.add("client-conn-zero")
    return out


def classify(res, findings):
    """An oracle failure is a listed finding iff the source variant of the model (which embodies the listed
    deviations and nothing else) predicted every reply, delivery and dump, and the case has a finding's shape."""
    if res["disagree"]:
        return None
    for tag in ("blocking-in-exec", "select-in-exec", "unwatch-in-multi", "control-arity", "client-conn-zero"):
        if tag in res["tags"] and tag in findings:
            return findings[tag]
    return None


# ---------------------------------------------------------------- (ii) interleaved connections
CONTROL = ("MULTI", "EXEC", "DISCARD", "WATCH", "UNWATCH", "SELECT")


BLOCK_KEYS = [b"bq", b"bq2", b"l"]
BLOCKER_SLOTS = (10, 11)


def list_traffic(r):
    """commands that create, consume, move or remove the lists blocked clients wait on"""
    k = r.below(10)
    key = r.choice(BLOCK_KEYS)
    if k < 4:
        return [r.choice([b"RPUSH", b"LPUSH"]), key] + [r.choice([b"a", b"b", b"c"]) for _ in range(r.range(1, 2))]
    if k < 6:
        return [r.choice([b"LPOP", b"RPOP"]), key]
    if k == 6:
        return [b"RENAME", r.choice([b"l", b"bq", b"k1"]), key]
    if k == 7:
        return [b"DEL", key]
    if k == 8:
        return [b"LLEN", key]
    return [b"SET", key, b"notalist"]


def classify_interleaved(case, orc, dis, findings):
    """a failing schedule is a listed finding iff (a) the source variant of the model predicted everything and the schedule has a
    finding's shape, or (b) - the stale-waiter finding, which no switch of the model reproduces - everything that failed or
    disagreed lies at or after the kill-and-transactions write that ends the schedule"""
    hit = [t for t in case.get("tags", []) if t in findings and t != "stale-waiter"]
    k = case.get("kill_at")
    late = lambda e: k is not None and (e == k or (isinstance(e, str) and (e in ("drain", "end") or e.startswith("final dump"))))
    early_orc = [x for x in orc if not late(x.get("event"))]
    early_dis = [x for x in dis if not late(x.get("event"))]
    late_any = [x for x in list(orc) + list(dis) if late(x.get("event"))]
    if early_dis or (early_orc and not hit):
        return None
    if late_any and not (hit and not [x for x in dis if late(x.get("event"))]) and "stale-waiter" not in findings:
        return None
    if late_any and [x for x in dis if late(x.get("event"))] and "stale-waiter" not in findings:
        return None
    if early_orc:
        return findings[hit[0]]
    if late_any:
        return findings["stale-waiter"] if ("stale-waiter" in findings and k is not None) else (findings[hit[0]] if hit else None)
    return None


def run_interleaved(rep, tw, r, n_events, given=None):
    """2-3 connections on server A plus up to two third-party clients that block in BLPOP/BRPOP, one request at
    a time in a random (or given) order.  The model predicts every reply AND which blocked client is served
    what after which frame (never inside an EXEC).  Returns (case, oracle failures, model disagreements);
    `case` = {setup, nconn, events} replays exactly."""
    tw.fresh()
    m = tw.model
    g = QueueGen(r)
    setup = [[unhx(x) for x in c] for c in given["setup"]] if given else g.setup()
    for c in setup:
        tw.impl(tw.b, c)
        m.frame(9000, c)
    nconn = given["nconn"] if given else r.range(2, 3)
    clis, ids, qn, blocked = {}, {}, {}, set()
    nxt = [100 * tw.cid]

    sid = {}            # the server's own id of the third-party clients (for CLIENT KILL ID)

    def connect(slot):
        nxt[0] += 1
        ids[slot] = nxt[0]
        clis[slot] = tw.A.client(timeout=2.0)
        if slot in BLOCKER_SLOTS:
            x = clis[slot].cmd("CLIENT", "ID")
            sid[slot] = x[1] if x[0] == "i" else -1
    for s in list(range(nconn)) + list(BLOCKER_SLOTS):
        connect(s)
    events, oracle, disagree = [], [], []
    kill_at = None
    burst = {}          # slot -> commands still to send: a transaction working several times on a key somebody waits on
    case_tags = set()   # shapes of open findings met in this schedule

    def note(key):
        if rep:
            rep.count(key)

    def deliveries(i, after):
        """what the service of blocked clients after the last frame must have sent to them (prescribed), and what the
        source variant of the model says the implementation sends (they differ only under an open finding)"""
        dcode, dspec = m.last_deliveries
        got = []
        for cid in [c for c, _ in dspec] + [c for c, _ in dcode if c not in [x for x, _ in dspec]]:
            slot = next((sl for sl, c in ids.items() if c == cid), None)
            if slot is None:
                oracle.append({"event": i, "why": "harness: delivery prescribed for an unknown connection %d" % cid})
                continue
            try:
                have = canon_reply("", clis[slot].read_reply(2.0))
                blocked.discard(slot)
            except (Closed, TimeoutError, ProtocolError, OSError) as e:
                have = None
            if have is not None:
                got.append((cid, have))
            note("il.served.after-%s" % after)
            if rep:
                rep.nontrivial(("il", "served", after, have is not None))
        if got != dspec:
            oracle.append({"event": i, "why": "the blocked clients were not served what is prescribed after this frame", "got": got, "prescribed": dspec, "tag": None})
        if got != dcode:
            disagree.append({"event": i, "what": "deliveries", "impl": got, "code": dcode})

    try:
        total = len(given["events"]) if given else n_events
        for i in range(total):
            extra = None
            if given:
                ev = given["events"][i]
                slot, kind, hexargs = ev[0], ev[1], ev[2]
                extra = ev[3] if len(ev) > 3 else None
                args = [unhx(x) for x in hexargs]
            else:
                free_blockers = [sl for sl in BLOCKER_SLOTS if sl not in blocked]
                wl = [x.split(":") for x in m.waiters().split(";") if x != "."]
                shared = [k for k in (wl[0][3].split(",") if len(wl) >= 2 else []) if k in wl[1][3].split(",")]
                idle = [sl for sl in range(nconn) if not m.conn(ids[sl])[1]]
                if shared and idle and len(blocked) == 2 and r.chance(1, 2):
                    # stale waiter: the FIRST waiter on a key two third parties wait on is killed, and in the same write a
                    # transaction pushes to the key and a second one reads it several times: the second waiter must be served
                    # after the first EXEC, never between two commands of the second
                    slot, kind, args = r.choice(idle), "killburst", []
                    victim = next(sl for sl, c in ids.items() if c == int(wl[0][0]))
                    key = unhx(shared[0])
                    extra = {"victim": victim, "frames": [[hx(x) for x in f] for f in (
                        [[b"MULTI"], [r.choice([b"RPUSH", b"LPUSH"]), key] + [b"x", b"y"][:r.range(1, 2)], [b"EXEC"], [b"MULTI"], [b"LLEN", key],
                         r.choice([[b"LLEN", key], [b"LPOP", key]]), [b"LRANGE", key, b"0", b"-1"], [b"EXEC"]])]}
                elif free_blockers and r.chance(1, 9):
                    slot = r.choice(free_blockers)
                    kind = "block"
                    keys = [r.choice(BLOCK_KEYS) for _ in range(r.range(1, 2))]
                    if wl and r.chance(1, 2):
                        keys[0] = unhx(r.choice(wl[0][3].split(",")))       # wait behind somebody else
                    args = [r.choice([b"BLPOP", b"BRPOP"])] + keys + [b"0"]
                else:
                    pending = [sl for sl in burst if burst[sl]]
                    slot = r.choice(pending) if (pending and r.chance(2, 3)) else r.below(nconn)
                    _, intx, _, _ = m.conn(ids[slot])
                    k = r.below(100)
                    kind = "frame"
                    if intx and not burst.get(slot) and blocked and r.chance(1, 4):
                        # a transaction that pushes to a key a third party waits on, then runs a command after which
                        # the server sweeps the waiters (RENAME/RENAMENX) or other commands, then looks at / pops the key:
                        # it must see its own element - nobody is served before EXEC is over
                        w = [x for x in m.waiters().split(";") if x != "."]
                        wkey = unhx(r.choice(r.choice(w).split(":")[3].split(","))) if w else r.choice(BLOCK_KEYS)
                        mid = r.choice([[b"RENAME", b"k1", b"k1x"], [b"RENAMENX", b"k1", b"k2"], [b"RENAME", b"miss", b"nokey"], [b"RENAME", b"h", b"h2"],
                                        [b"SET", b"mid", b"1"], [b"RENAME", b"l", b"l9"]])
                        burst[slot] = [[r.choice([b"RPUSH", b"LPUSH"]), wkey] + [r.choice([b"a", b"b"]) for _ in range(r.range(1, 2))], mid,
                                       r.choice([[b"LLEN", wkey], [b"LPOP", wkey], [b"RPOP", wkey], [b"LRANGE", wkey, b"0", b"-1"]]), [b"EXEC"]]
                        note("il.tx-burst.push-sweep-read-on-waited-key")
                    if intx and burst.get(slot):
                        args = burst[slot].pop(0)
                    elif intx:
                        if k < 30:
                            args = g.queue(1, specials=False)[0][0]
                        elif k < 55:
                            args = list_traffic(r)
                        elif k < 72:
                            args = [b"EXEC"]
                        elif k < 80:
                            args = [b"DISCARD"]
                        elif k < 84:
                            args = [b"MULTI"]
                        elif k < 86:
                            args = [b"WATCH", b"k1"]
                        elif k < 89:
                            # only queued (UNWATCH, CLIENT ..) / refused without any effect (surplus arguments)
                            args = r.choice([[b"UNWATCH"], [b"UNWATCH"], [b"UNWATCH", b"junk"], [b"EXEC", b"junk"], [b"DISCARD", b"junk", b"x"],
                                             [b"CLIENT", b"SETNAME", b"n1"], [b"CLIENT", b"GETNAME"]])
                        elif k < 92:
                            kind, args = "disc", []
                        elif k < 96:
                            args = [r.choice([b"BLPOP", b"BRPOP"])] + [r.choice(BLOCK_KEYS) for _ in range(r.range(1, 2))] + [b"0"]
                        else:
                            args = [b"SELECT", r.choice([b"0", b"1"])]
                    else:
                        if k < 30:
                            args = [b"MULTI"]
                        elif k < 36:
                            args = [b"SELECT", r.choice([b"0", b"1", b"1", b"16"])]
                        elif k < 40:
                            args = r.choice([[b"EXEC"], [b"DISCARD"], [b"EXEC"], [b"DISCARD"], [b"MULTI", b"junk"], [b"UNWATCH", b"junk"], [b"WATCH"], [b"UNWATCH"]])
                        elif k < 43:
                            kind, args = "disc", []
                        elif k < 68:
                            args = list_traffic(r)
                        else:
                            args = g.queue(1, specials=False)[0][0]
            if given and slot in blocked:
                continue          # (shrunk schedules) a blocked client sends nothing
            events.append([slot, kind, [hx(x) for x in args]] + ([extra] if extra is not None else []))
            cid = ids[slot]
            if kind == "killburst":
                victim = extra["victim"]
                if victim not in blocked or m.conn(cid)[1]:
                    events.pop()
                    continue      # (shrunk schedules) nothing to kill / the sender is inside a transaction
                frames = [[b"CLIENT", b"KILL", b"ID", str(sid[victim]).encode()]] + [[unhx(x) for x in f] for f in extra["frames"]]
                case_tags.add("stale-waiter")
                kill_at = i
                note("il.stale-waiter.kill-then-transactions-in-one-write")
                try:
                    clis[slot].send_raw(b"".join(Client.encode(f) for f in frames))
                    raws = [clis[slot].read_reply(2.0) for _ in frames]
                except (Closed, TimeoutError, ProtocolError, OSError) as e:
                    oracle.append({"event": i, "why": "the pipeline after CLIENT KILL failed (%s)" % type(e).__name__, "tag": None})
                    break
                m.disc(ids[victim])
                blocked.discard(victim)
                clis[victim].close()
                connect(victim)
                oracle_kill = show_reply(raws[0]) != "( i 1 )"
                if oracle_kill:
                    oracle.append({"event": i, "why": "harness: CLIENT KILL ID of a blocked client did not answer 1", "got": show_reply(raws[0]), "tag": None})
                qnames, all_d_code, all_d_spec = [], [], []
                for f, raw in zip(frames[1:], raws[1:]):
                    nm = name_of(f)
                    impl = canon_exec(qnames, raw) if nm == "EXEC" else canon_reply(nm, raw)
                    code, spec, same = m.frame(cid, f)
                    all_d_code += m.last_deliveries[0]
                    all_d_spec += m.last_deliveries[1]
                    qnames = [] if nm in ("MULTI", "EXEC") else qnames + [nm]
                    st = {"event": i, "conn": slot, "text": " ".join(repr(x.decode("latin-1")) for x in f), "impl": impl, "code": code, "spec": spec, "same": same}
                    if rep:
                        rep.evaluations += 1
                    if not eqx(impl, code):
                        disagree.append(st)
                    if failed_oracle(impl, code, spec, same):
                        oracle.append(dict(st, why="a transaction sent after the kill of a stale waiter saw another client's pop between two of its commands"
                                           if nm == "EXEC" else "reply differs from the prescribed one", tag=None))
                m.last_deliveries = (all_d_code, all_d_spec)
                deliveries(i, "stale-waiter-kill")
                break             # the schedule ends here (what follows could not be attributed)
            if kind == "disc":
                clis[slot].close()
                m.disc(cid)
                connect(slot)
                burst.pop(slot, None)
                continue
            _, intx, qlen, _ = m.conn(cid)
            nm = name_of(args)
            names = qn.get(cid, []) if (nm == "EXEC" and intx) else None
            case_tags |= shape_tags(args, intx)
            if names and "SELECT" in names:
                case_tags.add("select-in-exec")
            code, spec, same = m.frame(cid, args)
            deliv = m.last_deliveries
            if spec == "( noresponse )":
                # the client blocks: nothing to read now; what it receives later is checked when it is served
                try:
                    clis[slot].send(*args)
                    impl = "( noresponse )"
                except OSError:
                    impl = "closed:OSError"
                blocked.add(slot)
                note("il.blocked")
                # the next event must find this client registered: wait until the registry of its first key has as
                # many waiters as the model (frames of different sockets are otherwise processed in socket order)
                key0 = args[1]
                want_n = sum(1 for w in m.waiters().split(";") if w != "." and hx(key0) in w.split(":")[3].split(","))
                for _ in range(3000):
                    try:
                        reg = tw.b.cmd("VERIF", "BLOCKED")
                    except (Closed, TimeoutError, ProtocolError, OSError):
                        break
                    have_n = 0
                    if reg[0] == "a":
                        items = reg[1]
                        for j in range(0, len(items) - 1, 2):
                            if items[j] == ("b", key0) and items[j + 1][0] == "a":
                                have_n = len(items[j + 1][1])
                    if have_n >= want_n:
                        break
            else:
                impl = tw.impl(clis[slot], args, names)
            _, intx2, qlen2, _ = m.conn(cid)
            if intx and intx2 and qlen2 == qlen + 1:
                qn.setdefault(cid, []).append(nm)
            elif not intx or not intx2:
                qn[cid] = []
            if not intx2:
                burst.pop(slot, None)
            st = {"event": i, "conn": slot, "text": " ".join(repr(x.decode("latin-1")) for x in args), "impl": impl, "code": code, "spec": spec,
                  "same": same, "in_tx": intx}
            cls = nm if nm in CONTROL else ("bpop" if nm in ("BLPOP", "BRPOP") else ("push" if nm in ("LPUSH", "RPUSH") else "cmd"))
            if rep:
                rep.evaluations += 1
                rep.count("il.%s.%s" % ("tx" if intx else "idle", cls))
                rep.nontrivial(("il", intx, cls, "err" if impl == "( e )" else ("queued" if impl == QUEUED else ("blocks" if impl == "( noresponse )" else "ok")),
                                bool(blocked), bool(deliv[1])))
            if not eqx(impl, code):
                disagree.append(st)
            if failed_oracle(impl, code, spec, same):
                oracle.append(dict(st, tag="select-in-exec" if (nm == "EXEC" and "SELECT" in (names or [])) else None))
            m.last_deliveries = deliv
            deliveries(i, "exec" if (nm == "EXEC" and intx) else ("push-in-tx" if intx else "direct"))
            if nm == "EXEC" and intx and blocked:
                note("il.exec-with-blocked-third-party")
            if impl.startswith("closed"):
                break
        # ---- nobody may stay blocked into the next case: every waiter is served by a push to its first key
        for _ in range(8):
            w = m.waiters()
            if w == ".":
                break
            first = w.split(";")[0].split(":")
            key = unhx(first[3].split(",")[0])
            pc = [b"RPUSH", key, b"zz"]
            events.append([-1, "drain", [hx(x) for x in pc]])
            if first[1] != "0":
                raise InternalError("harness: a third-party client waits in database %s" % first[1])
            tw.impl(tw.b, [b"DEL", key])          # whatever the key holds by now, the push must succeed
            m.frame(9000, [b"DEL", key])
            impl = tw.impl(tw.b, pc)
            code, spec, same = m.frame(9000, pc)
            if failed_oracle(impl, code, spec, same):
                oracle.append({"event": "drain", "text": "RPUSH %r zz" % key, "impl": impl, "spec": spec, "tag": None})
            deliveries("drain", "drain")
        tw.turn(tw.b)
        for sl in BLOCKER_SLOTS:
            if not clis[sl].nothing_pending(0.01):
                oracle.append({"event": "end", "why": "a third-party client received a reply nobody prescribed", "conn": sl, "tag": None})
        if blocked:
            oracle.append({"event": "end", "why": "harness: clients still blocked at the end of the schedule", "slots": sorted(blocked), "tag": None})
        for db in (0, 1):
            da, dm, ds = dump_db(tw.b, db), m.dump(db), m.dumpspec(db)
            if rep:
                rep.evaluations += 1
            if da != ds:
                oracle.append({"event": "final dump db %d" % db, "why": "dataset differs from the prescribed one", "impl": da, "prescribed": ds, "tag": None})
            if da != dm:
                disagree.append({"event": "final dump db %d" % db, "impl": da, "code": dm})
    finally:
        for c in clis.values():
            c.close()
    case = {"kind": "interleaved", "setup": [[hx(x) for x in c] for c in setup], "nconn": nconn, "events": [e for e in events if e[1] != "drain"],
            "tags": sorted(case_tags), "kill_at": kill_at}
    if oracle or disagree:
        tw.restart()        # a waiter may have been left behind: no FLUSHALL removes it
    return case, oracle, disagree


# ---------------------------------------------------------------- (iii) invariant workload
TRANSFER_LUA = "redis.call('DECRBY', KEYS[1], ARGV[1]); redis.call('INCRBY', KEYS[2], ARGV[1]); return 1"
TOTAL = 1000000


def workload(rep, seconds, seed):
    """3 MULTI/EXEC writers (one of them pipelining whole transactions in one write), 1 Lua writer,
    2 readers (MGET; MULTI GET GET EXEC).  Every observation must sum to TOTAL."""
    srv = Server("c07w")
    stop = threading.Event()
    bad, counts, errors = [], {}, []
    lock = threading.Lock()

    def note(kind, n=1):
        with lock:
            counts[kind] = counts.get(kind, 0) + n

    def amount(r):
        return str(r.choice([1, 2, 3, 7, 50, -4, 1000, -999])).encode()

    def writer(idx, pipelined):
        r = Rng(seed * 31 + idx)
        c = srv.client(timeout=10)
        try:
            while not stop.is_set():
                n = amount(r)
                frames = [[b"MULTI"], [b"DECRBY", b"a", n], [b"INCRBY", b"b", n], [b"EXEC"]]
                if pipelined:
                    c.send_raw(b"".join(Client.encode(f) for f in frames))
                    rs = [c.read_reply() for _ in frames]
                else:
                    rs = [c.cmd(*f) for f in frames]
                if rs[0] != ("s", b"OK") or rs[1] != ("s", b"QUEUED") or rs[2] != ("s", b"QUEUED") or rs[3][0] != "a" or len(rs[3][1]) != 2 \
                        or rs[3][1][0][0] != "i" or rs[3][1][1][0] != "i":
                    bad.append({"who": "writer%d" % idx, "replies": [show_reply(x) for x in rs]})
                    return
                if rs[3][1][0][1] + rs[3][1][1][1] != TOTAL:
                    # the two slots are the values of a and b right after the two commands of THIS transaction
                    bad.append({"who": "writer%d" % idx, "observed": [rs[3][1][0][1], rs[3][1][1][1]], "why": "a+b inside EXEC's own reply"})
                    return
                note("transfer.pipelined" if pipelined else "transfer.multi")
        except Exception as e:       # noqa
            errors.append("writer%d: %s %s" % (idx, type(e).__name__, e))
        finally:
            c.close()

    def lua_writer():
        r = Rng(seed * 31 + 7)
        c = srv.client(timeout=10)
        try:
            while not stop.is_set():
                x = c.cmd("EVAL", TRANSFER_LUA, "2", "a", "b", amount(r))
                if x != ("i", 1):
                    bad.append({"who": "lua", "reply": show_reply(x)})
                    return
                note("transfer.lua")
        except Exception as e:       # noqa
            errors.append("lua: %s %s" % (type(e).__name__, e))
        finally:
            c.close()

    def reader(kind):
        c = srv.client(timeout=10)
        try:
            while not stop.is_set():
                if kind == "mget":
                    x = c.cmd("MGET", "a", "b")
                    vals = x[1] if x[0] == "a" else None
                else:
                    c.send_raw(b"".join(Client.encode(f) for f in ([b"MULTI"], [b"GET", b"a"], [b"GET", b"b"], [b"EXEC"])))
                    rs = [c.read_reply() for _ in range(4)]
                    vals = rs[3][1] if rs[3][0] == "a" else None
                if not vals or len(vals) != 2 or vals[0][0] != "b" or vals[1][0] != "b":
                    bad.append({"who": kind, "reply": repr(vals)})
                    return
                a, b = int(vals[0][1]), int(vals[1][1])
                if a + b != TOTAL:
                    bad.append({"who": kind, "observed": [a, b], "sum": a + b, "expected": TOTAL})
                    return
                note("observe." + kind)
        except Exception as e:       # noqa
            errors.append("%s: %s %s" % (kind, type(e).__name__, e))
        finally:
            c.close()

    try:
        c0 = srv.client()
        c0.cmd("SET", "a", str(TOTAL))
        c0.cmd("SET", "b", "0")
        ths = [threading.Thread(target=writer, args=(0, False)), threading.Thread(target=writer, args=(1, False)),
               threading.Thread(target=writer, args=(2, True)), threading.Thread(target=lua_writer),
               threading.Thread(target=reader, args=("mget",)), threading.Thread(target=reader, args=("multi-get",))]
        for t in ths:
            t.start()
        t_end = time.time() + seconds
        while time.time() < t_end and not bad and not errors:
            time.sleep(0.05)
        stop.set()
        for t in ths:
            t.join(timeout=15)
        fin = c0.cmd("MGET", "a", "b")
        final = [int(fin[1][0][1]), int(fin[1][1][1])] if fin[0] == "a" and fin[1][0][0] == "b" and fin[1][1][0] == "b" else None
        alive = srv.alive()
        c0.close()
    finally:
        srv.stop()
    return {"bad": bad, "errors": errors, "counts": counts, "final": final, "alive": alive}


# ---------------------------------------------------------------- (iv) witnesses of the listed findings
def witness_select():
    s = Server("c07ws")
    try:
        a, b = s.client(), s.client()
        rs = [show_reply(a.cmd(*f)) for f in (["MULTI"], ["SELECT", "1"], ["SET", "k", "v"], ["EXEC"])]
        in0 = show_reply(b.cmd("GET", "k"))
        b.cmd("SELECT", "1")
        in1 = show_reply(b.cmd("GET", "k"))
        after = show_reply(a.cmd("GET", "k"))       # which database is the connection on now?
        return {"replies": rs, "db0": in0, "db1": in1, "conn_sees": after,
                "deviates": in0 == "( b 76 )" and in1 == "( nb )", "prescribed": in0 == "( nb )" and in1 == "( b 76 )"}
    finally:
        s.stop()


def witness_blocking():
    s = Server("c07wb")
    try:
        a, b = s.client(), s.client()
        rs = [show_reply(a.cmd(*f)) for f in (["MULTI"], ["SET", "p", "1"], ["BLPOP", "qq", "0"], ["SET", "p2", "2"])]
        a.send("EXEC")
        raw = b""
        a.s.settimeout(0.4)
        try:
            while True:
                d = a.s.recv(65536)
                if not d:
                    break
                raw += d
        except OSError:
            pass
        applied = [show_reply(b.cmd("GET", "p")), show_reply(b.cmd("GET", "p2"))]
        reg = show_reply(b.cmd("VERIF", "BLOCKED"))
        pushed = show_reply(b.cmd("LPUSH", "qq", "v"))
        n0 = b.cmd("VERIF", "LOOP")[1]
        for _ in range(5000):
            if b.cmd("VERIF", "LOOP")[1] >= n0 + 3:
                break
        llen = show_reply(b.cmd("LLEN", "qq"))
        wellformed = raw == b"*3\r\n+OK\r\n*-1\r\n+OK\r\n"
        return {"queued": rs, "exec_raw": raw.decode("latin-1"), "applied": applied, "registry": reg, "lpush": pushed, "llen_after_push": llen,
                "deviates": raw == b"*3\r\n+OK\r\n" and "( i 0 )" in reg and llen == "( i 0 )", "prescribed": wellformed and llen == "( i 1 )"}
    finally:
        s.stop()


def witness_publish():
    s = Server("c07wp")
    try:
        a, sub = s.client(), s.client()
        sub.cmd("SUBSCRIBE", "ch")
        r1 = show_reply(a.cmd("MULTI"))
        r2 = show_reply(a.cmd("PUBLISH", "ch", "hello"))
        try:
            got = show_reply(sub.read_reply(0.5))
        except (TimeoutError, Closed):
            got = None
        r3 = show_reply(a.cmd("DISCARD"))
        return {"replies": [r1, r2, r3], "subscriber_received_before_discard": got,
                "deviates": r2 == "( i 1 )" and got is not None, "prescribed": r2 == QUEUED and got is None}
    finally:
        s.stop()


def witness_unwatch():
    s = Server("c07wu")
    try:
        a, b = s.client(), s.client()
        pre = [show_reply(a.cmd(*f)) for f in (["SET", "k", "1"], ["WATCH", "k"], ["MULTI"])]
        r_un = show_reply(a.cmd("UNWATCH"))
        r_set = show_reply(a.cmd("SET", "k", "from-tx"))
        r_b = show_reply(b.cmd("SET", "k", "from-b"))
        r_exec = show_reply(a.cmd("EXEC"))
        k = show_reply(b.cmd("GET", "k"))
        return {"replies": pre + [r_un, r_set, r_b, r_exec], "k": k,
                "deviates": r_un == OK and r_exec == "( a ( s 4f4b ) )" and k == "( b %s )" % hx(b"from-tx"),
                "prescribed": r_un == QUEUED and r_exec == "( na )" and k == "( b %s )" % hx(b"from-b")}
    finally:
        s.stop()


def witness_arity():
    s = Server("c07wa")
    try:
        a, b = s.client(), s.client()
        r1 = [show_reply(a.cmd(*f)) for f in (["SET", "k", "0"], ["WATCH", "k"], ["UNWATCH", "junk"])]
        b.cmd("SET", "k", "1")
        r2 = [show_reply(a.cmd(*f)) for f in (["MULTI"], ["INCR", "c1"], ["EXEC"])]             # k changed, still watched: nil
        r3 = [show_reply(a.cmd(*f)) for f in (["MULTI", "junk"], ["MULTI"], ["INCR", "c2"], ["EXEC", "junk"], ["DISCARD", "junk"], ["EXEC"])]
        c2 = show_reply(b.cmd("GET", "c2"))
        return {"unwatch_junk_then_changed": r1 + r2, "multi_exec_discard_junk": r3, "c2": c2,
                "deviates": r1[2] == OK and r2[2] != "( na )" and r3[0] == OK,
                "prescribed": r1[2].startswith("( e") and r2[2] == "( na )" and r3[0].startswith("( e") and r3[1] == OK and r3[3].startswith("( e")
                and r3[4].startswith("( e") and r3[5] == "( a ( i 1 ) )" and c2 == "( b 31 )"}
    finally:
        s.stop()


def witness_client():
    s = Server("c07wc")
    try:
        a = s.client()
        cid = a.cmd("CLIENT", "ID")
        rs = [show_reply(a.cmd(*f)) for f in (["MULTI"], ["CLIENT", "ID"], ["CLIENT", "SETNAME", "worker-7"], ["CLIENT", "GETNAME"], ["EXEC"])]
        after = show_reply(a.cmd("CLIENT", "GETNAME"))
        want = "( a ( i %d ) ( s 4f4b ) ( b %s ) )" % (cid[1], hx(b"worker-7")) if cid[0] == "i" else "?"
        return {"client_id_direct": show_reply(cid), "replies": rs, "getname_after": after,
                "deviates": rs[4].startswith("( a ( i 0 ) ( e") and after == "( nb )", "prescribed": rs[4] == want and after == "( b %s )" % hx(b"worker-7")}
    finally:
        s.stop()


def witness_stale_waiter():
    """a stale first waiter (killed, still registered) before two transactions in one write: the wake-up of the second
    waiter must not be carried out inside the second EXEC"""
    s = Server("c07wk")
    try:
        a1, a2, b = s.client(), s.client(), s.client()
        id1 = a1.cmd("CLIENT", "ID")[1]
        for c in (a1, a2):
            c.send("BLPOP", "k", "0")
            for _ in range(3000):
                reg = b.cmd("VERIF", "BLOCKED")
                n = 0
                if reg[0] == "a":
                    for j in range(0, len(reg[1]) - 1, 2):
                        if reg[1][j] == ("b", b"k"):
                            n = len(reg[1][j + 1][1])
                if n >= (1 if c is a1 else 2):
                    break
        frames = [["CLIENT", "KILL", "ID", str(id1)], ["MULTI"], ["RPUSH", "k", "x"], ["EXEC"], ["MULTI"], ["LLEN", "k"], ["LLEN", "k"], ["LRANGE", "k", "0", "-1"], ["EXEC"]]
        b.send_raw(b"".join(Client.encode(f) for f in frames))
        rs = [show_reply(b.read_reply()) for _ in frames]
        try:
            got2 = show_reply(a2.read_reply(2.0))
        except (TimeoutError, Closed):
            got2 = None
        return {"replies": rs, "second_waiter_received": got2,
                "deviates": rs[8] == "( a ( i 1 ) ( i 0 ) ( a ) )",
                "prescribed": rs[8] in ("( a ( i 0 ) ( i 0 ) ( a ) )",) and got2 == "( a ( b 6b ) ( b 78 ) )"}
    finally:
        s.stop()


def source_switches():
    """the quirk switches as translator/tx_facts.py reads them off the current source (the Lean driver runs
    `Quirks.ofSource`, built from the same facts): shape -> does the tree still deviate?"""
    sys.path.insert(0, os.path.join(VERIF, "translator"))
    import extract
    import tx_facts
    f = tx_facts.facts(extract.src, extract.strip_comments, extract.fn_body, extract.REPO)
    pre, thru = f.get("pre_queue"), f.get("pass_through")
    hard = ("MULTI", "EXEC", "DISCARD", "WATCH")
    return {"select-in-exec": f.get("select_ignored"), "blocking-in-exec": f.get("blocking_unguarded"),
            "immediate-in-multi": None if pre is None or thru is None else any(n not in thru and n not in hard and n != "UNWATCH" for n in pre),
            "unwatch-in-multi": None if pre is None or thru is None else ("UNWATCH" in thru or "UNWATCH" in pre),
            "control-arity": f.get("arity_unchecked"), "client-conn-zero": f.get("client_conn_zero")}


_SW = None


def switches():
    global _SW
    if _SW is None:
        _SW = source_switches()
    return _SW


WITNESSES = {"select-in-exec": witness_select, "blocking-in-exec": witness_blocking, "immediate-in-multi": witness_publish,
             "unwatch-in-multi": witness_unwatch, "control-arity": witness_arity, "client-conn-zero": witness_client, "stale-waiter": witness_stale_waiter}


# ---------------------------------------------------------------- main
def main(tier, seed):
    rep = Report(PID, tier, seed)
    rep.rule = ("(i) twin runs: queues of 0-12 commands from the C01/C03 vocabulary (random-outcome and clock-reading commands excluded), ~15 % failing at run "
                "time, wrong arity / unknown names, SELECT, and blocking pops (BLPOP and BRPOP, 1-2 keys, lists empty / missing / non-empty / of another type), sent as "
                "MULTI..EXEC (frame by frame or in one write, with nested MULTI / WATCH inside, EXEC/DISCARD without MULTI first) to server A and directly to a twin "
                "(a queued blocking pop acting as its non-blocking variant): EXEC's array must equal the direct replies; transactions ended by DISCARD, a closed socket "
                "or QUIT must leave the dataset untouched; after EVERY transaction a post-transaction probe: another connection pushes to every key the transaction "
                "named (on A, on the twin, in the model) and the dumps must be equal to the twin's and to the prescribed state (a finished transaction has no further "
                "effect); every reply and dump compared with the Lean model. (i-c) chains of 2-4 transactions on ONE connection whose earlier ones end in every way (EXEC that runs, "
                "EXEC aborted because another connection changed a WATCHed key before MULTI or after the queueing, DISCARD, run-time failures and refused names in the "
                "queue, MULTI inside MULTI, EXEC/DISCARD without MULTI in between) followed by a fresh MULTI..EXEC that must return exactly its own slots and leave the "
                "twin's dataset; after every ending (EXEC run, EXEC aborted, DISCARD, WATCH..UNWATCH) another connection changes the keys that had been WATCHed "
                "and the next transaction must RUN. (i-d) a connection whose first write is a BLPOP/BRPOP that really blocks followed by the first part of MULTI..EXEC.. "
                "and whose second write, sent while it is blocked, is the rest (every cut position), unblocked by another connection's push or by its time-out: the reply "
                "stream and the dataset must equal the twin's, where the same frames are sent without blocking. (ii) interleaved schedules of 2-3 connections (transactions, plain commands, list traffic, "
                "SELECT, disconnects) plus up to two third-party clients blocked in BLPOP/BRPOP on the keys the transactions push to: the model predicts every reply and "
                "which blocked client is served what after which frame - never inside an EXEC, after it if an element is left. (iii) real-time transfer workload "
                "(MULTI/EXEC, pipelined, Lua writers; MGET and MULTI-GET readers; constant sum). (iv) witnesses of the three deviations of the tree as found, against "
                "the translator's switches. distinct = (part, mode/connection state, command class, outcome, blocked third party present, delivery) tuples")
    rep.assumptions = [
        "atomicity w.r.t. other clients is a theorem about the event-loop model `Tx.run` (one frame at a time, to completion); that Server::run has this structure is "
        "read off the source, re-checked coarsely by the translator (Gen.execIsSynchronous) and supported, not proved, by the invariant workload",
        "the expiry sweeper and BGSAVE threads are outside this model (C02, C10); TTLs used are >= 100 s",
        "blocked clients: time-outs of waiters (third parties block with time-out 0) and the sweeps after EVAL/EVALSHA are outside the model (C13, C12); the oracle of the "
        "twin runs for a queued blocking pop is its non-blocking variant sent directly",
        "when the translator does not recognise a source shape it substitutes the pessimistic switch value and lists it in Gen.txUnrecognised: model and driver still build, "
        "a table theorem refuses the list, and the TCP run searches for a failing input with the prescribed behaviour as the oracle",
        "the outcome of the WATCH check is an input of the model (`Req.watchOk`): C08 owns it",
        "command names are ASCII without blanks (process_frame trims and applies the Unicode to_uppercase, process_normal_command does not trim)",
        "pub/sub, AUTH, REPLCONF, MONITOR are modelled only as 'handed over to another subsystem' (reply not modelled)",
        "error replies are compared as 'an error' only; replies out of hash maps/sets are compared sorted; commands with random outcomes and TTL/PTTL are not queued in twin runs",
        "BLPOP/BRPOP time-outs in the generators are unsigned decimal integers (float syntax is C13's)",
    ]
    ok, log, errs = proof_phase(rep, families=[FAMILY])
    build_server()
    findings = load_findings()
    r = Rng(seed)
    new_fail, known_seen, disagreements = [], {}, []

    tw = Twin(rep)
    try:
        # ---------------- (i) twin runs
        n_cases = 600 if tier == "quick" else 12000
        for i in range(n_cases):
            rr = r.fork("twin%d" % i)
            g = QueueGen(rr)
            q, shapes = g.queue()
            case = {"setup": g.setup(), "queue": q, "mode": gen_mode(rr)}
            res = run_twin_case(tw, case, rep)
            if not tw.alive():
                new_fail.append(("a server process died during a transaction case", case_json(case), res))
                break
            rep.evaluations += len(res["steps"]) + 2
            rep.traces_validated += 1
            rep.count("twin.end." + case["mode"]["end"] + (".pipelined" if case["mode"]["pipelined"] else ""))
            rep.count("twin.queue_len.%02d" % len(q))
            for st in res["steps"]:
                kind = "err" if st["impl"] == "( e )" else ("queued" if st["impl"] == QUEUED else "ok")
                rep.nontrivial(("twin", st["what"], kind))
            for sh, c in zip(shapes, q):
                rep.count("twin.slot." + ("fails" if sh == "fails" else sh if (sh in ("select", "push") or sh.startswith("bpop")) else "cmd"))
                rep.nontrivial(("slot", name_of(c), sh[:6], case["mode"]["end"]))
            if res["steps"] and case["mode"]["end"] == "exec":
                ex = [s for s in res["steps"] if s["what"] in ("exec", "pipelined")]
                if ex:
                    nerr = ex[-1]["impl"].count("( e )")
                    rep.count("twin.exec.errors_in_slots.%s" % ("0" if nerr == 0 else "1" if nerr == 1 else "2+"))
            if i < 3:
                rep.sample({"twin_case": case_text(case), "steps": [s["text"] + " -> " + s["impl"] for s in res["steps"][:20]]})
            if res["oracle"]:
                f = classify(res, findings)
                if f:
                    known_seen.setdefault(f["id"], (f, case_json(case)))
                else:
                    new_fail.append(("twin run: %s" % res["oracle"][0]["why"], case_json(case), res))
            if res["disagree"] and not res["oracle"]:
                disagreements.append({"case": case_json(case), "first": res["disagree"][0]})
            elif res["disagree"]:
                disagreements.append({"case": case_json(case), "first": res["disagree"][0], "with_oracle_failure": True})

        # ---------------- (i-c) chains of transactions on one connection
        n_chain = 200 if tier == "quick" else 5000
        for i in range(n_chain):
            if not tw.alive():
                break
            case = gen_chain(r.fork("chain%d" % i))
            res = run_chain_case(tw, case, rep)
            rep.evaluations += len(res["steps"]) + 1
            rep.traces_validated += 1
            if res["oracle"]:
                f = classify(res, findings)
                if f:
                    known_seen.setdefault(f["id"], (f, case))
                else:
                    new_fail.append(("chain of transactions on one connection: %s" % res["oracle"][0]["why"], dict(case, text=chain_text(case)), res))
            if res["disagree"]:
                disagreements.append({"case": case, "first": res["disagree"][0], "with_oracle_failure": bool(res["oracle"])})
            if i < 1:
                rep.sample({"chain_case": chain_text(case), "steps": [st["text"] + " -> " + st["impl"] for st in res["steps"][:30]]})

        # ---------------- (i-d) transactions straddling a blocking pop that blocks and two writes
        n_str = 100 if tier == "quick" else 2500
        for i in range(n_str):
            if not tw.alive():
                break
            case = gen_straddle(r.fork("straddle%d" % i), allow_timeout=(i % (33 if tier == "quick" else 100) == 0))
            res = run_straddle_case(tw, case, rep)
            rep.evaluations += len(res["steps"]) + 1
            rep.traces_validated += 1
            if res["oracle"]:
                new_fail.append(("transaction straddling a blocking pop and two writes: %s" % res["oracle"][0]["why"], dict(case, text=straddle_text(case)), res))
            if res["disagree"]:
                disagreements.append({"case": case, "first": res["disagree"][0], "with_oracle_failure": bool(res["oracle"])})
            if i < 1:
                rep.sample({"straddle_case": straddle_text(case), "replies": [st["text"] + " -> " + st["impl"] for st in res["steps"][:20]]})

        ps = protocol_scenarios(tw, rep)
        if ps["oracle"]:
            new_fail.append(("protocol scenario: %s" % ps["oracle"][0]["why"], {"kind": "scenario"}, ps))
        if ps["disagree"]:
            disagreements.append({"case": {"kind": "scenario"}, "first": ps["disagree"][0], "with_oracle_failure": bool(ps["oracle"])})

        # ---------------- (ii) interleaved connections
        n_il = 150 if tier == "quick" else 4000
        for i in range(n_il):
            if not tw.alive():
                break
            rr = r.fork("il%d" % i)
            case, orc, dis = run_interleaved(rep, tw, rr, rr.range(25, 60))
            rep.traces_validated += 1
            if orc:
                f = classify_interleaved(case, orc, dis, findings)
                if f:
                    known_seen.setdefault(f["id"], (f, case))
                else:
                    new_fail.append(("interleaved connections: reply or state differs from the prescribed one at event %s" % orc[0].get("event"),
                                     case, {"oracle": orc[:5], "disagree": dis[:5]}))
            if dis:
                disagreements.append({"case": case, "first": dis[0], "with_oracle_failure": bool(orc)})
            if i < 1:
                rep.sample({"interleaved_events": [[e[0], e[1], " ".join(unhx(x).decode("latin-1") for x in e[2])] for e in case["events"][:30]]})
    finally:
        tw.close()

    # ---------------- (iii) invariant workload
    secs = 5 if tier == "quick" else 60
    w = workload(rep, secs, seed)
    rep.extra["workload"] = {"seconds": secs, "counts": w["counts"], "final": w["final"], "errors": w["errors"][:3]}
    nobs = sum(v for k, v in w["counts"].items())
    rep.evaluations += nobs
    for k, v in w["counts"].items():
        rep.count("workload." + k, v)
        rep.nontrivial(("workload", k))
    if w["bad"]:
        new_fail.append(("invariant workload: an observation broke the constant sum (a transaction was seen half-applied) or a reply was malformed",
                         {"kind": "workload", "seconds": secs, "script": TRANSFER_LUA, "total": TOTAL, "observation": w["bad"][0]}, {"bad": w["bad"][:3]}))
    elif w["final"] is None or sum(w["final"]) != TOTAL or not w["alive"]:
        new_fail.append(("invariant workload: final sum wrong or server died", {"kind": "workload", "final": w["final"], "alive": w["alive"]}, {}))
    elif w["errors"]:
        raise InternalError("workload client failed: %s" % w["errors"][:2])
    elif min(w["counts"].get(k, 0) for k in ("transfer.multi", "transfer.pipelined", "transfer.lua", "observe.mget", "observe.multi-get")) == 0:
        raise InternalError("workload made no progress: %r" % w["counts"])

    # ---------------- (iv) witnesses of listed findings, against the switches the translator reads off the source
    sw = switches()
    rep.extra["source_switches"] = sw
    stale = []
    for shape, fn in WITNESSES.items():
        wres = fn()
        rep.evaluations += 1
        rep.extra.setdefault("witnesses", {})[shape] = wres
        rep.nontrivial(("witness", shape, wres["deviates"]))
        if wres["deviates"]:
            if shape in findings:
                known_seen.setdefault(findings[shape]["id"], (findings[shape], {"kind": "witness", "shape": shape}))
            else:
                new_fail.append(("witness %s: the implementation deviates from the property" % shape, {"kind": "witness", "shape": shape, "observed": wres}, {}))
        elif not wres["prescribed"]:
            new_fail.append(("witness %s: neither the listed deviation nor the prescribed behaviour" % shape, {"kind": "witness", "shape": shape, "observed": wres}, {}))
        if sw.get(shape) is not None and sw[shape] != wres["deviates"]:
            stale.append("%s: translator switch says %s, server %s" % (shape, "deviates" if sw[shape] else "fixed", "deviates" if wres["deviates"] else "behaves as prescribed"))

    # ---------------- verdict
    for fid, (f, where) in known_seen.items():
        rep.known(fid, f["what"])
    rep.extra["model_disagreements"] = len(disagreements)
    rep.extra["oracle_failures_unexplained"] = len(new_fail)
    if new_fail:
        what, rp, res = sorted(new_fail, key=lambda x: (x[1].get("kind") not in ("twin", "interleaved", "chain", "straddle"), x[1].get("kind") not in ("twin", "chain", "straddle"), len(json.dumps(x[1]))))[0]
        if rp.get("kind") == "twin":
            rp = shrink_twin(rp, findings)
        elif rp.get("kind") == "interleaved":
            rp = shrink_interleaved(rp, findings)
        elif rp.get("kind") == "chain":
            rp = shrink_chain(rp, findings)
        elif rp.get("kind") == "straddle":
            rp = shrink_straddle(rp, findings)
        detail = {k: (sorted(v) if isinstance(v, set) else v) for k, v in res.items()} if isinstance(res, dict) else {}
        rep.violation("C07: " + what, {"replay": rp, "family": FAMILY, "observed": _trim(detail),
                                       "more": [w0 for w0, _, _ in new_fail[1:6]], "lean_errors": errs[:5]})
    elif not ok:
        rep.violation("proof obligations of C07 no longer check against the regenerated tables/model", {"theorem_errors": errs[:10], "log_tail": log[-3000:]}, no_input=True)
    elif [d for d in disagreements if not d.get("with_oracle_failure")] or stale:
        real = [d for d in disagreements if not d.get("with_oracle_failure")]
        rep.violation("correspondence Tx.processFrame (source variant) vs server broke (%d disagreements; switches: %s) although the property's oracle holds"
                      % (len(real), stale), {"correspondence": "Ferrous.Tx.processFrame / Tx.run vs ferrous over TCP", "disagreements": real[:6], "stale": stale}, no_input=True)
    return rep.finish()


def _trim(d):
    out = {}
    for k, v in d.items():
        if isinstance(v, list):
            out[k] = v[:8]
        else:
            out[k] = v
    return json.loads(json.dumps(out, default=str))


def shrink_twin(rp, findings):
    """delta-debug the queue, then the set-up, of a failing twin case"""
    case = case_from_json(rp)
    rep = Report(PID, "shrink", 0)
    tw = Twin(rep)

    def fails(c):
        res = run_twin_case(tw, c)
        return bool(res["oracle"]) and classify(res, findings) is None
    try:
        if not fails(case):
            return rp
        if len(case["queue"]) > 1:
            q = shrink_list(case["queue"], lambda q: fails(dict(case, queue=q)), max_steps=80)
            case = dict(case, queue=q)
        if len(case["setup"]) > 1:
            s = shrink_list(case["setup"], lambda s: fails(dict(case, setup=s)), max_steps=40)
            case = dict(case, setup=s)
        out = case_json(case)
        out["shrunk_from"] = {"queue": len(rp["queue"]), "setup": len(rp["setup"])}
        return out
    except (InternalError, OSError):
        return rp
    finally:
        tw.close()


def shrink_interleaved(case, findings):
    """delta-debug the event list (then the set-up) of a failing interleaved schedule"""
    rep = Report(PID, "shrink", 0)
    tw = Twin(rep)

    def fails(c):
        cs, orc, dis = run_interleaved(None, tw, Rng(0), 0, given=c)
        return bool(orc) and classify_interleaved(cs, orc, dis, findings) is None
    try:
        if not fails(case):
            return case
        small = dict(case)
        if len(small["events"]) > 1:
            small["events"] = shrink_list(small["events"], lambda ev: fails(dict(small, events=ev)), max_steps=70)
        if len(small["setup"]) > 1:
            small["setup"] = shrink_list(small["setup"], lambda su: fails(dict(small, setup=su)), max_steps=20)
        small["shrunk_from"] = {"events": len(case["events"]), "setup": len(case["setup"])}
        small["text"] = {"setup": [" ".join(unhx(x).decode("latin-1") for x in c) for c in small["setup"]],
                         "events": ["conn %s: %s" % (e[0], "<disconnects>" if e[1] == "disc" else " ".join(unhx(x).decode("latin-1") for x in e[2])) for e in small["events"]]}
        return small
    except (InternalError, OSError):
        return case
    finally:
        tw.close()


def replay(path):
    """Re-executes a replay file against the server built from the current tree."""
    obj = json.load(open(path))
    rp = obj.get("replay") or obj
    rep = Report(PID, "replay", obj.get("seed", 0))
    build_driver(FAMILY)
    build_server()
    findings = load_findings()
    kind = rp.get("kind")
    if kind == "twin":
        tw = Twin(rep)
        try:
            res = run_twin_case(tw, case_from_json(rp))
        finally:
            tw.close()
        for s in res["steps"]:
            print("%-22s %s" % (s["what"], s["text"]))
            print("      impl: %s" % s["impl"])
            if s["impl"] != s["code"]:
                print("      CODE: %s   <-- model disagrees" % s["code"])
            if s["impl"] != s["spec"] or not s["same"]:
                print("      SPEC: %s%s" % (s["spec"], "" if s["same"] else "   (resulting state differs from the prescribed one)"))
        for o in res["oracle"]:
            print("ORACLE: %s  %s" % (o["why"], {k: v for k, v in o.items() if k not in ("why", "frame", "text", "what")}))
        f = classify(res, findings) if res["oracle"] else None
        if res["oracle"] and not f:
            print("VIOLATION property=C07 replay=%s" % path)
            return 1
        if f:
            print("KNOWN-FINDING: property=C07 %s %s" % (f["id"], f["what"]))
        print("OK (the property's oracle holds on this replay)" if not res["oracle"] else "")
        return 0
    if kind == "interleaved":
        tw = Twin(rep)
        try:
            rcase, orc, dis = run_interleaved(None, tw, Rng(0), 0, given=rp)
        finally:
            tw.close()
        for o in orc:
            print("ORACLE:", o)
        for d in dis:
            print("MODEL-DISAGREES:", d)
        f = classify_interleaved(rcase, orc, dis, findings) if orc else None
        if orc and not f:
            print("VIOLATION property=C07 replay=%s" % path)
            return 1
        print("OK (the property's oracle holds on this replay)" if not orc else "KNOWN-FINDING: property=C07 %s" % f["id"])
        return 0
    if kind == "straddle":
        tw = Twin(rep)
        try:
            res = run_straddle_case(tw, rp)
        finally:
            tw.close()
        for st in res["steps"]:
            print("%-14s %s" % (st["what"], st["text"]))
            print("      impl: %s" % st["impl"])
            if st["impl"] != st["twin"]:
                print("      TWIN: %s" % st["twin"])
            if st["impl"] != st["spec"]:
                print("      SPEC: %s" % st["spec"])
        for o in res["oracle"]:
            print("ORACLE: %s" % o["why"])
        if res["oracle"]:
            print("VIOLATION property=C07 replay=%s" % path)
            return 1
        print("OK (the property's oracle holds on this replay)")
        return 0
    if kind == "chain":
        tw = Twin(rep)
        try:
            res = run_chain_case(tw, rp)
        finally:
            tw.close()
        for st in res["steps"]:
            print("%-40s %s" % (st["what"], st["text"]))
            print("      impl: %s" % st["impl"])
            if st["impl"] != st["code"]:
                print("      CODE: %s   <-- model disagrees" % st["code"])
            if st["impl"] != st["spec"]:
                print("      SPEC: %s" % st["spec"])
        for o in res["oracle"]:
            print("ORACLE: %s  %s" % (o["why"], {k: v for k, v in o.items() if k not in ("why", "text", "what")}))
        if res["oracle"]:
            print("VIOLATION property=C07 replay=%s" % path)
            return 1
        print("OK (the property's oracle holds on this replay)")
        return 0
    if kind == "scenario":
        tw = Twin(rep)
        try:
            ps = protocol_scenarios(tw, rep)
        finally:
            tw.close()
        print(json.dumps(ps, indent=1))
        if ps["oracle"]:
            print("VIOLATION property=C07 replay=%s" % path)
            return 1
        return 0
    if kind == "witness":
        w = WITNESSES[rp["shape"]]()
        print(json.dumps(w, indent=1))
        if w["deviates"] and rp["shape"] not in findings:
            print("VIOLATION property=C07 replay=%s" % path)
            return 1
        return 0
    if kind == "workload":
        w = workload(rep, rp.get("seconds", 5), obj.get("seed", 1))
        print(json.dumps({k: w[k] for k in ("bad", "counts", "final", "errors")}, indent=1, default=str))
        if w["bad"]:
            print("VIOLATION property=C07 replay=%s" % path)
            return 1
        return 0
    print("replay file names no executable input (broken proof obligation / correspondence): %s" % obj.get("what"))
    return 1 if obj.get("no_failing_input_found") else 0
