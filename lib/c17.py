"""C17 — no access without AUTH.

Deciding artefact: lean/FerrousSpec/Props/C17.lean (gate totality over ALL command names, exact password,
failed AUTH changes nothing, per-connection authentication over all interleavings, pipeline position
irrelevant, allowed commands harmless; the full statement for the repaired order of processing, the
`_partial` statement and the SYNC witness for the tree as it is).

This module ties `Auth.Code.processConnectionFrame` (instantiated with the lists the translator regenerates
from server.rs) to the REAL server, started with `--requirepass`, over TCP: every command name the server
dispatches (Gen.allCommandNames) plus hostile variants, with and without arguments, on connections in every
pre-authentication situation, alone and at every position of a pipeline.  Three things are kept apart:

  * oracle failures   the property itself (the driver's Spec verdict `must-refuse` / `auth-fail`, the
                      no-side-effect observation through an authenticated control connection, and "no canary
                      byte ever reaches an unauthenticated connection") fails on the implementation;
  * disagreements     implementation reply class != Code model's class although the oracle holds;
  * broken proofs     the property module no longer builds against the regenerated tables.
"""
import itertools
import time

from common import *
from server import Server, Client, Closed, ProtocolError, show_reply

PID = "C17"
PENDING_FINDINGS = os.environ.get("C17_PENDING_FINDINGS", os.path.join(VERIF, "pending_repo_patches", "C17_findings.json"))

# The configured password: mixed case, a two-byte UTF-8 character, a digit, punctuation.
PASSWORD = "s3cr\u00e9t-Pw".encode("utf-8")       # é precomposed: c3 a9
OTHER_PW = b"0ther-passw0rd"                        # a second configured password that must LOSE (overridden)
_PW, _OT = PASSWORD.decode("utf-8"), OTHER_PW.decode()
# How the server is GIVEN its password.  In every mode the password in force must be PASSWORD (read from the code: the
# configuration file is loaded first, the command line is applied on top and overrides only when it carries a password;
# within one source the last occurrence wins).  cli / file: what the Lean `config` command is told.
MODES = {
    "cli-requirepass": dict(kw=dict(password=_PW), cli=[PASSWORD], file=[]),
    "cli-password-flag": dict(kw=dict(password=_PW, password_flag="--password"), cli=[PASSWORD], file=[]),
    "cli-twice-last-wins": dict(kw=dict(extra=["--requirepass", _OT, "--password", _PW]), cli=[OTHER_PW, PASSWORD], file=[]),
    "file-positional": dict(kw=dict(config_lines=["requirepass " + _PW]), cli=[], file=[PASSWORD]),
    "file-config-flag": dict(kw=dict(config_lines=["# c17", "", "requirepass " + _PW], config_flag="--config"), cli=[], file=[PASSWORD]),
    "file-c-flag-plus-other-cli-options": dict(kw=dict(config_lines=["timeout 0", "requirepass   " + _PW + "  ", "tcp-keepalive 300"], config_flag="-c",
                                                       extra=["--loglevel", "notice", "--appendonly", "no", "--dbfilename", "c17.rdb"]), cli=[], file=[PASSWORD]),
    "file-two-lines-last-wins": dict(kw=dict(config_lines=["requirepass " + _OT, "REQUIREPASS " + _PW]), cli=[], file=[OTHER_PW, PASSWORD]),
    "both-same": dict(kw=dict(config_lines=["requirepass " + _PW], password=_PW), cli=[PASSWORD], file=[PASSWORD]),
    "both-different-cli-wins": dict(kw=dict(config_lines=["requirepass " + _OT], password=_PW), cli=[PASSWORD], file=[OTHER_PW]),
}
DEFAULT_MODE = "cli-requirepass"
CANARY_DBS = [0, 1, 5, 15]
CHAN = b"c17chan"


def canary_key(db):
    return b"c17:canary:%d" % db


def canary_val(db, seed):
    return b"CANARY-%08x-db%d-TOPSECRET" % (seed & 0xFFFFFFFF, db)


# ------------------------------------------------------------------------------------------ requests
class Req:
    """One request frame.  args: list of bytes (bulk string) or None (a non-bulk value, sent as `:5`).
    kind: cmd | badname | notarray (with the raw bytes to send)."""

    def __init__(self, name=None, args=(), kind="cmd", raw=None, label=None):
        self.kind, self.name, self.args, self.raw, self.label = kind, name, list(args), raw, label

    def wire(self):
        if self.kind != "cmd":
            return self.raw
        out = [b"*%d\r\n" % (1 + len(self.args)), b"$%d\r\n%s\r\n" % (len(self.name), self.name)]
        for a in self.args:
            out.append(b":5\r\n" if a is None else b"$%d\r\n%s\r\n" % (len(a), a))
        return b"".join(out)

    def line(self):
        if self.kind != "cmd":
            return self.kind
        return " ".join(["cmd", hx(self.name)] + ["~" if a is None else hx(a) for a in self.args])

    def text(self):
        if self.kind != "cmd":
            return "<%s %r>" % (self.kind, self.raw)
        return " ".join([repr(self.name.decode("latin-1"))] + ["<int 5>" if a is None else repr(a[:40].decode("latin-1")) for a in self.args])

    def to_json(self):
        return {"kind": self.kind, "name": hx(self.name) if self.name is not None else None,
                "args": [None if a is None else hx(a) for a in self.args],
                "raw": hx(self.raw) if self.raw is not None else None, "text": self.text()}

    @staticmethod
    def from_json(o):
        return Req(unhx(o["name"]) if o["name"] is not None else None, [None if a is None else unhx(a) for a in o["args"]],
                   o["kind"], unhx(o["raw"]) if o["raw"] is not None else None)


MALFORMED = [
    Req(kind="notarray", raw=b"+SYNC\r\n"), Req(kind="notarray", raw=b"$4\r\nSYNC\r\n"), Req(kind="notarray", raw=b"*0\r\n"),
    Req(kind="notarray", raw=b"*-1\r\n"), Req(kind="notarray", raw=b":1\r\n"), Req(kind="notarray", raw=b"$-1\r\n"),
    Req(kind="badname", raw=b"*1\r\n+SYNC\r\n"), Req(kind="badname", raw=b"*2\r\n:1\r\n$3\r\nGET\r\n"),
    Req(kind="badname", raw=b"*2\r\n*1\r\n$3\r\nGET\r\n$1\r\nk\r\n"), Req(kind="badname", raw=b"*1\r\n$-1\r\n"),
]

# typical arguments: what the command would need in order to do damage or to disclose something
def typical_args(name, seed):
    k, v = canary_key(0), b"overwritten"
    T = {
        "GET": [k], "SET": [k, v], "DEL": [k], "APPEND": [k, v], "GETSET": [k, v], "MGET": [k], "MSET": [k, v], "STRLEN": [k],
        "GETRANGE": [k, b"0", b"-1"], "SETRANGE": [k, b"0", v], "INCR": [b"c17:n"], "DECR": [b"c17:n"], "INCRBY": [b"c17:n", b"5"],
        "DECRBY": [b"c17:n", b"5"], "EXISTS": [k], "EXPIRE": [k, b"1"], "PEXPIRE": [k, b"1"], "TTL": [k], "PTTL": [k], "PERSIST": [k],
        "TYPE": [k], "RENAME": [k, b"c17:stolen"], "RENAMENX": [k, b"c17:stolen"], "RANDOMKEY": [], "KEYS": [b"*"], "DBSIZE": [],
        "SELECT": [b"1"], "FLUSHDB": [], "FLUSHALL": [], "SETNX": [b"c17:new", v], "SETEX": [k, b"100", v], "PSETEX": [k, b"100000", v],
        "ECHO": [b"hello"], "PING": [], "QUIT": [], "SLEEP": [b"0"], "CONFIG": [b"GET", b"requirepass"],
        "LPUSH": [b"c17:list", v], "RPUSH": [b"c17:list", v], "LPOP": [b"c17:list"], "RPOP": [b"c17:list"], "LLEN": [b"c17:list"],
        "LRANGE": [b"c17:list", b"0", b"-1"], "LINDEX": [b"c17:list", b"0"], "LSET": [b"c17:list", b"0", v], "LTRIM": [b"c17:list", b"1", b"0"],
        "LREM": [b"c17:list", b"0", b"CANARY"], "BLPOP": [b"c17:list", b"1"], "BRPOP": [b"c17:list", b"1"],
        "SADD": [b"c17:set", v], "SREM": [b"c17:set", v], "SMEMBERS": [b"c17:set"], "SISMEMBER": [b"c17:set", v], "SCARD": [b"c17:set"],
        "SUNION": [b"c17:set"], "SINTER": [b"c17:set"], "SDIFF": [b"c17:set"], "SRANDMEMBER": [b"c17:set"], "SPOP": [b"c17:set"],
        "HSET": [b"c17:hash", b"f", v], "HGET": [b"c17:hash", b"f"], "HMSET": [b"c17:hash", b"f", v], "HMGET": [b"c17:hash", b"f"],
        "HGETALL": [b"c17:hash"], "HDEL": [b"c17:hash", b"f"], "HLEN": [b"c17:hash"], "HEXISTS": [b"c17:hash", b"f"], "HKEYS": [b"c17:hash"],
        "HVALS": [b"c17:hash"], "HINCRBY": [b"c17:hash", b"n", b"1"],
        "ZADD": [b"c17:zset", b"1", v], "ZREM": [b"c17:zset", b"m"], "ZSCORE": [b"c17:zset", b"m"], "ZCARD": [b"c17:zset"], "ZRANK": [b"c17:zset", b"m"],
        "ZREVRANK": [b"c17:zset", b"m"], "ZRANGE": [b"c17:zset", b"0", b"-1"], "ZREVRANGE": [b"c17:zset", b"0", b"-1"],
        "ZRANGEBYSCORE": [b"c17:zset", b"-inf", b"+inf"], "ZREVRANGEBYSCORE": [b"c17:zset", b"+inf", b"-inf"], "ZCOUNT": [b"c17:zset", b"-inf", b"+inf"],
        "ZINCRBY": [b"c17:zset", b"1", b"m"], "ZPOPMIN": [b"c17:zset"], "ZPOPMAX": [b"c17:zset"],
        "XADD": [b"c17:stream", b"*", b"f", v], "XRANGE": [b"c17:stream", b"-", b"+"], "XREVRANGE": [b"c17:stream", b"+", b"-"], "XLEN": [b"c17:stream"],
        "XREAD": [b"STREAMS", b"c17:stream", b"0"], "XTRIM": [b"c17:stream", b"MAXLEN", b"0"], "XDEL": [b"c17:stream", b"1-1"],
        "XGROUP": [b"CREATE", b"c17:stream", b"g", b"0"], "XREADGROUP": [b"GROUP", b"g", b"c", b"STREAMS", b"c17:stream", b">"],
        "XACK": [b"c17:stream", b"g", b"1-1"], "XCLAIM": [b"c17:stream", b"g", b"c", b"0", b"1-1"], "XPENDING": [b"c17:stream", b"g"],
        "XINFO": [b"STREAM", b"c17:stream"],
        "SAVE": [], "BGSAVE": [], "LASTSAVE": [], "SCAN": [b"0"], "HSCAN": [b"c17:hash", b"0"], "SSCAN": [b"c17:set", b"0"], "ZSCAN": [b"c17:zset", b"0"],
        "BGREWRITEAOF": [], "INFO": [], "SLOWLOG": [b"GET"], "MEMORY": [b"USAGE", k], "CLIENT": [b"LIST"], "AUTH": [b"not-the-password"],
        "REPLICAOF": [b"127.0.0.1", b"1"], "SLAVEOF": [b"127.0.0.1", b"1"], "SYNC": [], "PSYNC": [b"?", b"-1"],
        "EVAL": [b"return redis.call('GET', KEYS[1])", b"1", k], "EVALSHA": [b"0" * 40, b"1", k], "COMMAND": [], "SHUTDOWN": [b"NOSAVE"],
        "SCRIPT": [b"LOAD", b"return redis.call('FLUSHALL')"], "MULTI": [], "EXEC": [], "DISCARD": [], "WATCH": [k], "UNWATCH": [],
        "PUBLISH": [CHAN, b"x"], "SUBSCRIBE": [CHAN], "UNSUBSCRIBE": [CHAN], "PSUBSCRIBE": [b"*"], "PUNSUBSCRIBE": [b"*"],
        "REPLCONF": [b"listening-port", b"6380"], "MONITOR": [], "VERIF": [b"LOOP"], "DEBUG": [b"SLEEP", b"0"],
    }
    return T.get(name, [k])


def second_args(name):
    """another argument form: none at all if the typical form has arguments, else a key"""
    S = {"PSYNC": [b"bogus-replid", b"0"], "SYNC": [b"x"], "REPLCONF": [b"ACK", b"0"], "SUBSCRIBE": [CHAN, b"other"], "AUTH": [],
         "PING": [b"echo-me"], "QUIT": [b"x"], "MONITOR": [b"x"], "EVAL": [b"return 1", b"0"], "CONFIG": [b"SET", b"slowlog-max-len", b"1"],
         "CLIENT": [b"KILL", b"ID", b"1"], "SHUTDOWN": [], "FLUSHALL": [b"ASYNC"], "SCRIPT": [b"FLUSH"], "XGROUP": [b"DESTROY", b"c17:stream", b"g"]}
    return S.get(name)


def hostile_names():
    """names outside the table: case and Unicode variants of the gate's and the pre-gate's names, padding,
    unknown, empty, binary, long"""
    out = []
    for base in (b"SYNC", b"PSYNC", b"AUTH", b"PING", b"QUIT", b"GET", b"MONITOR", b"REPLCONF"):
        out += [base.lower(), base.capitalize(), b" " + base, base + b" ", b"\t" + base + b"\r\n", base + b"\x00", base + b"X", base[:-1],
                b"\xc2\xa0" + base, base + b"\xe2\x80\xa8", base + b"\x85", b"\xff" + base]
    out += ["ſYNC".encode(), "pſync".encode(), "PıNG".encode(), "QUıT".encode(), "ﬂUSHALL".encode(), "ßYNC".encode(),
            "ſync ".encode(), " ſync".encode(), b"AUTH\xcc\x81", "KEYS".encode(),
            b"", b" ", b"\xff\xfe", b"\xc5", b"NOSUCHCOMMAND", b"HELLO", b"DEBUG", b"ACL", b"WAIT", b"FAILOVER", b"MIGRATE", b"DUMP", b"RESTORE",
            b"OBJECT", b"SWAPDB", b"MOVE", b"COPY", b"A" * 10000, b"SYNC" * 1000]
    return out


WRONG_PASSWORDS = [
    ("prefix", PASSWORD[:-1]), ("prefix1", PASSWORD[:1]), ("suffix", PASSWORD + b"x"), ("suffix-nul", PASSWORD + b"\x00"), ("suffix-space", PASSWORD + b" "),
    ("lead-space", b" " + PASSWORD), ("upper", PASSWORD.upper()), ("lower", PASSWORD.lower()), ("swapcase", PASSWORD.swapcase()), ("empty", b""),
    ("binary-ff", b"\xff"), ("binary-ff-suffix", PASSWORD + b"\xff"), ("latin1-e", "s3cr\u00e9t-Pw".encode("latin-1")),
    ("decomposed-e", "s3crét-Pw".encode("utf-8")), ("overlong", PASSWORD.replace(b"-", b"\xc0\xad")), ("ascii-e", b"s3cret-Pw"),
    ("very-long", PASSWORD * 3000), ("crlf", PASSWORD + b"\r\n"), ("quoted", b'"' + PASSWORD + b'"'), ("default", b"default"),
    ("the-overridden-config-password", OTHER_PW), ("doubled", PASSWORD + PASSWORD), ("suffix-lf", PASSWORD + b"\n"), ("one-byte-off", PASSWORD[:-1] + bytes([PASSWORD[-1] ^ 1])),
] + [("prefix-len%d" % k, PASSWORD[:k]) for k in range(2, len(PASSWORD) - 1)]      # with "empty", "prefix1", "prefix": EVERY proper prefix


# ------------------------------------------------------------------------------------------ the check
class ControlAuthFailed(Exception):
    """AUTH <exact password> on a fresh connection of a fresh server was not answered +OK"""


class ServerOpen(Exception):
    """a server that was given a password answered a request of its very first, unauthenticated connection"""


FALLBACK_NAMES = ("VERIF PING ECHO SET GET INCR DECR INCRBY DECRBY DEL EXISTS EXPIRE TTL SELECT FLUSHDB FLUSHALL DBSIZE SETNX SETEX PSETEX SLEEP CONFIG MGET MSET "
                  "GETSET APPEND STRLEN GETRANGE SETRANGE TYPE RENAME RENAMENX RANDOMKEY BLPOP BRPOP KEYS PEXPIRE PTTL PERSIST LPUSH RPUSH LPOP RPOP LLEN LRANGE "
                  "LINDEX LSET LTRIM LREM SADD SREM SMEMBERS SISMEMBER SCARD SUNION SINTER SDIFF SRANDMEMBER SPOP HSET HGET HMSET HMGET HGETALL HDEL HLEN HEXISTS "
                  "HKEYS HVALS HINCRBY ZADD ZREM ZSCORE ZCARD ZRANK ZREVRANK ZRANGE ZREVRANGE ZRANGEBYSCORE ZREVRANGEBYSCORE ZCOUNT ZINCRBY ZPOPMIN ZPOPMAX XADD "
                  "XRANGE XREVRANGE XLEN XREAD XTRIM XDEL XGROUP XREADGROUP XACK XCLAIM XPENDING XINFO SAVE BGSAVE LASTSAVE SCAN HSCAN SSCAN ZSCAN BGREWRITEAOF "
                  "INFO SLOWLOG MEMORY CLIENT AUTH REPLICAOF SLAVEOF SYNC PSYNC QUIT EVAL EVALSHA COMMAND SHUTDOWN SCRIPT MULTI EXEC DISCARD WATCH UNWATCH PUBLISH "
                  "SUBSCRIBE UNSUBSCRIBE PSUBSCRIBE PUNSUBSCRIBE REPLCONF MONITOR").split()


def canon_class(c):
    """a reply of dispatch and the same reply produced by the gate's own arms are the same class"""
    return {"d ( s 4f4b )": "ok", "d ( s 504f4e47 )": "pong"}.get(c, c)


class C17:
    def __init__(self, rep, seed, tag="c17", mode=DEFAULT_MODE, custom=None):
        self.rep, self.seed, self.mode, self.custom = rep, seed, mode, custom
        if custom:
            self.mode = "custom:" + custom["label"]
        self.model = lean_driver("auth")
        self.tables = self.ask("tables")
        kv = dict(x.split("=", 1) for x in self.tables.split(" "))
        self.pre_gate = [unhx(x) for x in kv["preGate"].split("|")] if kv["preGate"] != "." else []
        self.guarded = [unhx(x) for x in kv["guarded"].split("|")] if kv["guarded"] != "." else []
        self.unknown = [unhx(x) for x in kv["unknown"].split("|")] if kv.get("unknown", ".") != "." else []
        self.allow = [unhx(x.split(":")[0]) for x in kv["allow"].split("|")] if kv["allow"] != "." else []
        self.blind = int(kv.get("unreadable", "0")) > 0            # the translator could not read the source: no predictions
        self.deferral = kv.get("deferral", "absent")
        self.unreadable = self.model.ask("unreadable") or "."
        a = self.ask("names")
        self.names = [unhx(x).decode() for x in a.split("|")] if a != "." else []
        self.names_from = "Gen.allCommandNames (regenerated)"
        if len(self.names) < 20:
            # the dispatch table could not be read: the search still runs, over the last table this file has seen
            self.names, self.names_from = list(FALLBACK_NAMES), "built-in fallback list (dispatch table unreadable)"
        self.oracle_failures, self.disagreements = [], []
        self.next_conn = 0
        self.nonce = 0
        self.srv = None
        self.tag = tag
        self.start_server()

    def ask(self, line):
        a = self.model.ask(line)
        if a is None or a == "bad-op":
            raise InternalError("Lean auth driver failed on: %s -> %r" % (line[:200], a))
        return a

    # ---- server life cycle (a server that dies is an observation, after which a new one is started)
    def start_server(self, mode=None, custom=None):
        """mode: a key of MODES; custom: a server given ANOTHER password value (config_value_family): dict(label, kw, cli, lines,
        given, password) — `lines` are the raw lines of the configuration file, `given` the values they were written to carry"""
        if custom is not None:
            self.custom, self.mode = custom, "custom:" + custom["label"]
        elif mode is not None:
            self.custom, self.mode = None, mode
        if self.srv is not None:
            for b in getattr(self, "bystanders", []):
                b[0].close()
            self.srv.stop()
        M = getattr(self, "custom", None) or MODES[self.mode]
        self.password = M.get("password", PASSWORD)
        hl = lambda xs: "|".join(hx(x) for x in xs) or "."
        # probe=False: nobody connects before us, so the first bystander below is the FIRST connection the server ever accepts
        self.srv = Server(self.tag, probe=False, **M["kw"])
        if "lines" in M:
            a = self.ask("configlines %s %s" % (hl(M["cli"]), hl(M["lines"])))
        else:
            a = self.ask("config %s %s" % (hl(M["cli"]), hl(M["file"])))
        self.model_password, self.spec_password = (x.split("=")[1] for x in a.split(" "))
        self.no_pred = self.model_password == "unknown"
        if self.spec_password != hx(self.password):
            raise InternalError("mode %s: the Spec's password is %s" % (self.mode, self.spec_password))
        # bystanders: connections that never send AUTH and stay open for the life of this server; every case ends by probing them
        self.bystanders = []
        for label in ("first-accepted", "second-accepted"):
            c = self.srv.client()
            self.bystanders.append((c, self.m_accept(expect=None), label))
        r = self.bystanders[0][0].cmd(*PROBE_ARGS)
        self.ask("frame %d %s" % (self.bystanders[0][1], PROBE.line()))
        if not (r[0] == "e" and r[1].startswith(b"NOAUTH")):
            raise ServerOpen(r)
        self.ctl = self.srv.client()
        self.m_accept(expect=None)           # the control connection exists in the model too
        self.ctl_id = self.next_conn - 1
        r = self.ctl.cmd("AUTH", self.password)
        m = self.ask("frame %d cmd %s %s" % (self.ctl_id, hx(b"AUTH"), hx(self.password)))
        if r != ("s", b"OK"):
            raise ControlAuthFailed(r)
        if not (m.startswith("ok # auth-ok # authenticated") or ((self.blind or self.no_pred) and m.startswith("unknown # auth-ok"))):
            raise InternalError("model: the exact password does not authenticate: %r" % m)
        for db in CANARY_DBS:
            self.ctl.cmd("SELECT", db)
            self.ctl.cmd("SET", canary_key(db), canary_val(db, self.seed))
        self.ctl.cmd("SELECT", 0)
        self.ctl.cmd("RPUSH", "c17:list", canary_val(0, self.seed), b"second")
        self.ctl.cmd("SADD", "c17:set", canary_val(0, self.seed))
        self.ctl.cmd("HSET", "c17:hash", "f", canary_val(0, self.seed), "n", "1")
        self.ctl.cmd("ZADD", "c17:zset", "1", "m")
        self.ctl.cmd("XADD", "c17:stream", "1-1", "f", canary_val(0, self.seed))
        self.ctl.cmd("SET", "c17:n", "10")
        self.probe = 0
        self.observe()                       # creates the probe key
        self.baseline = self.observe()
        self.model_replicas = 0

    def probe_bystanders(self, rec):
        """every OTHER live connection that never sent AUTH — in particular the first one the server accepted — must still be
        locked out: rights are per connection, whatever path (EXEC, a script, a substitute connection id) an AUTH went through"""
        for i, (c, cid, label) in enumerate(list(self.bystanders)):
            try:
                r = c.cmd(*PROBE_ARGS)
            except (Closed, OSError, ProtocolError):
                # closed by the server (not expected: no idle time-out is configured): replace it, it is no longer the first
                c.close()
                self.ask("drop %d" % cid)
                self.bystanders[i] = (self.srv.client(), self.m_accept(expect=None), label + "-reopened")
                self.rep.count("bystander.reopened")
                continue
            m = self.ask("frame %d %s" % (cid, PROBE.line())).split(" # ")
            a = "err-noauth" if r[0] == "e" and r[1].startswith(b"NOAUTH") else "err" if r[0] == "e" else "d " + show_reply(r)
            if m[1] == "must-refuse" and not a.startswith("err"):
                rec["problems"].append({"kind": "oracle", "bystander": label,
                                        "why": "a connection that never sent AUTH has rights (%s connection of this server: GET c17:n -> %s)" % (label, a)})
            elif m[0] not in ("unknown", a):
                rec["problems"].append({"kind": "model", "why": "bystander %s: impl %s, model %s" % (label, a, m[0])})
        self.rep.count("bystander.probes", len(self.bystanders))

    def close(self):
        try:
            for b in getattr(self, "bystanders", []):
                b[0].close()
            self.ctl.close()
        except Exception:
            pass
        if self.srv is not None:
            self.srv.stop()
        self.model.close()

    def m_accept(self, expect="connected"):
        c = self.next_conn
        self.next_conn += 1
        st = self.ask("accept %d" % c)
        if expect is not None and st != expect:
            raise InternalError("model: a fresh connection of a password-protected server is %r" % st)
        return c

    # ---- what an authenticated client sees of the server: dataset, subscriptions, replicas
    def observe(self):
        c = self.ctl
        out = []
        self.probe += 1
        for db in CANARY_DBS:
            c.send("SELECT", db)
            c.send("DBSIZE")
            c.send("GET", canary_key(db))
            c.send("PTTL", canary_key(db))
        c.send("SELECT", 0)
        for cmd in (("LRANGE", "c17:list", "0", "-1"), ("SMEMBERS", "c17:set"), ("HGETALL", "c17:hash"), ("ZRANGE", "c17:zset", "0", "-1", "WITHSCORES"),
                    ("XLEN", "c17:stream"), ("GET", "c17:n"), ("EXISTS", "c17:stolen", "c17:new"), ("CONFIG", "GET", "slowlog-max-len"),
                    ("PUBLISH", CHAN, "probe"), ("PUBLISH", "other", "probe"),
                    # a write: it is propagated to every registered replica and shown to every monitor
                    ("SET", "c17:probe", "p%d" % self.probe), ("INFO", "replication")):
            c.send(*cmd)
        n = 4 * len(CANARY_DBS) + 1 + 12
        rs = [c.read_reply() for _ in range(n)]
        i = 0
        for db in CANARY_DBS:
            out.append(("db%d" % db, show_reply(rs[i + 1]), show_reply(rs[i + 2]), show_reply(rs[i + 3])))
            i += 4
        i += 1
        labels = ["list", "set", "hash", "zset", "xlen", "n", "created", "slowlog-max-len", "subscribers(c17chan)", "subscribers(other)", "probe-write", "replication"]
        for lab, r in zip(labels, rs[i:]):
            if lab == "replication":
                m = re.search(rb"connected_slaves:(\d+)", r[1] if r[0] == "b" else b"")
                role = re.search(rb"role:(\w+)", r[1] if r[0] == "b" else b"")
                out.append(("connected_slaves", int(m.group(1)) if m else -1))
                out.append(("role", role.group(1).decode() if role else "?"))
            elif lab in ("set", "hash"):
                out.append((lab, show_reply(r, sort=True)))
            else:
                out.append((lab, show_reply(r)))
        return out

    # ---- one unauthenticated connection: pre-steps, one pipeline, sentinel
    def read_until_sentinel(self, u, nonce, limit=400):
        """frames received until the echo of the sentinel PING (excluded); ends early when the connection closes"""
        frames, how = [], "sentinel"
        for _ in range(limit):
            try:
                r = u.read_reply(2.0)
            except Closed:
                how = "closed"
                break
            except TimeoutError:
                how = "timeout"
                break
            except ProtocolError as e:
                how = "protocol:%s" % e
                frames.append(("raw", u.buf[:200]))
                break
            if r == ("b", nonce):
                break
            frames.append(r)
        return frames, how

    def classify_frames(self, reqs, frames):
        """align the received frames with the requests.  A full resynchronisation writes the RDB image straight
        to the socket (before the replies queued so far) and answers +FULLRESYNC: those two frames make the
        class `leak` of the pre-gate request they belong to; a propagated write (`*3 SET c17:probe ..`) is
        replication traffic.  Returns (classes per request | None if they cannot be aligned, leaks, pushed)."""
        rdb = [f for f in frames if f[0] == "b" and f[1].startswith(b"REDIS")]
        pushed = [f for f in frames if f[0] == "a" and f[1] and f[1][0] in (("b", b"SET"), ("b", b"message"), ("b", b"pmessage"))]
        rest = [f for f in frames if f not in rdb and f not in pushed]
        if len(rest) != len(reqs):
            return None, len(rdb), pushed
        out = []
        for q, f in zip(reqs, rest):
            if f[0] == "e":
                out.append("err-noauth" if f[1].startswith(b"NOAUTH") else "err")
            elif f[0] == "s" and f[1].startswith(b"FULLRESYNC"):
                out.append("leak")
            elif f[0] == "s" and f[1] == b"CONTINUE":
                out.append("continue")
            elif f == ("s", b"OK"):
                out.append("ok")
            elif f == ("s", b"PONG"):
                out.append("pong")
            elif q.kind == "cmd" and q.args and ((q.args[0] is None and f == ("i", 5)) or (q.args[0] is not None and f == ("b", q.args[0]))):
                out.append("echo " + ("~" if q.args[0] is None else hx(q.args[0])))
            else:
                out.append("d " + show_reply(f))
        return out, len(rdb), pushed

    def run_case(self, case):
        """A case never raises for something the SERVER did: if the control connection or the server is lost while
        the case runs (an unauthenticated connection shut it down, killed the client, made it a replica, wedged
        it ...) that is an oracle failure of this case; a new server, control connection and model state are set up."""
        self.cur = None
        try:
            return self._run_case(case)
        except (OSError, Closed, ProtocolError) as e:
            rec = self.cur or {"case": {"tag": case["tag"], "pre": [q.to_json() for q in case["pre"]], "other_auth": case.get("other_auth", False),
                                        "pipe": [q.to_json() for q in case["pipe"]], "target": case["target"], "cuts": case.get("cuts", [])},
                               "impl": [], "code": [], "spec": [], "problems": []}
            alive = self.srv.alive()
            rec["problems"].append({"kind": "oracle", "lost": True,
                                    "why": "the %s was lost while an unauthenticated connection's requests ran (%s: %s)%s" % (
                                        "control connection" if alive else "server", type(e).__name__, e,
                                        "" if alive else " — server log: " + self.srv.log_tail(300))})
            rec["stopped"] = "lost"
            self.rep.evaluations += 1
            self.rep.count("case.control-or-server-lost")
            self.start_server()
            return rec

    def _run_case(self, case):
        """case: {"pre": [Req...] sent one by one first, "other_auth": bool, "pipe": [Req...] sent in one write,
        "target": index into pipe of the request under test, "tag": ...}.  Returns a record."""
        rep = self.rep
        if not self.srv.alive():
            self.start_server()
        try:
            u = self.srv.client()
        except OSError:
            self.start_server()
            u = self.srv.client()
        uid = self.m_accept()
        rec = {"case": {"tag": case["tag"], "pre": [q.to_json() for q in case["pre"]], "other_auth": case.get("other_auth", False),
                        "pipe": [q.to_json() for q in case["pipe"]], "target": case["target"], "cuts": case.get("cuts", []), "mode": self.mode},
               "impl": [], "code": [], "spec": [], "problems": []}
        if getattr(self, "custom", None):
            rec["case"]["custom"] = custom_json(self.custom)
        self.cur = rec
        leaked_here = 0
        received = []                                  # every frame this unauthenticated connection ever got
        try:
            # -- pre-steps, one at a time (failed AUTHs ...)
            for q in case["pre"]:
                u.send_raw(q.wire())
                self.nonce += 1
                nonce = b"c17-sentinel-%d" % self.nonce
                u.send("PING", nonce)
                frames, how = self.read_until_sentinel(u, nonce)
                received += frames
                m = self.ask("frame %d %s" % (uid, q.line()))
                self.ask("frame %d cmd %s %s" % (uid, hx(b"PING"), hx(nonce)))
                cls, nleak, pushed = self.classify_frames([q], frames)
                self.compare(rec, [q], cls, nleak, pushed, how, [m.split(" # ")[0]], [m.split(" # ")[1]], stage="pre")
                leaked_here += nleak
                if any(p["kind"] == "oracle" for p in rec["problems"]):
                    # the situation itself is already a failure (e.g. a wrong password authenticated): nothing hostile is
                    # sent on a connection that may have more rights than it should — the replay stays minimal
                    rec["stopped"] = "pre"
                    rep.evaluations += 1
                    return rec
            # -- another connection authenticates meanwhile
            if case.get("other_auth"):
                o = self.srv.client()
                oid = self.m_accept()
                r = o.cmd("AUTH", self.password)
                m = self.ask("frame %d cmd %s %s" % (oid, hx(b"AUTH"), hx(self.password)))
                r2 = o.cmd("GET", "c17:n")
                if r != ("s", b"OK") or r2 != ("b", b"10"):
                    rec["problems"].append({"kind": "oracle", "why": "the exact password did not authenticate another connection", "impl": [repr(r), repr(r2)], "code": m})
                elif not m.startswith(("ok # auth-ok", "unknown # auth-ok")):
                    rec["problems"].append({"kind": "model", "why": "model: the exact password did not authenticate another connection", "code": m})
                o.close()
                self.ask("drop %d" % oid)
            # -- the pipeline, in one write
            pipe = case["pipe"]
            data = b"".join(q.wire() for q in pipe)
            prev = 0
            try:
                for cut in case.get("cuts", []):         # TCP segmentation: the same bytes in several writes
                    u.send_raw(data[prev:cut])
                    prev = cut
                    time.sleep(0.002)
                u.send_raw(data[prev:])
            except OSError:
                pass                                     # closed by the server meanwhile: shows up as missing replies
            first = None
            try:
                first = u.read_reply(2.0)               # so that the sentinel arrives in a later read
            except (Closed, TimeoutError, ProtocolError):
                pass
            # -- the control connection looks at the server (and writes: replicas and monitors would be told)
            obs = self.observe()
            self.probe_bystanders(rec)
            self.nonce += 1
            nonce = b"c17-sentinel-%d" % self.nonce
            how = "closed"
            frames = [first] if first is not None else []
            try:
                u.send("PING", nonce)
                more, how = self.read_until_sentinel(u, nonce)
                frames += more
            except OSError:
                pass
            received += frames
            m = self.ask("batch %d %s" % (uid, " ; ".join(q.line() for q in pipe)))
            parts = m.split(" # ")
            code = [x.split(" / ")[0] for x in parts[0].split(" ; ")]
            spec = [x.split(" / ")[1] for x in parts[0].split(" ; ")]
            state_after, model_same, model_replicas = parts[1], parts[2], int(parts[3])
            if state_after != "closing":
                self.ask("frame %d cmd %s %s" % (uid, hx(b"PING"), hx(nonce)))
            # frames behind a QUIT that ended the batch are neither executed nor answered (`skipped`): the replies belong to the others
            executed = [q for q, v in zip(pipe, spec) if v != "skipped"]
            cls, nleak, pushed = self.classify_frames(executed, frames)
            if cls is not None and len(executed) != len(pipe):
                it = iter(cls)
                cls = [next(it) if v != "skipped" else "skipped" for v in spec]
                self.rep.count("frames-behind-quit.not-answered", len(pipe) - len(executed))
            leaked_here += nleak
            self.compare(rec, pipe, cls, nleak, pushed, how, code, spec, stage="pipe", state_after=state_after)
            # -- side effects: everything the control connection sees, against the baseline
            exp = list(self.baseline)
            diff = [(a, b) for a, b in zip(exp, obs) if a != b]
            known_repl = []
            unknown = "unknown" in code
            for a, b in diff:
                if not unknown and a[0] == "connected_slaves" and b[1] == model_replicas and b[1] == a[1] + leaked_here and leaked_here > 0:
                    known_repl.append((a, b))           # the model registers the same replicas: part of the leak
            real = [d for d in diff if d not in known_repl]
            if real:
                rec["problems"].append({"kind": "oracle", "why": "side effect of an unauthenticated connection: %s" % (
                    "; ".join("%s: %r -> %r" % (a[0], a[1:], b[1:]) for a, b in real)), "observed": real})
                self.restore()
            if known_repl or leaked_here:
                self.baseline = obs if not real else self.baseline
                if obs[-2][1] != model_replicas and not unknown:
                    rec["problems"].append({"kind": "model", "why": "replica count: impl %r, model %d" % (obs[-2][1], model_replicas)})
            # -- no canary byte may ever reach an unauthenticated connection
            blob = repr(received).encode("latin-1", "replace")
            if any(canary_val(db, self.seed) in blob for db in CANARY_DBS) or b"TOPSECRET" in blob:
                rec["problems"].append({"kind": "oracle", "why": "canary value received by an unauthenticated connection", "leak": True})
            rec["leaks"] = leaked_here
        finally:
            u.close()
            self.ask("drop %d" % uid)
        if not self.srv.alive():
            rec["problems"].append({"kind": "oracle", "why": "the server died: " + self.srv.log_tail(300)})
            self.start_server()
        rep.evaluations += 1
        return rec

    def restore(self):
        """after an observed side effect: a fresh server, so that later cases are judged on their own"""
        self.start_server()

    def compare(self, rec, reqs, cls, nleak, pushed, how, code, spec, stage, state_after=None):
        rec["impl"].append({"stage": stage, "classes": cls, "rdb_images": nleak, "pushed": [show_reply(p) for p in pushed], "end": how})
        rec["code"].append({"stage": stage, "classes": code, "state_after": state_after})
        rec["spec"].append({"stage": stage, "verdicts": spec})
        rep = self.rep
        if cls is None:
            rec["problems"].append({"kind": "oracle", "why": "replies cannot be aligned with the requests (%s): one reply per request expected" % how, "stage": stage})
            return
        for i, (q, a, c, v) in enumerate(zip(reqs, cls, code, spec)):
            a, c = canon_class(a), canon_class(c)
            rep.count("reply." + a.split(" ")[0])
            # the property's oracle
            if v == "must-refuse" and not a.startswith("err"):
                rec["problems"].append({"kind": "oracle", "why": "request of an unauthenticated connection not refused", "stage": stage, "index": i,
                                        "request": q.text(), "name": hx(q.name) if q.name is not None else None, "impl": a, "spec": v})
            if v == "auth-fail" and not a.startswith("err"):
                rec["problems"].append({"kind": "oracle", "why": ("a wrong password authenticated: %s" % q.text()[:120]) if a == "ok" else
                                        "AUTH without the exact password was not refused (%s)" % a, "stage": stage, "index": i,
                                        "request": q.text(), "name": hx(q.name), "impl": a, "spec": v})
            if v == "auth-ok" and a != "ok":
                rec["problems"].append({"kind": "oracle", "why": "the exact password does not authenticate", "stage": stage, "index": i,
                                        "request": q.text(), "name": hx(q.name), "impl": a, "spec": v})
            # correspondence with the Code model (`unknown`: the model could not read the source here and predicts nothing)
            if c == "unknown":
                rep.count("model.no-prediction")
            elif a != c:
                rec["problems"].append({"kind": "model", "why": "reply class differs from the model", "stage": stage, "index": i, "request": q.text(),
                                        "name": hx(q.name) if q.name is not None else None, "impl": a, "code": c})
        nl = sum(1 for a in cls if a == "leak")
        if nl != nleak:
            rec["problems"].append({"kind": "oracle" if (nleak > nl or "unknown" in code) else "model", "why": "%d RDB image(s) received, %d +FULLRESYNC" % (nleak, nl), "stage": stage})
        if pushed and not nleak and not any(a == "leak" for a in cls):
            rec["problems"].append({"kind": "oracle", "why": "an unauthenticated connection received pushed data: %s" % [show_reply(p) for p in pushed][:3], "stage": stage})
        if stage == "pipe" and state_after == "closing" and how not in ("closed",) and "unknown" not in code:
            # QUIT: the connection is closed after the batch
            rec["problems"].append({"kind": "model", "why": "model says the connection closes after the batch, impl: %s" % how, "stage": stage})
        if stage == "pipe" and state_after != "closing" and how != "sentinel":
            rec["problems"].append({"kind": "oracle", "why": "connection unusable after refused requests (%s)" % how, "stage": stage})

    # ---- connection-state commands executed indirectly (inside EXEC, inside a script) by an authenticated connection
    def indirect_session(self, tag, writes):
        """B authenticates and sends `writes` (each a list of Req sent in one write).  Commands that change the state of "the
        connection" (AUTH, SELECT, CLIENT SETNAME, SUBSCRIBE, MONITOR ...) reach their handlers through paths that substitute
        another connection id (a literal id inside EXEC) or have none (scripts): they must affect the issuing connection or
        nobody.  Afterwards EVERY other live connection is probed (the bystanders: first- and second-accepted, never sent
        AUTH), CLIENT LIST must show them unnamed on database 0, and the control connection's view must be unchanged."""
        rec = {"case": {"tag": tag, "mode": self.mode, "session": "indirect", "pre": [],
                        "writes": [[q.to_json() for q in w] for w in writes]}, "problems": [], "impl": [], "code": [], "spec": []}
        self.cur = rec
        try:
            b = self.srv.client()
            bid = self.m_accept(expect=None)
            try:
                r = b.cmd("AUTH", PASSWORD)
                self.ask("frame %d cmd %s %s" % (bid, hx(b"AUTH"), hx(PASSWORD)))
                if r != ("s", b"OK"):
                    rec["problems"].append({"kind": "oracle", "why": "the exact password does not authenticate: %r" % (r,)})
                    return rec
                shown = []
                for w in writes:
                    b.send_raw(b"".join(q.wire() for q in w))
                    for q in w:
                        try:
                            shown.append(show_reply(b.read_reply(2.0))[:60])
                        except (Closed, OSError, ProtocolError) as e:
                            shown.append("closed:" + type(e).__name__)
                            break
                rec["impl"] = [{"stage": "indirect", "replies": shown}]
                self.rep.nontrivial(("indirect", tag, tuple(x[:12] for x in shown)))
                mine = {c.s.getsockname()[1]: label for c, _, label in self.bystanders}
                cl = self.ctl.cmd("CLIENT", "LIST")
                for line in (cl[1].decode("latin-1").splitlines() if cl[0] == "b" else []):
                    kv = dict(x.split("=", 1) for x in line.split(" ") if "=" in x)
                    port = int(kv.get("addr", ":0").rsplit(":", 1)[-1] or 0)
                    if port in mine and (kv.get("name", "") != "" or kv.get("db", "0") != "0"):
                        rec["problems"].append({"kind": "oracle", "bystander": mine[port],
                                                "why": "a command of another connection changed the %s connection: CLIENT LIST shows %s" % (mine[port], line[:120])})
                obs = self.observe()
                diff = [(x, y) for x, y in zip(self.baseline, obs) if x != y]
                if diff:
                    rec["problems"].append({"kind": "model", "why": "indirect session changed what the control connection sees: %s" % diff[:3]})
                    self.baseline = obs
                self.probe_bystanders(rec)
            finally:
                b.close()
                self.ask("drop %d" % bid)
        except (OSError, Closed, ProtocolError) as e:
            rec["problems"].append({"kind": "oracle", "lost": True, "why": "control connection / server lost in an indirect-execution session (%s: %s)" % (type(e).__name__, e)})
            self.start_server()
            return rec
        self.rep.evaluations += 1
        self.rep.count("indirect-session")
        if any(p["kind"] == "oracle" for p in rec["problems"]):
            self.start_server()                  # somebody has rights he should not have: later cases get a clean server
        return rec

    # ---- an authenticated connection blocks with frames kept back; an unauthenticated one next to it
    def waiters(self, key):
        """number of connections registered as blocked on `key` (VERIF BLOCKED of database 0), None if the hook is absent"""
        r = self.ctl.cmd("VERIF", "BLOCKED")
        if r[0] != "a":
            return None
        xs = r[1]
        for i in range(0, len(xs) - 1, 2):
            if xs[i] == ("b", key) and xs[i + 1][0] == "a":
                return len(xs[i + 1][1])
        return 0

    def blocked_session(self, cmd, timeout_arg, tag):
        """A authenticates and sends `BLPOP q <t>; GET n; AUTH wrong; GET n; PING` in one write: it blocks, the rest is kept back
        (`Connection::deferred_frames`).  Meanwhile an unauthenticated connection sends `GET canary; BLPOP q 0; GET canary`
        (a run_case: refused at once, nothing parked, no waiter registered).  A is then served (or times out) and the
        frames kept back run with A's own rights: the failed AUTH inside them changes nothing."""
        q = b"c17:q"
        rec = {"case": {"tag": tag, "pre": [], "note": "authenticated connection blocked in %s, unauthenticated neighbour" % cmd.decode()},
               "problems": [], "impl": [], "code": [], "spec": []}
        recs = []
        self.cur = rec
        a = self.srv.client()
        aid = self.m_accept()
        try:
            try:
                r = a.cmd("AUTH", PASSWORD)
                m = self.ask("frame %d cmd %s %s" % (aid, hx(b"AUTH"), hx(PASSWORD)))
                if r != ("s", b"OK"):
                    rec["problems"].append({"kind": "oracle", "why": "the exact password does not authenticate: %r" % (r,)})
                    return [rec]
                tail = [Req(b"GET", [b"c17:n"]), Req(b"AUTH", [PASSWORD[:-1]]), Req(b"GET", [b"c17:n"]), Req(b"PING", [])]
                a.send_raw(Req(cmd, [q, timeout_arg]).wire() + b"".join(x.wire() for x in tail))
                quiet = a.nothing_pending(0.05)
                w1 = self.waiters(q)
                # the unauthenticated neighbour, judged and compared like every other case
                u = self.run_case({"tag": tag + "/neighbour", "pre": [], "other_auth": False, "target": 1,
                                   "pipe": [Req(b"GET", [canary_key(0)]), Req(b"BLPOP", [q, b"0"]), Req(b"GET", [canary_key(0)])]})
                if u["problems"]:
                    recs.append(u)
                if u.get("stopped") == "lost":
                    return recs
                w2 = self.waiters(q)
                if w1 is not None and w2 is not None and w2 > w1:
                    rec["problems"].append({"kind": "oracle", "why": "the BLPOP of an unauthenticated connection registered a waiter (%d -> %d on c17:q)" % (w1, w2)})
                if timeout_arg == b"0":
                    self.ctl.cmd("RPUSH", q, "v1")
                    first = ("a", [("b", q), ("b", b"v1")])
                else:
                    first = ("na",)
                got = []
                for _ in range(1 + len(tail)):
                    try:
                        got.append(a.read_reply(3.0))
                    except (Closed, OSError, ProtocolError) as e:
                        got.append(("closed", type(e).__name__))
                        break
                want = [first, ("b", b"10"), "err", ("b", b"10"), ("s", b"PONG")]
                shown = ["err" if g[0] == "e" else show_reply(g) if g[0] != "closed" else "closed" for g in got]
                rec["impl"] = [{"stage": "blocked", "quiet_while_blocked": quiet, "waiters": [w1, w2], "replies": shown}]
                okay = len(got) == len(want) and all((w == "err" and g[0] == "e") or g == w for g, w in zip(got, want))
                self.rep.count("blocked-session.%s" % ("as-expected" if okay and quiet else "deviates"))
                self.rep.nontrivial(("blocked-session", cmd, timeout_arg, quiet, tuple(shown)))
                if any(g[0] == "e" and g[1].startswith(b"NOAUTH") for g in got):
                    rec["problems"].append({"kind": "oracle", "why": "an authenticated connection was answered NOAUTH for frames of its own batch (kept back / run while it was blocked): %s" % shown})
                elif len(got) > 3 and got[1] == ("b", b"10") and got[3] != ("b", b"10"):
                    rec["problems"].append({"kind": "oracle", "why": "a failed AUTH inside the frames kept back changed the connection's rights: %s" % shown})
                # nobody else was waiting: a second element stays in the list
                if timeout_arg == b"0":
                    self.ctl.cmd("RPUSH", q, "v2")
                    n = self.ctl.cmd("LLEN", q)
                    if n != ("i", 1) and okay:
                        rec["problems"].append({"kind": "oracle", "why": "an element pushed after A was served did not stay in the list (LLEN %r): somebody else was registered" % (n,)})
                self.ctl.cmd("DEL", q)
            except (OSError, Closed, ProtocolError) as e:
                rec["problems"].append({"kind": "oracle", "lost": True, "why": "control connection / server lost in a blocked session (%s: %s)" % (type(e).__name__, e)})
                self.start_server()
                return recs + [rec]
        finally:
            a.close()
            try:
                self.ask("drop %d" % aid)
            except InternalError:
                pass
        self.rep.evaluations += 1
        if rec["problems"]:
            recs.append(rec)
        return recs

    # ---- after authenticating, commands work; QUIT closes
    def authenticated_session(self, pre):
        u = self.srv.client()
        uid = self.m_accept()
        rec = {"case": {"tag": "authenticated-session", "pre": [q.to_json() for q in pre]}, "problems": [], "impl": [], "code": []}
        try:
            seq = list(pre) + [Req(b"GET", [b"c17:sess"]), Req(b"auth", [PASSWORD]), Req(b"SET", [b"c17:sess", b"v1"]), Req(b"GET", [b"c17:sess"]),
                               Req(b"AUTH", [b"wrong"]), Req(b"GET", [b"c17:sess"]), Req(b"DEL", [b"c17:sess"]), Req(b"PING", []), Req(b"QUIT", [])]
            for q in seq:
                try:
                    u.send_raw(q.wire())
                    r = u.read_reply(2.0)
                    a = self.classify_frames([q], [r])[0][0]
                except (Closed, OSError, ProtocolError) as e:
                    a = "closed:" + type(e).__name__
                m = self.ask("frame %d %s" % (uid, q.line()))
                c, v = canon_class(m.split(" # ")[0]), m.split(" # ")[1]
                a = canon_class(a)
                rec["impl"].append(a)
                rec["code"].append(c)
                self.rep.count("session." + a.split(" ")[0])
                self.rep.nontrivial(("session", q.name.upper()[:8], a.split(" ")[0], v))
                if c == "unknown":
                    if (v in ("must-refuse", "auth-fail") and not a.startswith("err")) or (v == "auth-ok" and a != "ok"):
                        rec["problems"].append({"kind": "oracle", "why": "session: %s answered %s (%s)" % (q.text()[:80], a, v), "request": q.text(), "name": hx(q.name)})
                elif a != c:
                    rec["problems"].append({"kind": "oracle" if v in ("must-refuse", "auth-fail", "auth-ok") else "model",
                                            "why": "authenticated session: impl %s, model %s (%s)" % (a, c, v), "request": q.text(), "name": hx(q.name)})
            try:
                u.read_reply(1.0)
                rec["problems"].append({"kind": "oracle", "why": "connection still open after QUIT"})
            except Closed:
                pass
            except (TimeoutError, ProtocolError):
                rec["problems"].append({"kind": "oracle", "why": "connection not closed after QUIT"})
        finally:
            u.close()
            self.ask("drop %d" % uid)
        self.rep.evaluations += 1
        # the key was deleted again; the probe counter moves the baseline's probe entry only
        return rec


# ------------------------------------------------------------------------------------------ case generation
PROBE = Req(b"GET", [b"c17:n"])       # benign: shows whether the connection got through the gate
PROBE_ARGS = ("GET", "c17:n")


def states(r, tier):
    """connection situations before the request under test: (tag, pre-steps, other connection authenticates).
    Every failed AUTH is followed by a benign probe: whether it authenticated is settled BEFORE anything hostile is sent."""
    out = [("fresh", [], False), ("other-authed", [], True)]
    for tag, pw in WRONG_PASSWORDS:
        out.append(("failed-auth:" + tag, [Req(b"AUTH", [pw]), PROBE], False))
    out.append(("failed-auth:two-args", [Req(b"AUTH", [b"default", PASSWORD]), PROBE], False))
    out.append(("failed-auth:no-args", [Req(b"AUTH", []), PROBE], False))
    out.append(("failed-auth:non-bulk", [Req(b"AUTH", [None]), PROBE], False))
    out.append(("failed-auth:then-other-authed", [Req(b"auth", [PASSWORD[:-1]]), PROBE], True))
    out.append(("after-ping", [Req(b"PING", [])], False))
    out.append(("after-refused", [Req(b"GET", [canary_key(0)]), Req(b"MULTI", [])], False))
    return out


def positions(q):
    ping, ping2 = Req(b"PING", []), Req(b"PING", [b"pp"])
    return [("alone", [q], 0), ("first", [q, ping, ping2], 0), ("middle", [ping, q, ping2], 1), ("last", [ping, ping2, q], 2)]


def positions_ext(q):
    """the same WRITE also carries failed AUTHs (wrong password, a proper prefix, empty, wrong arity, non-bulk) before the
    target, or two targets in a row: anything a batch could remember from one frame to the next"""
    ping = Req(b"PING", [])
    wrong, prefix, empty = Req(b"AUTH", [b"wrong-password"]), Req(b"auth", [PASSWORD[:-1]]), Req(b"AUTH", [b""])
    noargs, twoargs, nonbulk = Req(b"AUTH", []), Req(b"AUTH", [b"default", PASSWORD]), Req(b"AUTH", [None])
    return [("auth-wrong;T", [wrong, q], 1), ("auth-wrong;T;ping", [wrong, q, ping], 1), ("auth-prefix;T", [prefix, q], 1),
            ("auth-empty;T", [empty, q], 1), ("auth-noargs;T", [noargs, q], 1), ("auth-twoargs;T", [twoargs, q], 1),
            ("auth-nonbulk;T;ping", [nonbulk, q, ping], 1), ("ping;auth-wrong;auth-noargs;T", [ping, wrong, noargs, q], 3),
            ("T;T", [q, q], 1), ("T;auth-wrong;T", [q, wrong, q], 2), ("T;auth-wrong", [q, wrong], 0)]


REPLICATION_LIKE = {b"SYNC", b"PSYNC", b"REPLCONF", b"MONITOR", b"SUBSCRIBE", b"PSUBSCRIBE", b"REPLICAOF", b"SLAVEOF"}


def requests(c17, tier):
    """(label, Req) for every name of the dispatch table x {typical arguments, second form / none}, the hostile names, the malformed frames"""
    out = []
    for n in c17.names:
        nb = n.encode()
        out.append((n, "typical", Req(nb, typical_args(n, c17.seed))))
        s = second_args(n)
        if s is None:
            s = [] if typical_args(n, c17.seed) else [canary_key(0)]
        out.append((n, "second", Req(nb, s)))
    for nb in hostile_names():
        lab = "hostile:" + nb[:24].decode("latin-1")
        out.append((lab, "typical", Req(nb, typical_args(nb.strip().upper().decode("latin-1"), c17.seed))))
        out.append((lab, "noargs", Req(nb, [])))
    for i, q in enumerate(MALFORMED):
        out.append(("malformed:%d" % i, "raw", q))
    return out


def known_match(c17, problem, rec, findings):
    """match an oracle failure against the open findings by its shape: the request that was not refused (or the
    data / replica registration that followed) belongs to a request whose normalised name is special-cased
    before the gate (model class `pregate`) and is SYNC or PSYNC"""
    for f in findings:
        if problem.get("finding_shape") and f.get("match") == problem["finding_shape"]:
            return f
        if f.get("match") != "pregate-name":
            continue
        reqs = [Req.from_json(o) for o in rec["case"].get("pipe", [])] + [Req.from_json(o) for o in rec["case"].get("pre", [])]
        pre = [q for q in reqs if q.kind == "cmd" and c17.ask("classify " + hx(q.name)) == "pregate"
               and unhx(c17.ask("norm " + hx(q.name)).split(" ")[0]) in (b"SYNC", b"PSYNC")]
        if not pre:
            continue
        if problem.get("name") is not None:
            if any(hx(q.name) == problem["name"] for q in pre):
                return f
            continue
        if problem.get("leak") or "RDB image" in problem.get("why", "") or "pushed data" in problem.get("why", ""):
            return f
    return None


def load_findings():
    fs = [f for f in load_known_findings().get("open", []) if isinstance(f, dict) and f.get("property") == PID]
    if os.path.exists(PENDING_FINDINGS):
        try:
            for f in json.load(open(PENDING_FINDINGS)):
                if f.get("property") == PID and f["id"] not in [g["id"] for g in fs]:
                    fs.append(f)
        except (ValueError, KeyError) as e:
            raise InternalError("unreadable %s: %s" % (PENDING_FINDINGS, e))
    fixed = [f.get("id") for f in load_known_findings().get("fixed", []) if isinstance(f, dict)]
    return [f for f in fs if f["id"] not in fixed]


def settle(c17, recs, findings):
    """split the problems of the executed cases into new oracle failures, known findings, model disagreements"""
    new, known, model = [], {}, []
    for rec in recs:
        for p in rec["problems"]:
            if p["kind"] == "oracle":
                f = known_match(c17, p, rec, findings)
                if f:
                    known.setdefault(f["id"], (f, rec, p))
                    c17.rep.count("known-finding-problem." + f["id"])
                else:
                    new.append((rec, p))
            else:
                # a disagreement inside a case that exhibits a known finding is judged there
                model.append((rec, p))
    return new, known, model


def main(tier, seed):
    rep = Report(PID, tier, seed)
    rep.rule = ("real server with --requirepass over TCP; for every name of Gen.allCommandNames (regenerated from server.rs) and ~150 hostile names "
                "(case/Unicode/whitespace variants of the gate's and the pre-gate's names, unknown, empty, binary, 10 kB) x {typical arguments, another form} x "
                "connection situation {fresh, after each of 20 wrong passwords and 3 malformed AUTHs, after another connection authenticated, after PING, after refused "
                "commands} x pipeline position {alone, first, middle, last among PINGs, one write}: every reply class compared with drv_auth (Code model on the regenerated "
                "lists) and judged by its Spec verdict; after EVERY case an authenticated control connection compares DBSIZE/canaries/TTL of 4 databases, list/set/hash/zset/"
                "stream canaries, subscriber counts, connected_slaves, role, a config value, and writes a probe key that a replica or monitor would be sent; "
                "no canary byte may reach an unauthenticated connection. quick: full names x {fresh, other-authed, 3 sampled situations} x 4 positions. "
                "distinct = (name class, argument form, situation class, position, reply class, verdict) tuples")
    rep.assumptions = [
        "dispatch behind the gate is a parameter of the model (theorems hold for every dispatch that is Honest: it never promotes a connection that is neither Authenticated nor Blocked and never reassigns the password; source tie: Gen.authenticatedWriters / blockedWriters / passwordRuntimeWrites)",
        "String::from_utf8_lossy / to_uppercase / trim are parameters of the theorems; the driver's concrete normalisation is exact on the question 'equal to an ASCII name' (validated on ~150 hostile names per run)",
        "statistics counters (total_commands_processed, auth_failures) are not part of the modelled state: refused frames do increment them",
        "the server is a master (REPLICAOF is never executed); on a replica handle_sync_command fails with Err and the connection is dropped",
        "frames kept back behind a blocking command (Connection::deferred_frames) are executed later through the same frame loop, i.e. through the gate; in the model that is a later batch of the same connection, and deferral_needs_authentication shows an unauthenticated connection never has frames kept back; source tie: Gen.deferral",
        "TCP segmentation: each pipeline is sent in one write and normally processed as one batch; batch boundaries only matter for when QUIT closes the connection",
    ]
    ok, log, errs = proof_phase(rep, families=["auth"])
    build_server()
    findings = load_findings()
    try:
        c17 = C17(rep, seed)
    except (ControlAuthFailed, ServerOpen) as e:
        # nothing can be explored without a locked server and a control connection, and this IS a failure of the property
        opened = isinstance(e, ServerOpen)
        rep.violation(("C17: a server started with --requirepass answered the request of its first, unauthenticated connection (GET c17:n -> %r)" if opened else
                       "C17: the exact password does not authenticate a fresh connection of a fresh server (reply %r)") % (e.args[0],),
                      {"replay": {"case": {"tag": "first-connection-probe" if opened else "control-auth", "mode": DEFAULT_MODE, "pre": [], "other_auth": False,
                                           "target": 0, "cuts": [], "pipe": [(PROBE if opened else Req(b"AUTH", [PASSWORD])).to_json()]},
                                  "impl": [repr(e.args[0])], "spec": ["must-refuse" if opened else "auth-ok"]},
                       "family": "auth", "password": hx(PASSWORD)})
        return rep.finish()
    recs = []
    try:
        r = Rng(seed)
        sts = states(r, tier)
        reqs = requests(c17, tier)
        rep.extra["tables"] = c17.tables
        rep.extra["names_in_dispatch_table"] = len(c17.names)
        rep.extra["names_from"] = c17.names_from
        rep.extra["model_predicts"] = "nothing (Gen.unreadable is not empty: oracle-only search)" if c17.blind else "everything except names in `unknown`"
        rep.extra["deferred_frames"] = c17.deferral
        rep.extra["source_shapes_not_understood"] = c17.unreadable
        rep.extra["requests"] = len(reqs)
        rep.extra["situations"] = len(sts)
        budget = Budget(open_shapes=[f.get("match") for f in findings])
        # -- 1. only the exact password authenticates: decided first, with nothing hostile on the connection
        recs += wrong_password_family(c17, budget)
        # -- 1a. connection-state commands executed indirectly (EXEC's substitute connection id, scripts): nobody else is promoted
        if not budget.spent():
            recs += indirect_family(c17, budget)
        # -- 1c. QUIT ends the batch
        if not budget.spent():
            recs += quit_family(c17, r, tier, sts, budget)
        # -- 1b. blocking commands and the frames kept back behind them
        if not budget.spent():
            recs += blocked_family(c17, r, tier, sts, budget)
        # -- 2. every name x arguments x situation x position
        if not budget.spent():
            recs += matrix(c17, r, tier, sts, reqs, budget)
        # -- 3. every wrong password, then the right one on the same connection; commands work; QUIT closes
        if not budget.spent():
            for tag, pw in WRONG_PASSWORDS:
                rec = c17.authenticated_session([Req(b"AUTH", [pw]), PROBE])
                budget.note(rec)
                if rec["problems"]:
                    recs.append(rec)
            rec = c17.authenticated_session([])
            if rec["problems"]:
                recs.append(rec)
        if not budget.spent():
            if tier == "thorough":
                recs += random_phase(c17, r, 4000, 600)
                recs += split_phase(c17, r, 600)
            else:
                recs += random_phase(c17, r, 300, 60)
                recs += split_phase(c17, r, 60)
        # -- 5. the same server GIVEN its password in every other supported way
        if not budget.spent():
            recs += config_family(c17, r, tier, sts, reqs, budget)
        # -- 5b. a corpus of configuration files: separators, byte-order mark, quotes, escapes, ill-formed lines
        if not budget.spent():
            recs += config_corpus_family(c17, budget)
        # -- 6. … and GIVEN other password values (special characters, blanks, quotes, long, empty …) through the file and the command line
        if not budget.spent():
            recs += config_value_family(c17, r, tier, budget)
        if budget.spent():
            rep.extra["stopped_early"] = "after %d cases with oracle failures" % budget.n
        rep.traces_validated = rep.evaluations
        new, known, model = settle(c17, recs, findings)
        verdict(rep, ok, log, errs, c17, new, known, model, findings)
    finally:
        c17.close()
    return rep.finish()


class Budget:
    """the run stops early once enough cases have failed the oracle (each of them is a complete replay; going on
    would only exercise a server that is known to be open)"""

    def __init__(self, limit=25, open_shapes=()):
        self.n, self.limit, self.open_shapes = 0, limit, set(open_shapes)

    def note(self, rec):
        # failures that have the shape of an open known finding do not use up the budget: the run goes on looking for others
        if any(p["kind"] == "oracle" and p.get("finding_shape") not in self.open_shapes for p in rec["problems"]):
            self.n += 1

    def spent(self):
        return self.n >= self.limit


def tclass(rec, target):
    """reply class of the request under test ("stopped:<why>" when the case ended before the pipeline was sent)"""
    if rec.get("stopped"):
        return "stopped:" + rec["stopped"]
    if not rec["impl"] or rec["impl"][-1]["stage"] != "pipe" or not rec["impl"][-1]["classes"]:
        return "unaligned"
    return rec["impl"][-1]["classes"][target]


def wrong_password_family(c17, budget):
    """every wrong password (all proper prefixes incl. the empty string, extensions, case changes, binary, ...), as AUTH / auth,
    (a) alone in a write, followed by a benign probe in a later write; (b) in ONE write with the probe.  The AUTH must be
    answered with an error and the probe with NOAUTH.  A failure here is reported as such, with this two-command replay."""
    recs = []
    ping = Req(b"PING", [])
    variants = [(t, [pw]) for t, pw in WRONG_PASSWORDS] + [("two-args", [b"default", PASSWORD]), ("two-args-pw-first", [PASSWORD, b"x"]),
                                                           ("no-args", []), ("non-bulk", [None]), ("pw-as-second", [b"", PASSWORD])]
    for tag, args in variants:
        for name in (b"AUTH", b"auth"):
            for how, case in (("separate-writes", {"pre": [Req(name, args), PROBE], "pipe": [ping], "target": 0}),
                              ("one-write", {"pre": [], "pipe": [Req(name, args), PROBE], "target": 0}),
                              ("one-write-after-ping", {"pre": [], "pipe": [ping, Req(name, args), PROBE, ping], "target": 1})):
                case.update({"tag": "wrong-password/%s/%s/%s" % (tag, name.decode(), how), "other_auth": False})
                rec = c17.run_case(case)
                budget.note(rec)
                c17.rep.nontrivial(("wrong-password", tag, name, how, tclass(rec, case["target"]).split(" ")[0]))
                c17.rep.count("wrong-password." + how)
                if rec["problems"]:
                    recs.append(rec)
            if budget.spent():
                return recs
    return recs


def indirect_family(c17, budget):
    """state-changing connection commands through MULTI/EXEC (substitute connection id) and through scripts, by an authenticated
    connection, with the first- and second-accepted connections standing by unauthenticated"""
    recs = []
    M, E = Req(b"MULTI", []), Req(b"EXEC", [])
    auth, wrong = Req(b"AUTH", [PASSWORD]), Req(b"AUTH", [b"wrong-password"])
    sel, name = Req(b"SELECT", [b"1"]), Req(b"CLIENT", [b"SETNAME", b"intruder"])
    sub, psub, mon = Req(b"SUBSCRIBE", [CHAN]), Req(b"PSUBSCRIBE", [b"*"]), Req(b"MONITOR", [])
    script = Req(b"EVAL", [b"return {redis.pcall('AUTH', ARGV[1]), redis.pcall('SELECT', '1'), redis.pcall('CLIENT', 'SETNAME', 'intruder')}", b"0", PASSWORD])
    variants = [
        ("multi;auth;exec/separate-writes", [[M], [auth], [E]]),
        ("multi;auth;exec/one-write", [[M, auth, E]]),
        ("multi;auth-wrong;auth;exec", [[M, wrong, auth, E]]),
        ("multi;auth;select;client-setname;exec", [[M, auth, sel, name, E]]),
        ("multi;subscribe;psubscribe;monitor;exec", [[M, sub, psub, mon, E], [Req(b"UNSUBSCRIBE", []), Req(b"PUNSUBSCRIBE", [])]]),
        ("multi;auth;exec;twice", [[M, auth, E], [M, auth, auth, E]]),
        ("script:auth,select,setname", [[script]]),
        ("multi;script;exec", [[M, script, E]]),
        ("plain:auth-again;auth-wrong;select;setname", [[auth, wrong, sel, name]]),
    ]
    for tag, writes in variants:
        rec = c17.indirect_session("indirect/" + tag, writes)
        budget.note(rec)
        if rec["problems"]:
            recs.append(rec)
        if budget.spent():
            break
    return recs


def config_family(c17, r, tier, sts, reqs, budget):
    """how the password was configured is a dimension: command line (either flag, twice), configuration file (positional,
    --config, -c with other options, two lines), both (same / different: the command line wins).  A server that was GIVEN a
    password by any supported means must refuse unauthenticated requests: under each mode the first-accepted connection is
    probed before anything else, the password that must have lost is refused, then the wrong-password family, the
    indirect-execution family and a sample of the gate matrix run."""
    recs = []
    for mode in [m for m in MODES if m != DEFAULT_MODE]:
        c17.rep.count("config-mode." + mode)
        try:
            c17.start_server(mode)
        except (ServerOpen, ControlAuthFailed) as e:
            M = MODES[mode]
            opened = isinstance(e, ServerOpen)
            rec = {"case": {"tag": "config/%s/%s" % (mode, "first-connection-probe" if opened else "control-auth"), "mode": mode, "pre": [], "other_auth": False,
                            "pipe": [PROBE.to_json() if opened else Req(b"AUTH", [PASSWORD]).to_json()], "target": 0, "cuts": [],
                            "server_argv": c17.srv.argv[1:], "config_lines": M["kw"].get("config_lines")},
                   "impl": [{"stage": "pipe", "classes": [show_reply(e.args[0])]}], "code": [], "spec": [{"stage": "pipe", "verdicts": ["must-refuse" if opened else "auth-ok"]}],
                   "problems": [{"kind": "oracle", "why": (
                       "unauthenticated GET c17:n answered %s by a server GIVEN a password (mode %s: file %s, argv %s)" if opened else
                       "AUTH <password> answered %s by the server that was given it (mode %s: file %s, argv %s)") % (
                           show_reply(e.args[0]), mode, M["kw"].get("config_lines"), " ".join(c17.srv.argv[1:]))}]}
            c17.rep.evaluations += 1
            budget.n += 1
            recs.append(rec)
            continue
        c17.rep.nontrivial(("config-mode", mode, c17.model_password == hx(PASSWORD)))
        if c17.model_password != hx(PASSWORD) and not c17.blind:
            recs.append({"case": {"tag": "config/%s/model-password" % mode, "mode": mode, "pre": []}, "impl": [], "code": [], "spec": [],
                         "problems": [{"kind": "model", "why": "mode %s: the model's password in force is %s" % (mode, c17.model_password)}]})
        recs += wrong_password_family(c17, budget)
        if budget.spent():
            break
        recs += indirect_family(c17, budget)
        sample = [(l, f, q) for (l, f, q) in reqs if f == "typical" and not l.startswith("hostile:")] + \
                 [(l, f, q) for (l, f, q) in reqs if l.startswith("hostile:")][:40:2] + [(l, f, q) for (l, f, q) in reqs if l.startswith("malformed")]
        recs += matrix(c17, r, "quick", sts[:2] if tier == "quick" else sts[:2] + sts[-3:], sample, budget, fixed_situations=True)
        if budget.spent():
            break
    c17.start_server(DEFAULT_MODE)
    return recs


# ------------------------------------------------------------------------------------------ the password VALUE as a dimension
RUST_WS = "\t\n\x0b\x0c\r \x85\xa0\u1680\u2000\u2001\u2002\u2003\u2004\u2005\u2006\u2007\u2008\u2009\u200a\u2028\u2029\u202f\u205f\u3000"   # char::is_whitespace
SPECIALS = b"#;=\"' \t\\"
VALUES = [
    ("hash-inside", "Tr0ub4dor#3x"), ("hash-first", "#lead"), ("hash-after-blank", "pw #not-a-comment"), ("hash-last", "tail#"), ("semicolon", "a;b;"),
    ("equals", "k=v"), ("double-quoted", '"quoted pw"'), ("single-quoted", "'q'"), ("one-quote", 'half"quoted'), ("inner-blanks", "in ner  blanks"),
    ("inner-tab", "tab\tinside"), ("backslashes", "back\\slash\\n\\x41\\"), ("non-ascii", "p\u00e4ssw\u00f6rd-\u5bc6\u7801-\U0001f511"), ("very-long", "L0ng#" * 800),
    ("looks-like-directive", "port 1"), ("looks-like-requirepass", "requirepass other"), ("looks-like-option", "--port"), ("looks-like-conf", "x.conf"),
    ("percent-dollar", "100%$HOME~"), ("yes", "yes"), ("leading-blank", " lead"), ("trailing-blank", "trail "), ("leading-tab", "\tlead"),
    ("trailing-tab", "trail\t"), ("nbsp-edges", "\u00a0pw\u00a0"), ("empty", ""),
]


def expressible(source, value):
    """can this way of configuring the password carry the value at all?  (None = yes, else the reason — read from the code)"""
    if source == "cli":
        # cli.rs: `cli_args.password = Some(args[i + 1].clone())` — the next argv element verbatim, whatever it looks like; argv cannot carry NUL
        return "argv cannot carry a NUL byte" if "\0" in value else None
    # the file: redis.conf syntax — a plain word as it is, anything else between double quotes with escapes (conf_repr): every value that
    # is valid UTF-8 can be written (the Spec's reading is the Lean `Grammar.spec`; the driver confirms it for each line written)
    return None


def custom_mode(source, vtag, value):
    pw = value.encode("utf-8")
    if source == "cli":
        return dict(label="%s/%s" % (source, vtag), source=source, vtag=vtag, value=value, kw=dict(password=value), cli=[pw], file=[], password=pw)
    line = "requirepass " + conf_repr(value)
    return dict(label="%s/%s" % (source, vtag), source=source, vtag=vtag, value=value, kw=dict(config_lines=["# c17 value family", line]),
                cli=[], lines=[b"# c17 value family", line.encode("utf-8")], password=pw, rest=conf_repr(value).encode("utf-8"))


def conf_repr(value):
    """the value as a redis.conf argument: a plain word (no white space, quote or backslash; not empty) as it is, anything else between
    double quotes with `\\\\`, `\\"`, `\\n`, `\\r`, `\\t` and `\\xHH` for the other control characters"""
    if value and not any(ch in value for ch in "\"'\\") and not any(ch in RUST_WS or ord(ch) < 0x20 for ch in value):
        return value
    out = []
    for ch in value:
        if ch == "\\":
            out.append("\\\\")
        elif ch == '"':
            out.append('\\"')
        elif ch == "\n":
            out.append("\\n")
        elif ch == "\r":
            out.append("\\r")
        elif ch == "\t":
            out.append("\\t")
        elif ord(ch) < 0x20 or ord(ch) == 0x7f:
            out.append("\\x%02x" % ord(ch))
        else:
            out.append(ch)
    return '"' + "".join(out) + '"'


def custom_json(c):
    return {"source": c["source"], "vtag": c["vtag"], "value_hex": hx(c["value"].encode("utf-8")), "value": c["value"][:80]}


def value_variants(v):
    """wrong passwords derived from the value the server was given: proper prefixes and suffixes (all of them for short values, around every
    special character and at both ends for long ones), trimmed, unquoted, unescaped, split at every special character, case changes, extensions"""
    n = len(v)
    cuts = set(range(0, n + 1)) if n <= 24 else {0, 1, 2, 3, n - 3, n - 2, n - 1}
    for i, ch in enumerate(v):
        if ch in SPECIALS or ch >= 0x80:
            cuts |= {i, i + 1}
            if len(cuts) > 60:
                break
    out = []
    for c in sorted(cuts):
        if 0 <= c <= n:
            out += [("prefix%d" % c, v[:c]), ("suffix%d" % c, v[c:])]
    ws = b" \t\xc2\xa0"
    out += [("trimmed", v.strip()), ("trimmed-nbsp", v.strip(ws)), ("unquoted", v.strip(b"\"'")), ("unquoted-trimmed", v.strip(b"\"' \t")),
            ("no-backslashes", v.replace(b"\\", b"")), ("unescaped", v.replace(b"\\n", b"\n").replace(b"\\x41", b"A").replace(b"\\\\", b"\\")),
            ("blanks-collapsed", b" ".join(v.split())), ("no-blanks", b"".join(v.split())),
            ("lower", v.lower()), ("upper", v.upper()), ("swapcase", v.swapcase()),
            ("plus-x", v + b"x"), ("plus-blank", v + b" "), ("blank-plus", b" " + v), ("plus-hash", v + b"#"), ("plus-hash-comment", v + b" # comment"),
            ("quoted", b'"' + v + b'"'), ("single-quoted", b"'" + v + b"'"), ("doubled", v + v), ("directive-and-value", b"requirepass " + v),
            ("default-password", PASSWORD), ("nul-terminated", v + b"\x00"), ("crlf", v + b"\r\n")]
    seen, res = {v}, []
    for t, w in out:
        if w not in seen:
            seen.add(w)
            res.append((t, w))
    return res


# ------------------------------------------------------------------------------------------ a corpus of configuration files
CORPUS = [
    # (tag, lines of the file) — the hunter's lines (hunt/C17/d1, d2) and their neighbours
    ("tab-separator+quoted-password-with-blank", [b'requirepass\t"open sesame"']),
    ("tab-separator+plain-word", [b"requirepass\tsecret"]),
    ("tab-separator+plain-word+remark", [b"requirepass\tsecret # remark"]),
    ("tab-separator+two-words", [b"requirepass\tone two"]),
    ("blanks-and-tabs+quoted", [b'requirepass \t  "open sesame"  ']),
    ("uppercase-directive+tab", [b"REQUIREPASS\tsecret"]),
    ("leading-white-space+tab", [b"  \trequirepass\tsecret"]),
    ("vertical-tab-separator", [b"requirepass\x0bsecret"]),
    ("nbsp-separator", ["requirepass\u00a0secret extra".encode("utf-8")]),
    ("bom-first-line", [b"\xef\xbb\xbfrequirepass open-sesame"]),
    ("bom-first-line+tab+quoted", [b'\xef\xbb\xbfrequirepass\t"open sesame"']),
    ("bom-then-comment-then-directive", [b"\xef\xbb\xbf# saved as UTF-8 with BOM", b"requirepass open-sesame"]),
    ("after-other-directives+tab", [b"timeout 0", b'requirepass\t"open sesame"', b"tcp-keepalive 300"]),
    ("double-quoted", [b'requirepass "s3cret"']),
    ("single-quoted", [b"requirepass 's3cret'"]),
    ("double-quoted-with-blank", [b'requirepass "two words"']),
    ("single-quoted-with-blank", [b"requirepass 'two  words'"]),
    ("escapes-in-double-quotes", [b'requirepass "a\\x41\\n\\"b\\\\\\t"']),
    ("escape-in-single-quotes", [b"requirepass 'it\\'s'"]),
    ("quote-in-the-middle-of-a-word", [b'requirepass foo"bar baz"']),
    ("hash-inside-quotes", [b'requirepass "pw # not a remark"']),
    ("empty-quoted", [b'requirepass ""']),
    ("unterminated-double-quote", [b'requirepass "unterminated']),
    ("unterminated-single-quote", [b"requirepass 'unterminated"]),
    ("text-after-closing-quote", [b'requirepass "a"b']),
    ("trailing-remark", [b"requirepass secret # remark"]),
    ("two-values", [b"requirepass one two"]),
    ("no-value", [b"requirepass"]),
    ("no-value-trailing-blank", [b"requirepass "]),
    ("escape-that-is-not-utf8", [b'requirepass "\\xff\\xfe"']),
    ("second-requirepass-ill-formed", [b"requirepass first", b'requirepass "unterminated']),
    ("plain-control", [b"requirepass open-sesame"]),
]


def verbatim_rest(lines):
    """what the pinned grammar takes for the password of the last requirepass-looking line: the rest of the line after the first blank"""
    for l in reversed(lines):
        t = l.decode("utf-8").lstrip("\ufeff").strip(RUST_WS)
        if t.lower().startswith("requirepass"):
            return t[len("requirepass"):].strip(RUST_WS).encode("utf-8")
    return None


def config_corpus_case(c17, tag, lines):
    """One configuration file: what does the prescribed grammar say (driver: spec), what does the model of the tree's grammar say (code), what
    does the server do (does not start | runs OPEN | runs with which password)?  Oracle: a file with a requirepass line never yields an open
    server; when the prescribed grammar gives a password, exactly that password authenticates — or the server does not start (fail-closed)."""
    rep = c17.rep
    a = c17.ask("configlines . %s" % "|".join(hx(l) for l in lines))
    code, spec = (x.split("=")[1] for x in a.split(" "))
    rec = {"case": {"tag": "config-corpus/" + tag, "corpus": tag, "corpus_lines": [hx(l) for l in lines], "config_lines": [l.decode("utf-8") for l in lines],
                    "mode": "corpus", "pre": []}, "impl": [], "code": [{"outcome": code}], "spec": [{"outcome": spec}], "problems": []}
    cands = []
    for c in ([unhx(spec)] if spec not in ("error", "none") else []) + ([unhx(code)] if code not in ("error", "none", "unknown") else []) + \
            [x for x in [verbatim_rest(lines)] if x is not None]:
        if c not in cands:
            cands.append(c)
    srv = None
    try:
        try:
            srv = Server("c17corpus", probe=False, config_lines=[l.decode("utf-8") for l in lines])
        except InternalError as e:
            if "exited at start-up" not in str(e):
                raise
            impl = "error"
        if srv is not None:
            u = srv.client()
            r = u.cmd(*PROBE_ARGS)
            u.close()
            if not (r[0] == "e" and r[1].startswith(b"NOAUTH")):
                impl = "none"
            else:
                impl = "closed:?"
                for c in cands:
                    u = srv.client()
                    ok = u.cmd("AUTH", c) == ("s", b"OK") and u.cmd(*PROBE_ARGS)[0] != "e"
                    u.close()
                    if ok:
                        impl = hx(c)
                        break
    finally:
        if srv is not None:
            srv.stop()
    rec["impl"] = [{"outcome": impl, "argv": "ferrous <file> --port P --dir D"}]
    rep.evaluations += 1
    rep.count("config-corpus.spec-%s.impl-%s" % ("password" if spec not in ("error", "none") else spec, "password" if impl not in ("error", "none", "closed:?") else impl))
    rep.nontrivial(("config-corpus", tag, spec not in ("error", "none"), impl if impl in ("error", "none") else ("spec-pw" if impl == spec else "other-pw")))
    text = " | ".join(repr(l.decode("utf-8")) for l in lines)
    raw = b"\n".join(lines)
    cut_shape = b"\xef\xbb\xbf" in raw or any(re.match(rb"^\s*(\xef\xbb\xbf)?\s*requirepass[\t\x0b\x0c\xc2]", l, re.I) for l in lines)
    if impl == "none" and spec != "none":
        rec["problems"].append({"kind": "oracle", "finding_shape": "config-directive-cut" if cut_shape else None,
                                "why": "a server started with a configuration file that has a requirepass line runs OPEN (unauthenticated GET c17:n answered): %s" % text})
    elif spec not in ("error", "none") and impl not in ("error", spec):
        vb = verbatim_rest(lines)
        quotes = vb is not None and impl == hx(vb) and any(ch in vb for ch in b"\"'\\")
        rec["problems"].append({"kind": "oracle", "finding_shape": "config-quotes-literal" if quotes else None,
                                "why": "the password of the configuration file (%r by redis.conf syntax) is refused; %s: %s" % (
                                    unhx(spec).decode("latin-1"), ("AUTH %r authenticates instead" % unhx(impl).decode("latin-1")) if impl != "closed:?" else
                                    "the server runs with some other password", text)})
    elif spec not in ("error", "none") and impl == "error":
        rep.count("config-corpus.fail-closed-although-well-formed")
    elif spec == "error" and impl not in ("error", "none"):
        rep.count("config-corpus.runs-closed-although-ill-formed")
    if code != "unknown" and code != impl and not (code not in ("error", "none") and impl == "closed:?"):
        rec["problems"].append({"kind": "model", "why": "configuration file %s: the model of the tree's grammar says %s, the server: %s" % (text, code, impl)})
    return rec


def config_corpus_family(c17, budget):
    recs = []
    for tag, lines in CORPUS:
        rec = config_corpus_case(c17, tag, lines)
        budget.note(rec)
        if rec["problems"]:
            recs.append(rec)
    return recs


def config_value_family(c17, r, tier, budget):
    """the password VALUE is a dimension of how the server is configured.  For each value (with `#`, `;`, `=`, quotes, blanks and tabs inside or
    at the ends, backslashes, non-ASCII, 4 kB, looking like a directive / an option / a file name, empty) x {configuration file, command line}: what the
    server was GIVEN is the value written into the file / argv (when that source can express it — otherwise the value is skipped with the
    reason, read from the parser's code, in the evidence); then exactly that value authenticates (the control connection), an unauthenticated
    connection is refused (the first-accepted one, before anything else), and every variant is refused as `AUTH variant; GET c17:n` in one write."""
    recs = []
    skipped = []
    for vtag, value in VALUES:
        for source in ("file", "cli"):
            why = expressible(source, value)
            if why:
                skipped.append("%s/%s (%r): %s" % (source, vtag, value[:20], why))
                c17.rep.count("config-value.not-expressible.%s" % source)
                continue
            cm = custom_mode(source, vtag, value)
            c17.rep.count("config-value.%s" % source)
            pw = cm["password"]
            variants = value_variants(pw)
            try:
                c17.start_server(custom=cm)
            except (ServerOpen, ControlAuthFailed, InternalError) as e:
                if isinstance(e, InternalError) and "server" not in str(e):
                    raise
                kind = "open" if isinstance(e, ServerOpen) else "exact-refused" if isinstance(e, ControlAuthFailed) else "does-not-start"
                got = show_reply(e.args[0]) if kind != "does-not-start" else str(e)[-200:]
                rec = {"case": {"tag": "config-value/%s/%s/%s" % (source, vtag, kind), "mode": "custom:" + cm["label"], "custom": custom_json(cm), "pre": [], "other_auth": False,
                                "pipe": [(PROBE if kind == "open" else Req(b"AUTH", [pw])).to_json()], "target": 0, "cuts": [],
                                "server_argv": c17.srv.argv[1:] if c17.srv else None, "config_lines": cm["kw"].get("config_lines")},
                       "impl": [{"stage": "pipe", "classes": [got]}], "code": [], "spec": [{"stage": "pipe", "verdicts": ["must-refuse" if kind == "open" else "auth-ok"]}],
                       "problems": [{"kind": "oracle" if kind != "does-not-start" else "model", "why": {
                           "open": "unauthenticated GET c17:n answered %s by a server given the password %r through its %s",
                           "exact-refused": "AUTH with exactly the password the server was given answered %s (password %r, given through its %s)",
                           "does-not-start": "the server does not start (%s) with password %r given through its %s, which the grammar should express"}[kind] % (
                               got, value[:60], "configuration file" if source == "file" else "command line")}]}
                if kind == "exact-refused":
                    # which password IS in force then?  (no control connection: plain connections, AUTH variant then the benign probe)
                    rest = cm.get("rest")
                    for t, w in ([("the text of the line as written (quotes and escapes included)", rest)] if rest and rest != pw else []) + variants:
                        try:
                            u = c17.srv.client()
                            a, g = u.cmd("AUTH", w), u.cmd(*PROBE_ARGS)
                            u.close()
                        except (OSError, Closed, ProtocolError):
                            continue
                        if a == ("s", b"OK") or g[0] != "e":
                            rec["case"]["tag"] = "config-value/%s/%s/%s-authenticates" % (source, vtag, t.split(" ")[0])
                            if rest and w == rest and rest != pw and any(ch in rest for ch in b"\"'\\"):
                                # the quotes / escapes of the redis.conf argument stayed in the password
                                for pp in rec["problems"]:
                                    pp["finding_shape"] = "config-quotes-literal"
                            rec["problems"].insert(0, {"kind": "oracle", "finding_shape": rec["problems"][0].get("finding_shape"), "why": "a wrong password authenticated: AUTH %r (%s of the password %r given through the %s): AUTH -> %s, GET c17:n -> %s" % (
                                w[:60].decode("latin-1"), t, value[:60], "configuration file" if source == "file" else "command line", show_reply(a), show_reply(g)[:40])})
                            rec["case"]["pipe"] = [Req(b"AUTH", [w]).to_json(), PROBE.to_json()]
                            break
                c17.rep.evaluations += 1
                budget.note(rec)
                recs.append(rec)
                if budget.spent():
                    break
                continue
            c17.rep.nontrivial(("config-value", source, vtag, c17.model_password == hx(pw)))
            if c17.model_password not in (hx(pw), "unknown") and not c17.blind:
                recs.append({"case": {"tag": "config-value/%s/%s/model" % (source, vtag), "mode": c17.mode, "pre": []}, "impl": [], "code": [], "spec": [],
                             "problems": [{"kind": "model", "why": "the model's password in force is %s, given %s" % (c17.model_password, hx(pw))}]})
            if tier == "quick" and len(variants) > 36:
                keep = [x for x in variants if not x[0].startswith(("prefix", "suffix"))]
                ps = [x for x in variants if x[0].startswith(("prefix", "suffix"))]
                variants = keep + [ps[i] for i in sorted(set(r.below(len(ps)) for _ in range(16)))]
            for i, (t, w) in enumerate(variants):
                case = {"tag": "config-value/%s/%s/%s" % (source, vtag, t), "other_auth": False, "target": 0}
                if i % 3 == 2:
                    case.update({"pre": [Req(b"AUTH", [w]), PROBE], "pipe": [Req(b"PING", [])]})
                else:
                    case.update({"pre": [], "pipe": [Req(b"auth" if i % 3 else b"AUTH", [w]), PROBE]})
                rec = c17.run_case(case)
                budget.note(rec)
                c17.rep.nontrivial(("config-value-variant", source, vtag, t.rstrip("0123456789"), tclass(rec, 0).split(" ")[0]))
                c17.rep.count("config-value.variants")
                if rec["problems"]:
                    recs.append(rec)
                if budget.spent():
                    break
        if budget.spent():
            break
    c17.rep.extra["config_values_not_expressible"] = skipped
    c17.start_server(DEFAULT_MODE)
    return recs


def quit_family(c17, r, tier, sts, budget):
    """QUIT ends the batch: nothing behind it in the same write is executed or answered — before authentication (an AUTH parked
    behind QUIT must not run either), after it, and for every spelling the frame loop takes for QUIT; a name with blanks around it
    is not QUIT.  The dataset, the replica table and the bystanders are looked at after every case as always."""
    recs = []
    get, ping, sync = Req(b"GET", [canary_key(0)]), Req(b"PING", []), Req(b"SYNC", [])
    auth, ghost, flush = Req(b"AUTH", [PASSWORD]), Req(b"SET", [b"c17:ghost", b"1"]), Req(b"FLUSHALL", [])
    pipes = []
    for qn in (b"QUIT", b"quit", "QU\u0131T".encode()):
        q = Req(qn, [])
        pipes += [("quit;auth;set-ghost;get", [q, auth, ghost, get], 1), ("ping;quit;sync;psync", [ping, q, sync, Req(b"PSYNC", [b"?", b"-1"])], 2),
                  ("auth-wrong;quit;auth;flushall", [Req(b"AUTH", [b"wrong-password"]), q, auth, flush], 2),
                  ("quit;quit;subscribe;monitor", [q, q, Req(b"SUBSCRIBE", [CHAN]), Req(b"MONITOR", [])], 2),
                  # authenticated in the same write, then QUIT: what follows would be allowed — and still must not run
                  ("auth;set-probe;quit;set-ghost;flushall", [auth, Req(b"SET", [b"c17:probe", b"q"]), q, ghost, flush], 3)]
    for qn in (b" QUIT", b"QUIT ", b"\tquit"):
        q = Req(qn, [])
        pipes += [("blank-quit;get;ping", [q, get, ping], 0)]
    use = sts[:2] + ([sts[2 + r.below(len(sts) - 2)] for _ in range(2)] if tier == "quick" else sts[2:])
    for st_tag, pre, other in use:
        for tag, pipe, target in pipes:
            rec = c17.run_case({"tag": "quit/%s/%s/%s" % (tag, pipe[[x.name.strip().upper() for x in pipe].index(b"QUIT") if b"QUIT" in [x.name.strip().upper() for x in pipe] else 0].name.decode("latin-1"), st_tag),
                                "pre": pre, "other_auth": other, "pipe": pipe, "target": target})
            budget.note(rec)
            c17.rep.nontrivial(("quit", tag, st_tag.split(":")[0], tclass(rec, target).split(" ")[0], rec["code"][-1]["state_after"] if rec["code"] else "?"))
            c17.rep.count("quit-family")
            if rec["problems"]:
                recs.append(rec)
            if budget.spent():
                return recs
    return recs


def blocked_family(c17, r, tier, sts, budget):
    """frames kept back behind a blocking command (`Connection::deferred_frames`): (a) an unauthenticated connection cannot
    block, so `BLPOP k 0; GET canary` is two refusals at once and nothing is parked — in every situation; (b) an
    authenticated connection that blocks with frames behind it, next to an unauthenticated one."""
    recs = []
    q = b"c17:q"
    get, ping = Req(b"GET", [canary_key(0)]), Req(b"PING", [])
    pipes = [("blpop0;get", [Req(b"BLPOP", [q, b"0"]), get], 1), ("brpop0;sync;ping", [Req(b"BRPOP", [q, b"0"]), Req(b"SYNC", []), ping], 1),
             ("auth-wrong;blpop0;get;ping", [Req(b"AUTH", [b"wrong-password"]), Req(b"blpop", [q, b"0"]), get, ping], 2),
             ("blpop0;blpop0;psync", [Req(b"BLPOP", [q, b"0"]), Req(b"BLPOP", [canary_key(0), b"0"]), Req(b"PSYNC", [b"?", b"-1"])], 2),
             ("blpop-nonempty;get", [Req(b"BLPOP", [b"c17:list", b"0"]), get], 0), ("blpop0;subscribe;monitor", [Req(b"BLPOP", [q, b"0.01"]), Req(b"SUBSCRIBE", [CHAN]), Req(b"MONITOR", [])], 1)]
    use = sts if tier == "thorough" else sts[:2] + [sts[2 + r.below(len(sts) - 2)] for _ in range(4)]
    for st_tag, pre, other in use:
        for tag, pipe, target in pipes:
            rec = c17.run_case({"tag": "deferred/%s/%s" % (tag, st_tag), "pre": pre, "other_auth": other, "pipe": pipe, "target": target})
            budget.note(rec)
            c17.rep.nontrivial(("deferred", tag, st_tag.split(":")[0], tclass(rec, target).split(" ")[0]))
            c17.rep.count("deferred.unauthenticated-pipeline-with-blocking-command")
            if rec["problems"]:
                recs.append(rec)
            if budget.spent():
                return recs
    for cmd, t in ((b"BLPOP", b"0"), (b"BRPOP", b"0"), (b"BLPOP", b"0.3")) + (((b"blpop", b"0"),) * 20 if tier == "thorough" else ()):
        for rec in c17.blocked_session(cmd, t, "blocked-session/%s/%s" % (cmd.decode(), t.decode())):
            budget.note(rec)
            recs.append(rec)
    return recs


def matrix(c17, r, tier, sts, reqs, budget, fixed_situations=False):
    rep = c17.rep
    recs = []
    special = REPLICATION_LIKE | set(c17.pre_gate) | set(c17.guarded) | set(c17.unknown)
    for label, form, q in reqs:
        if tier == "thorough" or fixed_situations:
            use = sts
        else:
            use = sts[:2] + [sts[2 + r.below(len(sts) - 2)] for _ in range(3)]
        # positions: among PINGs always; in one write with failed AUTHs / doubled — for every replication-like name (and every
        # spelling that the connection loop normalises to one) in all sampled situations, for the other names one sampled
        # combination in quick, all of them on fresh connections in thorough
        ext = positions_ext(q)
        repl = q.kind == "cmd" and unhx(c17.ask("norm " + hx(q.name)).split(" ")[0]) in special
        plan = []
        for i, (st_tag, pre, other) in enumerate(use):
            ps = list(positions(q))
            if fixed_situations:
                # a sample under another way of configuring the password: alone; replication-like names also in one write with failed AUTHs
                ps = ps[:1] + (ext if repl and i == 0 else [])
            elif repl and (tier == "quick" or i < 2 or i % 4 == 2):
                ps += ext
            elif not repl and i < 2 and tier == "thorough":
                ps += ext
            elif not repl and i == 0:
                ps.append(ext[r.below(len(ext))])
            plan.append((st_tag, pre, other, ps))
        for st_tag, pre, other, ps in plan:
            for pos_tag, pipe, target in ps:
                rec = c17.run_case({"tag": "%s/%s/%s/%s" % (label, form, st_tag, pos_tag), "pre": pre, "other_auth": other, "pipe": pipe, "target": target})
                budget.note(rec)
                a = tclass(rec, target)
                v = rec["spec"][-1]["verdicts"][target] if rec["spec"] and rec["spec"][-1]["stage"] == "pipe" else "?"
                ncls = label if label in c17.names or label.startswith("malformed") else "hostile:" + c17.ask("classify " + hx(q.name)) + ":" + hx(q.name[:6])
                rep.nontrivial((ncls, form, st_tag.split(":")[0], pos_tag, a.split(" ")[0], v))
                rep.count("verdict." + v)
                rep.count("situation." + st_tag.split(":")[0])
                rep.count("position." + ("among-pings" if ";" not in pos_tag else "same-write-as-failed-auth-or-doubled"))
                if rec["problems"]:
                    recs.append(rec)
                if len(rep.samples) < 4 and pos_tag in ("middle", "auth-wrong;T;ping") and not rec.get("stopped"):
                    rep.sample({"case": rec["case"]["tag"], "impl": rec["impl"][-1]["classes"], "code": rec["code"][-1]["classes"], "spec": rec["spec"][-1]["verdicts"]})
                if budget.spent():
                    return recs
    return recs


def split_phase(c17, r, n):
    """the same pipelines cut into several TCP writes at arbitrary byte offsets (frames split across reads)"""
    recs = []
    names = [b"GET", b"SYNC", b"PSYNC", b"sync", b"SUBSCRIBE", b"MONITOR", b"REPLCONF", b"EVAL", b"MULTI", b"FLUSHALL", b"AUTH", b"\xc5\xbfync"]    # not QUIT: when it closes depends on the read boundaries
    for i in range(n):
        nb = r.choice(names)
        q = Req(nb, typical_args(nb.decode("latin-1").upper(), c17.seed))
        pos_tag, pipe, target = r.choice(positions(q))
        total = sum(len(x.wire()) for x in pipe)
        cuts = sorted(set(r.range(1, total - 1) for _ in range(r.range(1, 3))))
        rec = c17.run_case({"tag": "split/%s/%s/%s" % (nb.decode("latin-1"), pos_tag, cuts), "pre": [], "other_auth": False, "pipe": pipe, "target": target, "cuts": cuts})
        a = tclass(rec, target)
        c17.rep.nontrivial(("split", nb, pos_tag, len(cuts), a.split(" ")[0]))
        if rec["problems"]:
            recs.append(rec)
    return recs


def random_phase(c17, r, n_names, n_pw):
    """random byte-string names (the gate's quantifier is over all of them) and random wrong passwords near the right one"""
    recs = []
    alphabet = [b"S", b"Y", b"N", b"C", b"P", b"s", b"y", b"n", b"c", b"p", b" ", b"\t", b"\x00", b"\xff", b"\xc5\xbf", b"\xc4\xb1", b"\xc2\xa0", b"A", b"U", b"T", b"H",
                b"I", b"G", b"Q", b"a", b"u", b"t", b"h", b"i", b"g", b"q", b"\xc2\x85", b"\xe2\x80\xa8", b"\xc3\x9f", b"\r", b"\n"]
    for i in range(n_names):
        name = b"".join(r.choice(alphabet) for _ in range(r.range(0, 6)))
        q = Req(name, r.choice([[], [b"?", b"-1"], [canary_key(0)], [PASSWORD]]))
        pos_tag, pipe, target = r.choice(positions(q))
        rec = c17.run_case({"tag": "random-name/%s/%s" % (hx(name), pos_tag), "pre": [], "other_auth": r.chance(1, 4), "pipe": pipe, "target": target})
        a = tclass(rec, target)
        c17.rep.nontrivial(("random-name", c17.ask("classify " + hx(name)), a.split(" ")[0], pos_tag))
        if rec["problems"]:
            recs.append(rec)
    for i in range(n_pw):
        pw = bytearray(PASSWORD)
        k = r.below(5)
        if k == 0 and pw:
            del pw[r.below(len(pw))]
        elif k == 1:
            pw.insert(r.below(len(pw) + 1), r.below(256))
        elif k == 2:
            pw[r.below(len(pw))] ^= 1 << r.below(8)
        elif k == 3:
            pw = pw[:r.below(len(pw) + 1)]
        else:
            pw = bytearray(r.bytes(r.range(0, 12)))
        if bytes(pw) == PASSWORD:
            continue
        q = Req(r.choice([b"AUTH", b"auth", b"Auth "]), [bytes(pw)])
        rec = c17.run_case({"tag": "random-password/%s" % hx(bytes(pw)), "pre": [], "other_auth": False, "pipe": [q, PROBE], "target": 0})
        c17.rep.nontrivial(("random-password", k, tclass(rec, 0).split(" ")[0]))
        if rec["problems"]:
            recs.append(rec)
    return recs


def minimise(c17, rec, p):
    """smallest case that still shows the problem: drop the pre-steps, the other connection, the pipeline neighbours"""
    case = rec["case"]
    if "pipe" not in case:
        return rec
    pipe = [Req.from_json(o) for o in case["pipe"]]
    pre = [Req.from_json(o) for o in case["pre"]]
    cands = []
    if p.get("stage") == "pipe" and "index" in p:
        cands.append({"tag": case["tag"] + "/min", "pre": [], "other_auth": False, "pipe": [pipe[p["index"]]], "target": 0})
        cands.append({"tag": case["tag"] + "/min-pre", "pre": pre, "other_auth": case["other_auth"], "pipe": [pipe[p["index"]]], "target": 0})
    cands.append({"tag": case["tag"] + "/min-nopre", "pre": [], "other_auth": False, "pipe": pipe, "target": case["target"]})
    for c in cands:
        try:
            r2 = c17.run_case(c)
        except (InternalError, OSError):
            continue
        if any(q["kind"] == p["kind"] and q["why"].split(":")[0] == p["why"].split(":")[0] for q in r2["problems"]):
            return r2
    return rec


def verdict(rep, ok, log, errs, c17, new, known, model, findings):
    for fid, (f, rec, p) in known.items():
        rep.known(fid, f["what"])
        rep.sample({"known_finding": fid, "case": rec["case"]["tag"], "why": p["why"], "impl": rec["impl"][-1]})
    # the static face of the same finding: names handled before the gate without an authentication test
    static_known = [f for f in findings if f.get("match") == "pregate-name"]
    if c17.pre_gate and not set(c17.pre_gate) <= {b"SYNC", b"PSYNC"}:
        new.append(({"case": {"tag": "static: Gen.preGate"}, "impl": [], "code": [], "spec": []},
                    {"kind": "oracle", "why": "names handled before the authentication gate outside the known finding: %s" % [n.decode() for n in c17.pre_gate]}))
    for f in findings:
        if f["id"] not in known and not rep.extra.get("stopped_early"):
            # (a run that stopped early after enough failures has not been everywhere: nothing is said about findings it did not reach)
            if f.get("match") == "pregate-name" and not c17.pre_gate:
                why = "known finding %s no longer reproduces and Gen.preGate is empty (guarded: %s): the fix is in the tree — move the finding to `fixed`" % (
                    f["id"], [n.decode() for n in c17.guarded])
            else:
                why = "known finding %s no longer reproduces: model/known-findings file is stale" % f["id"]
            rep.violation(why, {"finding": f, "obligation": f.get("lean_witness"), "tables": c17.tables}, no_input=True)
    if c17.pre_gate and not static_known:
        pass    # reported dynamically below (the SYNC cases fail the oracle)
    if new:
        new.sort(key=lambda rp: len(json.dumps(rp[0]["case"])))
        rec, p = new[0]
        try:
            rec = minimise(c17, rec, p)
        except Exception:
            pass
        rep.violation("C17: %s (%s)" % (p["why"][:160], rec["case"]["tag"][:80]),
                      {"replay": rec, "family": "auth", "problem": p, "password": hx(PASSWORD),
                       "more": [{"case": r["case"]["tag"], "why": q["why"][:200]} for r, q in new[1:8]], "lean_errors": errs[:5]})
    elif not ok:
        rep.violation("proof obligations of C17 no longer check against the regenerated tables",
                      {"theorem_errors": errs[:10], "log_tail": log[-3000:], "tables": c17.tables, "source_shapes_not_understood": c17.unreadable,
                       "searched": "TCP run with the Spec as oracle: %d cases, model predictions %s" % (
                           rep.evaluations, "none" if c17.blind else "all but `unknown` names")}, no_input=True)
    else:
        real = [(r, p) for r, p in model if not any(known_match(c17, q, r, findings) for q in r["problems"] if q["kind"] == "oracle")]
        if real:
            rep.violation("correspondence Auth.Code.processConnectionFrame vs server broke (%d disagreements) although the property's oracle holds" % len(real),
                          {"correspondence": "Ferrous.Auth.Code.processConnectionFrame (Gen tables) vs ferrous --requirepass over TCP",
                           "disagreements": [{"case": r["case"], "problem": p, "impl": r["impl"], "code": r["code"]} for r, p in real[:6]]}, no_input=True)
    rep.extra["model_disagreements"] = len(model)
    rep.extra["oracle_failures"] = len(new) + sum(1 for _ in known)


def replay(path):
    """Re-execute a replay file against the server built from the current tree; exit 1 iff the oracle still fails."""
    obj = json.load(open(path))
    rp = obj.get("replay") or obj
    rep = Report(PID, "replay", obj.get("seed", 0))
    run_translator()
    build_driver("auth")
    build_server()
    case = rp["case"]
    if case.get("corpus_lines"):
        c17 = C17(rep, obj.get("seed", 0), tag="c17replay")
        try:
            rec = config_corpus_case(c17, case["corpus"], [unhx(x) for x in case["corpus_lines"]])
        finally:
            c17.close()
        print("case  :", case["tag"]); print("  file:", case.get("config_lines"))
        print("impl  :", json.dumps(rec["impl"])); print("code  :", json.dumps(rec["code"])); print("spec  :", json.dumps(rec["spec"]))
        for p in rec["problems"]:
            print("  %s: %s" % (p["kind"], p["why"]))
        bad = [p for p in rec["problems"] if p["kind"] == "oracle"]
        print("REPLAY %s" % ("still fails" if bad else "passes"))
        return 1 if bad else 0
    try:
        cj = case.get("custom")
        if cj:
            c17 = C17(rep, obj.get("seed", 0), tag="c17replay", custom=custom_mode(cj["source"], cj["vtag"], unhx(cj["value_hex"]).decode("utf-8")))
        else:
            c17 = C17(rep, obj.get("seed", 0), tag="c17replay", mode=case.get("mode", DEFAULT_MODE))
    except (ServerOpen, ControlAuthFailed) as e:
        print("case  :", case["tag"], "(mode %s)" % case.get("mode", DEFAULT_MODE))
        print("  oracle: %s: %r" % ("the server answered its first, unauthenticated connection" if isinstance(e, ServerOpen) else
                                    "the password given to the server does not authenticate", e.args[0]))
        print("REPLAY still fails")
        return 1
    try:
        if case.get("session") == "indirect":
            rec = c17.indirect_session(case["tag"], [[Req.from_json(o) for o in w] for w in case["writes"]])
            rec.setdefault("spec", [])
        elif "pipe" not in case:
            rec = c17.authenticated_session([Req.from_json(o) for o in case.get("pre", [])])
        else:
            rec = c17.run_case({"tag": case["tag"], "pre": [Req.from_json(o) for o in case["pre"]], "other_auth": case.get("other_auth", False),
                                "pipe": [Req.from_json(o) for o in case["pipe"]], "target": case.get("target", 0), "cuts": case.get("cuts", [])})
        print("case  :", case["tag"])
        for o in case.get("pipe", []):
            print("  send:", o["text"])
        print("impl  :", json.dumps(rec["impl"]))
        print("code  :", json.dumps(rec["code"]))
        print("spec  :", json.dumps(rec.get("spec")))
        for p in rec["problems"]:
            print("  %s: %s" % (p["kind"], p["why"]))
        bad = [p for p in rec["problems"] if p["kind"] == "oracle"]
        print("REPLAY %s" % ("still fails" if bad else "passes"))
        return 1 if bad else 0
    finally:
        c17.close()
