"""C15 — streams: IDs strictly increase; XRANGE / XREVRANGE / XREAD are exact filters in ID order
honouring COUNT; XLEN counts the present entries; entries keep their fields.

Deciding artefact: lean/FerrousSpec/Props/C15.lean (history invariant of XADD/XDEL/XTRIM for every
clock behaviour, `range = filter` for every sorted list and all bounds/COUNT, XDEL/XTRIM as filters,
XLEN, field preservation, the ID text reader, the halving search against its contract).

This module ties `Ferrous.Stream.Code.*` / `Ferrous.Stream.Cmd.*` to the real
`ferrous::storage::stream::Stream` and to the real `handle_x*` handlers over a `StorageEngine`
(both in-process, harness/src/bin/impl_stream.rs), and evaluates the property's oracle
(`Ferrous.Stream.Spec.*`, executed by the Lean driver next to the Code model) on the implementation.

Histories are lists of *templates*: IDs are written relative to the entries present when the
operation runs (`p:i:dms:dseq`, `top:dms:dseq`, `now:dms:seq`, `abs:ms:seq`, `min`, `max`), so that one
PRNG state fixes a history although auto-generated IDs depend on the wall clock, and so that a
failing history can be shrunk and replayed.  Auto IDs are a checked relation: the implementation's
ID is handed to the model, whose `nextAuto` must reproduce it from the clock reading `id.ms`, and to
the oracle, which accepts it iff it exceeds every ID ever added.
"""
from common import *

PENDING_FINDINGS = os.path.join(VERIF, "pending_repo_patches", "C15_findings.json")
U64 = (1 << 64) - 1
STREAM_RS = os.path.join(REPO, "src", "storage", "stream.rs")
FAULT = os.environ.get("C15_FAULT", "")      # test-only: corrupt the implementation's answers to exercise the oracle path


# ------------------------------------------------------------------ source switches (local mini-translator)
def _strip_comments(s):
    s = re.sub(r"//[^\n]*", "", s)
    return re.sub(r"/\*.*?\*/", "", s, flags=re.S)


def source_quirks():
    """Which of the three repairs does /repo's stream.rs contain?  (rangeEndFix, seqCarry, parseChecked),
    each True/False, or None when the site is not recognised (then the pinned behaviour is assumed and
    the correspondence run decides)."""
    try:
        src = _strip_comments(open(STREAM_RS, encoding="utf-8", errors="replace").read())
    except OSError as e:
        raise InternalError("cannot read %s: %s" % (STREAM_RS, e))
    flat = re.sub(r"\s+", " ", src)
    # 1. the end-bound fallback of StreamData::range
    if re.search(r"if idx > 0 \{ idx - 1 \} else \{ 0 \}", flat):
        rng = False
    elif re.search(r"Err\(0\) => return StreamRangeResult", flat):
        rng = True
    else:
        rng = None
    # 2. the sequence increment of generate_next_atomic (+ the engine's refusal at the top of the ID space)
    try:
        eng = re.sub(r"\s+", " ", _strip_comments(open(os.path.join(REPO, "src", "storage", "engine.rs"), encoding="utf-8", errors="replace").read()))
    except OSError:
        eng = ""
    if re.search(r"last_seq\.load\(Ordering::Relaxed\)\.checked_add\(1\)", flat) and re.search(r"prev_millis\.checked_add\(1\)", flat) \
            and re.search(r"last_id\(\) == StreamId::max\(\)", eng):
        carry = True
    elif re.search(r"StreamId::new\(prev_millis, seq \+ 1\)", flat):
        carry = False
    else:
        carry = None
    # 3. parse_u64_fast
    if re.search(r"wrapping_mul\(10\)\.wrapping_add", flat):
        chk = False
    elif re.search(r"checked_mul\(10\)", flat):
        chk = True
    else:
        chk = None
    def flat_of(rel):
        try:
            return re.sub(r"\s+", " ", _strip_comments(open(os.path.join(REPO, "src", rel), encoding="utf-8", errors="replace").read()))
        except OSError:
            return ""
    rdb = flat_of("storage/rdb.rs")
    hnd = flat_of("storage/commands/streams.rs")
    # 4. does the dump carry the stream's last ID (writer) and does the loader restore it?
    if re.search(r"const STREAM_LAST_ID", rdb) and re.search(r"xrestore_last_id\(", rdb) and re.search(r"fn raise_last_id", flat):
        persist = True
    elif "__FERROUS_STREAM_MARKER__" in rdb:
        persist = False
    else:
        persist = None
    # 5. an entry's pairs: a list in the order given, or a map
    if re.search(r"pub struct FieldPairs\(Vec<\(Vec<u8>, Vec<u8>\)>\)", flat) and re.search(r"fields\.push\(\(field, value\)\)", hnd):
        pairs = True
    elif re.search(r"pub fields: HashMap<Vec<u8>, Vec<u8>>", flat):
        pairs = False
    else:
        pairs = None
    # 6. XREAD COUNT 0
    if re.search(r"Ok\(n\) => count = if n == 0 \{ None \} else \{ Some\(n\) \}", hnd):
        c0 = True
    elif re.search(r"Ok\(n\) => count = Some\(n\)", hnd):
        c0 = False
    else:
        c0 = None
    # 7. incomplete IDs and exclusive bounds
    if re.search(r"fn parse_range_bound", flat) and re.search(r"parse_range_bound\(&start_str, true\)", hnd) and re.search(r"from_string_with_seq\(", hnd):
        inc = True
    elif re.search(r"StreamId::from_string\(&start_str\)", hnd):
        inc = False
    else:
        inc = None
    return rng, carry, chk, persist, pairs, c0, inc


SWITCH_NAMES = ["rangeEndFix", "seqCarry", "parseChecked", "persistLastId", "fieldsList", "readCountZeroAll", "idIncomplete"]


def load_findings():
    fs = [f for f in load_known_findings().get("open", []) if isinstance(f, dict) and f.get("property") == "C15"]
    if os.path.exists(PENDING_FINDINGS):
        try:
            for f in json.load(open(PENDING_FINDINGS)):
                if f.get("property") == "C15" and f["id"] not in [g["id"] for g in fs]:
                    fs.append(f)
        except (ValueError, KeyError) as e:
            raise InternalError("unreadable %s: %s" % (PENDING_FINDINGS, e))
    return fs


# ------------------------------------------------------------------ small helpers
def clamp(x):
    return 0 if x < 0 else U64 if x > U64 else x


def parse_entries(s):
    """`ms-seq:k=v,…;…` -> [((ms, seq), fields-text)]"""
    if s == "." or s == "":
        return []
    out = []
    for e in s.split(";"):
        idt, _, f = e.partition(":")
        a, _, b = idt.partition("-")
        out.append(((int(a), int(b)), f))
    return out


def fields_text(pairs):
    """canonical field map (last value wins, sorted by name) in transport form"""
    d = {}
    for k, v in pairs:
        d[k] = v
    if not d:
        return "."
    return ",".join("%s=%s" % (hx(k), hx(d[k])) for k in sorted(d))


def _namekey(h):
    return b"" if h == "-" else bytes.fromhex(h)


def canon_fields(f):
    """`k=v,k=v` as the map it collapses to: last value per name, sorted by name"""
    d = {}
    for kv in f.split(",") if f else []:
        k, _, v = kv.partition("=")
        d[k] = v
    return ",".join("%s=%s" % (k, d[k]) for k in sorted(d, key=_namekey))


def canon_entries(e):
    if e in (".", ""):
        return e
    out = []
    for x in e.split(";"):
        idt, _, f = x.partition(":")
        out.append(idt + ":" + canon_fields(f))
    return ";".join(out)


def canon_reply(a):
    """an `ents …` / `streams …` reply with every entry's pairs as a sorted map"""
    if a.startswith("ents "):
        return "ents " + canon_entries(a[5:])
    if a.startswith("streams ") and a != "streams .":
        return "streams " + "/".join(k + ">" + canon_entries(e) for k, _, e in (x.partition(">") for x in a[8:].split("/")))
    return a


FIELD_NAMES = [b"f", b"g", b"", b"\xff\x00", b"field-with-a-longer-name"]
FIELD_VALUES = [b"v", b"", b"1", b"\r\n", b"x" * 70, b"\x00\xff"]


def gen_fields(r):
    n = r.choice([0, 1, 1, 1, 2, 3])
    return [(r.choice(FIELD_NAMES), r.choice(FIELD_VALUES)) for _ in range(n)]


def id_text(i):
    return "%d-%d" % i


MUTATING = ("addid", "auto", "del", "trimc", "trimmin")


def ser_tmpl(t):
    """template -> JSON-able list (field names/values as hex)"""
    if t is None:
        return None
    t = list(t)
    if t[0] == "addid":
        t[2] = [[hx(k), hx(v)] for k, v in t[2]]
    elif t[0] == "auto":
        t[1] = [[hx(k), hx(v)] for k, v in t[1]]
    return t


class Fail(Exception):
    """raised inside a history when it cannot continue (state of impl and model diverged)"""


# ------------------------------------------------------------------ execution of one operation on both sides
class Exec:
    def __init__(self, rep, quirks):
        self.rep = rep
        self.impl = impl_driver("stream")
        self.model = lean_driver("stream")
        q = [False if x is None else x for x in quirks]
        self.q = q
        ans = self.model.ask("cfg " + " ".join(str(int(x)) for x in q))
        if ans != "ok":
            raise InternalError("Lean driver refused cfg: %r" % ans)
        self.oracle_failures = []     # (kind, detail)
        self.disagreements = []
        self.bracket_miss = 0
        self.trace = []               # raw lines of the current history (for replays)
        self.present = []             # [(ms, seq)] of the stream object, from the last dump
        self.top = (0, 0)
        self.length = 0
        self.keys = {}                # command level: key -> (present ids, top)

    def close(self):
        self.impl.close()
        self.model.close()

    # -- plumbing ----------------------------------------------------------
    def ask_model(self, line):
        m = self.model.ask(line)
        if m is None:
            raise InternalError("Lean driver died on: " + line)
        if m == "bad-op":
            raise InternalError("Lean driver rejects: " + line)
        if " # " not in m:
            raise InternalError("Lean driver answer without oracle part: %r for %r" % (m, line))
        c, s = m.split(" # ", 1)
        return c, s

    def begin(self, level):
        self.trace = []
        self.level = level
        first = "new" if level == "stream" else "cnew"
        a = self.impl.ask(first)
        self.ask_model(first)
        if a != "ok":
            raise InternalError("impl driver: %r on %s" % (a, first))
        self.present, self.top, self.length = [], (0, 0), 0
        self.keys = {}
        self.code_broken = False      # the Code model lost the implementation in this history: go on with the oracles only
        self.accepted_max = {}        # reply-level oracle: greatest ID accepted so far (None = the stream object, else per key)
        self.prev_mut = "none"        # class of the previous mutating operation (input-class statistics)
        self.prev_mut_key = {}        # the same per key at command level

    def record(self, kind, what, line, impl, code, spec, extra=None):
        det = {"level": self.level, "ops": list(self.trace), "failing_op": line, "impl": impl, "code": code, "spec": spec, "why": what}
        if extra:
            det.update(extra)
        if kind == "disagree":
            self.disagreements.append(det)
        else:
            self.oracle_failures.append((kind, det))

    def accepted(self, key, i, line, extra=None):
        """The property judged on the replies alone: an accepted XADD returned `i`; every accepted ID must be
        greater than every ID accepted before (for this stream), whatever was deleted or trimmed since."""
        m = self.accepted_max.get(key)
        if m is not None and i <= m:
            self.record("monotone", "accepted XADD returned %s, not greater than %s which was accepted before" % (id_text(i), id_text(m)),
                        line, id_text(i), None, "> " + id_text(m), extra)
            return False
        self.accepted_max[key] = i
        return True

    def code_differs(self, what, line, impl, code, spec, extra=None):
        """impl != Code model: recorded once per history; afterwards the history goes on under the oracles only"""
        if not self.code_broken:
            self.record("disagree", what, line, impl, code, spec, extra)
            self.rep.count("history.code-model-lost")
        self.code_broken = True

    # -- stream level ------------------------------------------------------
    def raw(self, line, tag=("", ), tmpl=None):
        """one stream-level operation line (impl protocol).  Returns the implementation's answer.
        Raises Fail when a mutating operation left implementation and model/oracle apart."""
        rep = self.rep
        ws = line.split()
        op = ws[0]
        self.trace.append(line)
        rep.evaluations += 1
        rep.count("op." + op)
        a = self.impl.ask(line)
        if a is None or a == "panic":
            self.record("crash", "implementation %s" % ("aborted: " + self.impl.stderr_tail[-200:] if a is None else "panicked"), line, a, None, None)
            raise Fail()
        if a == "bad-op":
            raise InternalError("impl driver rejects: " + line)
        extra = {}
        if op == "auto" and a.startswith("refused"):
            c, s = self.ask_model("autoref %s" % ws[1])
            a_cmp = "refused"
            extra = {"prev_top": id_text(self.top)}
            ok_oracle = s == "ok"
            rep.nontrivial(("auto", "refused", ok_oracle) + tuple(tag))
            rep.count("auto.refused")
        elif op == "auto":
            w = a.split()
            ms, seq, t0, t1 = int(w[1]), int(w[2]), int(w[3]), int(w[4])
            if FAULT == "auto" and seq > 0:
                seq -= 1
            c, s = self.ask_model("auto %d %d %s" % (ms, seq, ws[1]))
            a_cmp = "id %d %d" % (ms, seq)
            extra = {"prev_top": id_text(self.top), "returned": id_text((ms, seq)), "clock_bracket": [t0, t1]}
            ok_oracle = s == "ok"
            ahead = "top-ahead" if self.top[0] > t1 else "top-at-clock" if self.top[0] >= t0 - 1 else "top-behind"
            rep.count("class.auto.%s.after-%s" % (ahead, self.prev_mut))
            rep.nontrivial(("auto-class", ahead, self.prev_mut, self.top[1] >= U64 - 1, self.top[0] >= U64 - 1))
            if self.q[1] and self.top == (U64, U64):
                # repaired tree, top of the ID space: StorageEngine::xadd refuses before Stream::add_auto is called, so
                # this call is not reachable by a client (the refusal is exercised at command level).  The generator
                # must still be total: it saturates.  Compared with the Code model only; the history ends here.
                rep.count("auto.saturated-unreachable")
                rep.nontrivial(("auto", "saturated"))
                if a_cmp != c and not self.code_broken:
                    self.code_differs("auto at the top of the ID space: implementation %s, Code model %s" % (a_cmp, c), line, a_cmp, c, s, extra)
                raise Fail()
            if not self.accepted(None, (ms, seq), line, extra):
                ok_oracle = False
            # the clock: a new millisecond must lie in the bracket of the call; staying on the old one
            # is legitimate only when the clock has not passed it (1 ms cache lag; gross misses only)
            miss = 0
            if ms == self.top[0] + 1 and seq == 0 and self.top[1] == U64:
                pass                                     # carry out of an exhausted millisecond (repaired generator)
            elif ms > self.top[0]:
                if ms < t0 - 1 or ms > t1:
                    miss = max(t0 - 1 - ms, ms - t1)
            elif ms == self.top[0] and self.top[0] < t0 - 1:
                miss = t0 - 1 - self.top[0]
            if miss and not self.code_broken:
                self.bracket_miss += 1
                if miss > 1000:
                    self.code_differs("auto ID ignores the clock: returned %d-%d, previous top %s, wall clock [%d,%d]" % (ms, seq, id_text(self.top), t0, t1), line, a, c, s, extra)
            branch = "new-ms" if ms > self.top[0] else "same-ms" if ms == self.top[0] else "older-ms"
            rep.nontrivial(("auto", branch, seq == 0, self.top[1] == U64, ok_oracle) + tuple(tag))
            rep.count("auto." + branch)
        else:
            if FAULT == "range" and op == "range" and a.count(";") >= 1:
                a = a.rsplit(";", 1)[0]
            if FAULT == "len" and op == "len":
                a = str(int(a) + 1)
            c, s = self.ask_model(line)
            a_cmp = a
            if op == "dump":
                # oracle: number and content of the present entries (the atomics are Code-level detail)
                ai = a.split(" ", 2)
                si = s.split(" ", 2)
                ok_oracle = ai[0] == si[0] and ai[2] == si[2]
            else:
                ok_oracle = a == s
        if op == "addid":
            w = line.split()
            i = (int(w[1]), int(w[2]))
            if a_cmp == "ok" and not self.accepted(None, i, line):
                ok_oracle = False
            self.prev_mut = ("refused-" + ("zero" if i == (0, 0) else "equal" if i == self.top else "lower-seq" if i[0] == self.top[0] else "lower-ms")) if a_cmp == "refused" else "explicit"
        elif op == "auto":
            self.prev_mut = "auto"
        elif op in ("del", "trimc", "trimmin"):
            self.prev_mut = "removal" if a_cmp != "0" else self.prev_mut
        if not ok_oracle:
            self.record(op, "%s: implementation answers %s, the property prescribes %s" % (op, a_cmp[:200], s[:200]), line, a_cmp, c, s, dict(extra, present=[id_text(i) for i in self.present[:8]], tmpl=ser_tmpl(tmpl)))
        if a_cmp != c and not self.code_broken:
            self.code_differs("%s: implementation %s, Code model %s" % (op, a_cmp[:200], c[:200]), line, a_cmp, c, s, dict(extra, tmpl=ser_tmpl(tmpl)))
        # the history ends only where the ORACLE state and the implementation part (a failed mutation): a lost Code model
        # is no reason to stop searching for an input on which the property itself fails
        if (op in MUTATING or op == "dump") and not ok_oracle:
            raise Fail()
        if op == "dump":
            w = a.split(" ", 2)
            self.length = int(w[0][4:])
            # the top = the greatest ID ever added according to the oracle (the implementation's atomics are Code-level detail)
            t = s.split(" ", 2)[1][4:].split("-")
            self.top = (int(t[0]), int(t[1]))
            self.present = [i for i, _ in parse_entries(w[2].split(" ")[0])]
        return a_cmp

    # -- command level -----------------------------------------------------
    def cmd(self, args, tag=("", )):
        """one command (list of byte strings) through the real handler; returns the canonical reply"""
        rep = self.rep
        line = "cmd " + " ".join(hx(x) for x in args)
        self.trace.append(line)
        rep.evaluations += 1
        name = args[0].upper().decode("ascii", "replace")
        rep.count("cmd." + name)
        a = self.impl.ask(line)
        if a is None or a == "panic":
            self.record("crash", "handler %s" % ("aborted: " + self.impl.stderr_tail[-200:] if a is None else "panicked"), line, a, None, None)
            raise Fail()
        if a == "bad-op":
            raise InternalError("impl driver rejects: " + line)
        mline = line
        extra = {}
        if name == "XADD":
            w = a.split()
            t0, t1 = int(w[-2]), int(w[-1])
            a = " ".join(w[:-2])
            if len(args) > 2 and args[2] == b"*" and a.startswith("bulk "):
                idt = unhx(a.split()[1]).decode("ascii", "replace")
                ms = int(idt.split("-")[0])
                mline = "cmdauto %d %s" % (ms, " ".join(hx(x) for x in args))
                extra = {"returned": idt, "clock_bracket": [t0, t1]}
        if FAULT == "xrange" and name == "XRANGE" and a.count(";") >= 1:
            a = a.rsplit(";", 1)[0]
        c, s = self.ask_model(mline)
        ok_oracle = a == s
        # the same entries with pairs that differ only as a map differs from the list given (order, repeated names)?
        fields_only = (not ok_oracle) and a.startswith(("ents ", "streams ")) and canon_reply(a) == canon_reply(s)
        if a.startswith(("ents ", "streams ")):
            multi = "," in a
            rep.count("class.read.%s" % ("multi-pair" if multi else "single-pair"))
        rep.nontrivial(("cmd", name, a.split(" ")[0], min(a.count(";") + (0 if a.endswith(".") else 1), 4) if a.startswith(("ents", "streams")) else 0, ok_oracle) + tuple(tag))
        if a.startswith("errprop"):
            rep.count("cmd.errprop")
        if name == "XADD" and len(args) > 2:
            key = args[1]
            old_top = self.accepted_max.get(key) or (0, 0)
            star = args[2] == b"*"
            extra = dict(extra, accepted_before=id_text(old_top))
            if a.startswith("bulk "):
                m = re.fullmatch(r"(\d+)-(\d+)", unhx(a.split()[1]).decode("ascii", "replace"))
                if m:
                    extra["returned_id"] = m.group(0)
                if m and not self.accepted(key, (int(m.group(1)), int(m.group(2))), line, dict(extra, args=[x.decode("latin1") for x in args])):
                    ok_oracle = False
            if star:
                ahead = "top-ahead" if old_top[0] > t1 else "top-at-clock" if old_top[0] >= t0 - 1 else "top-behind"
                prev = self.prev_mut_key.get(key, "none")
                rep.count("class.xadd-star.%s.after-%s" % (ahead, prev))
                rep.nontrivial(("xadd-star-class", ahead, prev, old_top[1] >= U64 - 1, old_top[0] >= U64 - 1))
            if star:
                self.prev_mut_key[key] = "auto"
            elif a.startswith("bulk "):
                self.prev_mut_key[key] = "explicit"
            else:
                m = re.fullmatch(rb"(\d+)-(\d+)", args[2])
                i = (int(m.group(1)), int(m.group(2))) if m else None
                self.prev_mut_key[key] = "refused-" + ("malformed" if i is None or i[0] > U64 or i[1] > U64 else "zero" if i == (0, 0) else "equal" if i == old_top else
                                                       "lower-seq" if i[0] == old_top[0] else "lower-ms" if i < old_top else "other")
        elif name in ("XDEL", "XTRIM") and len(args) > 1 and a.startswith("int ") and a != "int 0":
            self.prev_mut_key[args[1]] = "removal"
        if not ok_oracle:
            self.record("fields" if fields_only else "cmd:" + name,
                        "%s: implementation replies %s, the property prescribes %s" % (name, a[:200], s[:200]), line, a, c, s,
                        dict(extra, args=[x.decode("latin1") for x in args]))
        # a tree that keeps the pairs in a map returns them in the hasher's order: compared with the Code model as sorted maps
        a_code = a if self.q[4] else canon_reply(a)
        if a_code != c and not self.code_broken:
            self.code_differs("%s: implementation %s, Code model %s" % (name, a_code[:200], c[:200]), line, a_code, c, s, extra)
        if name in ("XADD", "XDEL", "XTRIM") and not ok_oracle:
            raise Fail()
        return a


def do_restart(ex):
    """SAVE + restart of the engine behind the handlers (RdbEngine::save, then RdbEngine::load into a fresh engine)"""
    ex.trace.append("crestart")
    ex.rep.evaluations += 1
    ex.rep.count("cmd.RESTART")
    a = ex.impl.ask("crestart")
    c, s = ex.ask_model("crestart")
    if a is None or a == "panic":
        ex.record("crash", "SAVE + load %s" % ("aborted: " + ex.impl.stderr_tail[-200:] if a is None else "panicked"), "crestart", a, None, None)
        raise Fail()
    if a != "ok":
        ex.record("restart", "SAVE + restart failed: %s" % a, "crestart", a, c, s)
        raise Fail()
    for key, (present, top) in sorted(ex.keys.items()):
        cls = "empty-stream" if not present else "top-removed" if present[-1] < (ex.accepted_max.get(key) or (0, 0)) else "top-present"
        ex.rep.count("class.restart." + cls)
        ex.rep.nontrivial(("restart", cls))
        ex.prev_mut_key[key] = "restart-" + cls


# ------------------------------------------------------------------ templates (stream level)
def resolve(tok, ex):
    """ID token -> (ms, seq), relative to the entries present now"""
    p = tok.split(":")
    if p[0] == "abs":
        return int(p[1]), int(p[2])
    if p[0] == "min":
        return 0, 0
    if p[0] == "max":
        return U64, U64
    if p[0] == "top":
        return clamp(ex.top[0] + int(p[1])), clamp(ex.top[1] + int(p[2]))
    if p[0] == "now":
        return clamp(int(time.time() * 1000) + int(p[1])), int(p[2])
    if p[0] == "p":
        base = ex.present[int(p[1]) % len(ex.present)] if ex.present else ex.top
        return clamp(base[0] + int(p[2])), clamp(base[1] + int(p[3]))
    raise ValueError(tok)


def classify_bound(i, present):
    if not present:
        return "empty"
    if i in present:
        return "hit"
    if i < present[0]:
        return "below"
    if i > present[-1]:
        return "above"
    return "between"


def run_template(ex, t):
    """execute one template on both sides (plus the dump after a mutation)"""
    op = t[0]
    if op == "addid":
        i = resolve(t[1], ex)
        cls = "zero" if i == (0, 0) else "le-top" if i <= ex.top else "gt-top"
        a = ex.raw("addid %d %d %s" % (i[0], i[1], fields_text(t[2])), tmpl=t)
        ex.rep.nontrivial(("addid", cls, a, i[1] == U64, i[0] == U64, t[1].split(":")[0]))
        ex.rep.count("addid." + a)
        ex.raw("dump")
    elif op == "auto":
        ex.raw("auto %s" % fields_text(t[1]), tag=(t[2] if len(t) > 2 else "",), tmpl=t)
        ex.raw("dump")
    elif op == "range":
        s, e = resolve(t[1], ex), resolve(t[2], ex)
        if len(t) > 5 and t[5] == "sorted" and s > e:
            s, e = e, s
        c = t[3]
        a = ex.raw("range %d %d %d %d %s %d" % (s[0], s[1], e[0], e[1], "none" if c is None else c, t[4]), tmpl=t)
        n = len(parse_entries(a))
        ex.rep.nontrivial(("range", classify_bound(s, ex.present), classify_bound(e, ex.present), s > e,
                           "none" if c is None else min(c, 3), t[4], min(n, 3), min(len(ex.present), 3)))
        ex.rep.count("range.n%d" % min(n, 3))
    elif op == "after":
        s = resolve(t[1], ex)
        c = t[2]
        a = ex.raw("after %d %d %s" % (s[0], s[1], "none" if c is None else c), tmpl=t)
        n = len(parse_entries(a))
        ex.rep.nontrivial(("after", classify_bound(s, ex.present), "none" if c is None else min(c, 3), min(n, 3)))
    elif op == "del":
        ids = [resolve(x, ex) for x in t[1]]
        hit = len(set(ids) & set(ex.present))
        had_top = bool(ex.present) and ex.present[-1] in ids
        a = ex.raw("del %s" % ("|".join(id_text(i) for i in ids) if ids else "."), tmpl=t)
        ex.rep.nontrivial(("del", min(len(ids), 3), min(hit, 3), len(ids) != len(set(ids)), had_top, hit == len(ex.present)))
        ex.raw("dump")
    elif op == "trimc":
        m, d = t[1].split(":")
        n = int(d) if m == "abs" else max(ex.length + int(d), 0)          # abs:n | len:±d
        a = ex.raw("trimc %d" % n, tmpl=t)
        ex.rep.nontrivial(("trimc", "zero" if n == 0 else "lt" if n < ex.length else "eq" if n == ex.length else "gt", min(int(a), 3)))
        ex.raw("dump")
    elif op == "trimmin":
        i = resolve(t[1], ex)
        a = ex.raw("trimmin %d %d" % i, tmpl=t)
        ex.rep.nontrivial(("trimmin", classify_bound(i, ex.present), min(int(a), 3)))
        ex.raw("dump")
    elif op in ("len", "first", "last"):
        a = ex.raw(op, tmpl=t)
        ex.rep.nontrivial((op, a == "none" or a == "0"))
    else:
        raise ValueError(t)


PROBE_STREAM = [("auto", [], "probe"), ("auto", [(b"f", b"v")], "probe"), ("range", "min", "max", None, 0), ("after", "min", None), ("len",),
                ("addid", "top:0:0", []), ("auto", [], "probe"), ("addid", "top:0:1", []), ("auto", [], "probe"), ("del", ["p:-1:0:0"]), ("auto", [], "probe"),
                ("after", "top:0:-1", None), ("range", "min", "max", None, 1), ("trimc", "abs:0"), ("auto", [], "probe"), ("addid", "top:0:0", []), ("len",)]


def run_history(ex, templates, level="stream"):
    """fresh object, then the templates; stops where implementation and ORACLE part.  When only the Code model lost the
    implementation (state the model does not predict, e.g. the atomics), the history goes on under the oracles, and a
    probing suffix follows: every way of adding and reading, so that a hidden state difference gets its chance to
    surface as a reply the property forbids."""
    ex.begin(level)
    n0 = len(ex.oracle_failures)
    try:
        for t in templates:
            if level == "stream":
                run_template(ex, t)
            else:
                run_cmd_template(ex, t)
        if ex.code_broken and len(ex.oracle_failures) == n0:
            ex.rep.count("history.probed-after-model-loss")
            if level == "stream":
                for t in PROBE_STREAM:
                    run_template(ex, t)
            else:
                for key in sorted(set(list(ex.keys) + [k for k in ex.accepted_max if k is not None])):
                    for args in ([b"XADD", key, b"*", b"f", b"v"], [b"XRANGE", key, b"-", b"+"], [b"XLEN", key], [b"XADD", key, b"*", b"f", b"v"],
                                 [b"XREAD", b"STREAMS", key, b"0"], [b"XREVRANGE", key, b"+", b"-"]):
                        ex.cmd(args, tag=("probe",))
    except Fail:
        return False
    return True


# ------------------------------------------------------------------ generators (stream level)
def gen_idtok(r, kind):
    """an ID token; `kind` selects the neighbourhood"""
    k = r.below(12)
    if kind == "small":
        if k < 5:
            return "abs:%d:%d" % (r.range(0, 12), r.range(0, 3))
        if k < 9:
            return "p:%d:%d:%d" % (r.below(8), r.choice([0, 0, 0, -1, 1]), r.choice([0, 0, -1, 1, 2]))
        if k == 9:
            return "top:%d:%d" % (r.choice([0, 0, 1]), r.choice([0, 1, 2]))
        return r.choice(["min", "max", "abs:0:1", "abs:1:0"])
    if k < 6:
        return "p:%d:%d:%d" % (r.below(8), r.choice([0, 0, 0, -1, 1, -1000, 1000]), r.choice([0, 0, -1, 1, 2, 5]))
    if k < 8:
        return "top:%d:%d" % (r.choice([0, 0, 1, 5]), r.choice([0, 1, 2]))
    if k == 8:
        return "now:%d:%d" % (r.choice([-10 ** 9, 10 ** 9, 0]), r.range(0, 3))
    return r.choice(["min", "max", "abs:0:1", "abs:%d:%d" % (U64, U64 - 1), "abs:%d:0" % U64, "abs:5:%d" % U64])


def gen_count(r):
    return r.choice([None, None, None, 0, 1, 1, 2, 3, 7, U64])


def gen_read(r, kind):
    k = r.below(10)
    if k < 6:
        lo = gen_idtok(r, kind) if r.chance(3, 4) else "min"
        hi = gen_idtok(r, kind) if r.chance(3, 4) else "max"
        return ("range", lo, hi, gen_count(r), r.below(2), "sorted" if r.chance(2, 3) else "asis")
    if k < 8:
        return ("after", gen_idtok(r, kind), gen_count(r))
    return (r.choice(["len", "first", "last"]),)


def gen_add_gt(r, kind):
    """an explicit ID meant to be accepted (just above the top)"""
    if kind == "small":
        return ("addid", "top:%d:%d" % r.choice([(0, 1), (0, 1), (0, 2), (1, 0), (1, 0), (2, 0), (1, 3)]), gen_fields(r))
    return ("addid", "top:%d:%d" % r.choice([(0, 1), (0, 3), (1, 0), (1000, 0), (1, 7)]), gen_fields(r))


def gen_mut(r, kind):
    k = r.below(20)
    if k < 7:
        return gen_add_gt(r, kind)
    if k < 9:
        return ("addid", gen_idtok(r, kind), gen_fields(r))             # mostly refused: at or below the top
    if k < 12:
        if kind == "small":
            return gen_add_gt(r, kind)
        return ("auto", gen_fields(r))
    if k < 15:
        n = r.choice([0, 1, 1, 1, 2, 3])
        ids = [r.choice(["p:%d:0:0" % r.below(8), "p:%d:0:0" % r.below(8), "p:-1:0:0", gen_idtok(r, kind)]) for _ in range(n)]
        if ids and r.chance(1, 4):
            ids.append(ids[0])
        return ("del", ids)
    if k < 18:
        return ("trimc", r.choice(["abs:0", "abs:0", "abs:1", "abs:2", "len:0", "len:-1", "len:-2", "len:1", "abs:1000", "abs:%d" % U64]))
    return ("trimmin", gen_idtok(r, kind))


def gen_history(r, kind):
    """kinds: small (explicit IDs near 0, dense reads), auto (bursts of *), future (explicit ID ahead of the
    clock, then *), emptied (everything deleted/trimmed, then reads and adds), wrap (sequence numbers at 2^64-1)"""
    ts = []
    if kind == "small":
        for _ in range(r.range(0, 6)):
            ts.append(gen_add_gt(r, kind))
        for _ in range(r.range(8, 30)):
            ts.append(gen_read(r, kind) if r.chance(3, 5) else gen_mut(r, kind))
    elif kind == "auto":
        for _ in range(r.range(6, 24)):
            k = r.below(10)
            if k < 4:
                for _ in range(r.range(1, 6)):
                    ts.append(("auto", gen_fields(r), "burst"))
            elif k < 7:
                ts.append(gen_read(r, kind))
            else:
                ts.append(gen_mut(r, kind))
    elif kind == "future":
        ts.append(("addid", "now:%d:%d" % (r.choice([10 ** 6, 10 ** 9, 10 ** 12]), r.choice([0, 5, U64 - 9])), gen_fields(r)))
        for _ in range(r.range(1, 5)):
            ts.append(("auto", gen_fields(r), "after-future"))
        if r.chance(1, 2):
            ts.append(("del", ["p:-1:0:0"]))
            ts.append(("auto", gen_fields(r), "after-del-top"))
        for _ in range(r.range(3, 12)):
            ts.append(gen_read(r, kind) if r.chance(1, 2) else gen_mut(r, kind))
    elif kind == "emptied":
        for _ in range(r.range(1, 5)):
            ts.append(gen_add_gt(r, "small") if r.chance(1, 2) else ("auto", gen_fields(r)))
        ts.append(r.choice([("trimc", "abs:0"), ("del", ["p:%d:0:0" % i for i in range(6)]), ("trimmin", "max"), ("trimmin", "top:0:1")]))
        for _ in range(r.range(4, 12)):
            k = r.below(8)
            if k < 4:
                ts.append(gen_read(r, "auto"))
            elif k == 4:
                ts.append(("addid", r.choice(["top:0:0", "top:0:-1", "top:-1:0", "p:0:0:0", "min"]), gen_fields(r)))   # re-use of a removed ID
            elif k == 5:
                ts.append(("auto", gen_fields(r), "emptied"))
            else:
                ts.append(gen_mut(r, "auto"))
    elif kind == "ahead":
        # a stream whose top is ahead of the wall clock (by milliseconds, by an hour, by ages, at the u64 border); then refused
        # explicit adds of every kind interleaved with `*`, removals of the top in between, accepted explicit adds, reads
        ms = r.choice(["now:200", "now:3600000", "now:3600000", "now:1000000000000", "abs:%d" % U64, "abs:%d" % (U64 - 1)])
        seq = r.choice([0, 9, 9, U64 - 6, U64 - 1])
        if r.chance(1, 3):
            ts.append(("auto", gen_fields(r), "before-ahead"))
        ts.append(("addid", "%s:%d" % (ms, seq), gen_fields(r)))
        refused = ["top:0:0", "top:0:-1", "top:0:-5", "top:-1:0", "top:-1:7", "top:-60000:4", "top:-100:%d" % U64, "now:0:0", "now:1:3", "now:-1000:3",
                   "abs:0:0", "abs:0:1", "abs:5:5", "p:0:0:0", "p:0:0:-1"]
        for _ in range(r.range(6, 18)):
            k = r.below(12)
            if k < 4:
                ts.append(("addid", r.choice(refused), gen_fields(r)))
                if r.chance(2, 3):
                    ts.append(("auto", gen_fields(r), "after-refused"))
            elif k < 6:
                for _ in range(r.range(1, 3)):
                    ts.append(("auto", gen_fields(r), "ahead"))
            elif k < 8:
                ts.append(r.choice([("del", ["p:-1:0:0"]), ("del", ["p:-1:0:0", "p:0:0:0"]), ("trimc", "abs:0"), ("trimc", "len:-1"), ("trimmin", "top:0:1"), ("trimmin", "top:0:0")]))
                if r.chance(1, 2):
                    ts.append(("addid", r.choice(refused), gen_fields(r)))
                ts.append(("auto", gen_fields(r), "after-removal"))
            elif k < 9:
                ts.append(("addid", r.choice(["top:0:1", "top:1:0", "top:0:3"]), gen_fields(r)))
            else:
                ts.append(gen_read(r, "auto"))
        ts.append(("range", "min", "max", None, 0))
    elif kind == "wrap":
        room = r.range(0, 3)
        ms = r.choice(["now:1000000000", "abs:%d" % U64, "now:5000"])
        ts.append(("addid", "%s:%d" % (ms, U64 - room), gen_fields(r)))
        for _ in range(room + 1):
            ts.append(("auto", gen_fields(r), "at-top-seq"))
        ts.append(("range", "min", "max", None, 0))
    return ts


# ------------------------------------------------------------------ command level
ID_TEXTS_BAD = [b"18446744073709551616-0", b"18446744073709551621-7", b"5-18446744073709551616", b"99999999999999999999999-1",
                b"-", b"5-", b"-5", b"5", b"a-1", b"1-a", b"1-2-3", b"005-01", b" 5-1", b"5-1 ", b"", b"+5-1", b"5--1", b"\xff-1", b"0-0", b"0-1"]


def cmd_idtext(r, ex, key, allow_special=()):
    """an ID argument: mostly well-formed near the present IDs, sometimes malformed/overflowing"""
    k = r.below(14)
    present, top = ex.keys.get(key, ([], (0, 0)))
    if k < 2 and allow_special:
        return r.choice(allow_special)
    if k < 8:
        base = present[r.below(len(present))] if present and r.chance(3, 4) else top
        i = (clamp(base[0] + r.choice([0, 0, 0, -1, 1])), clamp(base[1] + r.choice([0, 0, -1, 1, 2])))
        return id_text(i).encode()
    if k < 10:
        return id_text((r.range(0, 9), r.range(0, 2))).encode()
    if k < 11:
        return id_text((clamp(top[0] + r.choice([0, 1])), clamp(top[1] + 1))).encode()
    if k < 12:
        # incomplete (no sequence number) or exclusive (`(`) forms, near the present IDs
        base = present[r.below(len(present))] if present and r.chance(3, 4) else top
        ms = clamp(base[0] + r.choice([0, 0, -1, 1]))
        return r.choice([b"%d" % ms, b"%d" % ms, b"(" + id_text((ms, clamp(base[1] + r.choice([0, 0, -1, 1])))).encode(), b"(%d" % ms,
                         b"(", b"(-", b"((5-0", b"(0-0", b"(%d-%d" % (U64, U64), b"5(", b"%d" % (U64 + 1)])
    return r.choice(ID_TEXTS_BAD)


def refresh_key(ex, key):
    """read the key back through XRANGE - + and XLEN (also compared on both sides)"""
    a = ex.cmd([b"XRANGE", key, b"-", b"+"], tag=("readback",))
    ex.cmd([b"XLEN", key], tag=("readback",))
    if a.startswith("ents "):
        ids = [i for i, _ in parse_entries(a[5:])]
        old = ex.keys.get(key, ([], (0, 0)))
        top = max([old[1]] + ids)
        ex.keys[key] = (ids, top)


def run_cmd_template(ex, t):
    """t = (args-producer tag, …) already concrete except for ID texts, which are chosen here from ex.keys
    by the sub-generator carried in the template (deterministic: it owns a forked Rng)."""
    kind, r, key = t[0], t[1], t[2]
    if kind == "xadd":
        idt = b"*" if t[3] == "*" else cmd_idtext(r, ex, key) if t[3] == "any" else None
        if t[3] == "topseq":
            top = ex.keys.get(key, ([], (0, 0)))[1]
            ms = U64 if t[4] == "max" else clamp(max(top[0], int(time.time() * 1000)) + 10 ** 9)
            idt = id_text((ms, U64)).encode()
        if t[3] == "rel":
            top = ex.keys.get(key, ([], (0, 0)))[1]
            idt = id_text((clamp(top[0] + t[4][0]), clamp(top[1] + t[4][1]))).encode()
        elif t[3] == "future":
            idt = id_text((clamp(int(time.time() * 1000) + t[4][0]) if t[4][0] is not None else U64, t[4][1])).encode()
        elif t[3] == "text":
            idt = t[4]
        if idt is None:
            top = ex.keys.get(key, ([], (0, 0)))[1]
            idt = id_text((clamp(top[0] + t[4][0]), clamp(top[1] + t[4][1]) if t[4][0] == 0 else t[4][1])).encode()
        args = [b"XADD", key, idt]
        for f, v in t[5]:
            args += [f, v]
        a = ex.cmd(args, tag=("star" if idt == b"*" else "explicit",))
        if a.startswith("bulk "):
            i = unhx(a.split()[1]).decode("ascii", "replace").split("-")
            old = ex.keys.get(key, ([], (0, 0)))
            ex.keys[key] = (old[0], max(old[1], (int(i[0]), int(i[1]))))
        refresh_key(ex, key)
    elif kind in ("xrange", "xrevrange"):
        s = cmd_idtext(r, ex, key, (b"-", b"-", b"+"))
        e = cmd_idtext(r, ex, key, (b"+", b"+", b"-"))
        args = [kind.upper().encode(), key] + ([s, e] if kind == "xrange" else [e, s])
        c = t[3]
        if c is not None:
            args += c
        ex.cmd(args, tag=("count" if c else "nocount",))
    elif kind == "xread":
        keys = t[3]
        args = [b"XREAD"] + t[4] + [b"STREAMS"] + keys + [cmd_idtext(r, ex, k, (b"$", b"0", b"0-0")) for k in keys]
        ex.cmd(args, tag=(len(keys),))
    elif kind == "xdeltop":
        present = ex.keys.get(key, ([], (0, 0)))[0]
        ex.cmd([b"XDEL", key, id_text(present[-1]).encode() if present else b"1-1"])
        refresh_key(ex, key)
    elif kind == "restart":
        do_restart(ex)
        for k2 in sorted(ex.keys):
            refresh_key(ex, k2)
    elif kind == "xlen":
        ex.cmd([b"XLEN", key])
    elif kind == "xtrim":
        ex.cmd([b"XTRIM", key] + t[3])
        refresh_key(ex, key)
    elif kind == "xdel":
        ids = [cmd_idtext(r, ex, key) for _ in range(t[3])]
        ex.cmd([b"XDEL", key] + ids)
        refresh_key(ex, key)
    elif kind == "raw":
        ex.cmd(t[3])
        if t[3][0].upper() in (b"XADD", b"XDEL", b"XTRIM"):
            refresh_key(ex, key)
    else:
        raise ValueError(t)


COUNT_CLAUSES = [None, None, None, [b"COUNT", b"0"], [b"COUNT", b"1"], [b"COUNT", b"2"], [b"count", b"3"], [b"COUNT", b"+2"],
                 [b"COUNT", b"x"], [b"COUNT", b"-1"], [b"COUNT", b"18446744073709551616"], [b"CNT", b"1"], [b"COUNT"], [b"2"], [b"COUNT", b"1", b"extra"]]
TRIM_CLAUSES = [[b"MAXLEN", b"0"], [b"MAXLEN", b"1"], [b"MAXLEN", b"2"], [b"maxlen", b"3"], [b"MAXLEN", b"~", b"1"], [b"MAXLEN", b"=", b"2"],
                [b"MAXLEN", b"~"], [b"MAXLEN", b"x"], [b"MINID", b"1-0"], [b"MAXLEN", b"5", b"junk"], [b"MAXLEN", b"junk", b"5"], [b"MAXLEN", b"100"], [b"MAXLEN"]]


def gen_cmd_history(r, hist_no):
    ka, kb = b"s%da" % hist_no, b"s%db" % hist_no
    ts = []
    for _ in range(r.range(8, 28)):
        key = ka if r.chance(3, 4) else kb
        sub = r.fork("cmd")
        k = r.below(20)
        if k < 5:
            ts.append(("xadd", sub, key, "gt", r.choice([(0, 1), (0, 2), (1, 0), (2, 0), (1, 5)]), gen_fields(r)))
        elif k < 7:
            if r.chance(1, 6):
                # an explicit ID with the last sequence number (ahead of the clock, or the very top), then `*`
                ts.append(("xadd", sub, key, "topseq", r.choice(["future", "future", "max"]), gen_fields(r)))
            ts.append(("xadd", sub, key, "*", None, gen_fields(r)))
        elif k < 9:
            ts.append(("xadd", sub, key, "any", None, gen_fields(r)))
        elif k < 13:
            ts.append((r.choice(["xrange", "xrevrange"]), sub, key, r.choice(COUNT_CLAUSES)))
        elif k < 15:
            keys = r.choice([[ka], [kb], [ka, kb], [kb, ka], [ka, ka], [ka, b"nokey%d" % hist_no]])
            opts = r.choice([[], [], [b"COUNT", b"1"], [b"COUNT", b"2"], [b"count", b"0"], [b"COUNT", b"x"], [b"BOGUS"]])
            ts.append(("xread", sub, key, keys, opts))
        elif k < 16:
            ts.append(("xlen", sub, key) if r.chance(1, 2) else ("restart", sub, key))
        elif k < 18:
            ts.append(("xtrim", sub, key, r.choice(TRIM_CLAUSES)))
        elif k < 19:
            ts.append(("xdel", sub, key, r.choice([1, 1, 2, 3])))
        else:
            ts.append(("raw", sub, key, r.choice([[b"XADD", key, b"*"], [b"XADD", key, b"*", b"f"], [b"XADD", key, b"1-1", b"f", b"v", b"g"], [b"XRANGE", key, b"-"],
                                                  [b"XREVRANGE", key, b"+"], [b"XLEN"], [b"XLEN", key, key], [b"XREAD", b"STREAMS", key], [b"XREAD", b"COUNT", b"1", b"STREAMS"],
                                                  [b"XREAD", b"STREAMS", key, key, b"0"], [b"XDEL", key], [b"XTRIM", key, b"MAXLEN"], [b"xadd", key, b"*", b"f", b"v"],
                                                  [b"XREAD", b"STREAMS", key, b"0"], [b"XREAD", b"COUNT", b"1", b"COUNT", b"2", b"STREAMS", key, b"0"]])))
    return ts


def gen_cmd_ahead_history(r, hist_no):
    """through the handlers: a stream whose top is ahead of the clock, refused explicit XADDs of every kind (equal, lower
    sequence, lower millisecond, at/behind the clock, 0-0, malformed or overflowing text) interleaved with XADD *, with
    XDEL / XTRIM of the top in between"""
    key = b"a%d" % hist_no
    ts = []
    sub = r.fork("cmd")
    if r.chance(1, 3):
        ts.append(("xadd", sub, key, "*", None, gen_fields(r)))
    ts.append(("xadd", sub, key, "future", r.choice([(200, 0), (3600000, 9), (3600000, 9), (10 ** 12, U64 - 6), (None, 3), (None, U64 - 1), (86400000, U64 - 1)]), gen_fields(r)))
    refused = [("rel", (0, 0)), ("rel", (0, -1)), ("rel", (0, -5)), ("rel", (-1, 0)), ("rel", (-1, 7)), ("rel", (-60000, 4)), ("future", (0, 0)), ("future", (1, 3)),
               ("future", (-1000, 3)), ("text", b"0-0"), ("text", b"0-1"), ("text", b"5-5")] + [("text", t) for t in ID_TEXTS_BAD]
    for _ in range(r.range(6, 16)):
        k = r.below(12)
        if k < 5:
            m, a = r.choice(refused)
            ts.append(("xadd", sub, key, m, a, gen_fields(r)))
            if r.chance(2, 3):
                ts.append(("xadd", sub, key, "*", None, gen_fields(r)))
        elif k < 7:
            ts.append(("xadd", sub, key, "*", None, gen_fields(r)))
        elif k < 9:
            ts.append(r.choice([("xdeltop", sub, key), ("xtrim", sub, key, [b"MAXLEN", b"0"]), ("xtrim", sub, key, [b"MAXLEN", b"1"])]))
            if r.chance(1, 2):
                m, a = r.choice(refused)
                ts.append(("xadd", sub, key, m, a, gen_fields(r)))
            ts.append(("xadd", sub, key, "*", None, gen_fields(r)))
        elif k < 10:
            ts.append(("xadd", sub, key, "rel", r.choice([(0, 1), (1, 0), (0, 3)]), gen_fields(r)) if r.chance(2, 3) else ("restart", sub, key))
        elif k < 11:
            ts.append(("xread", sub, key, [key], r.choice([[], [b"COUNT", b"2"], [b"COUNT", b"0"]])))
        else:
            ts.append((r.choice(["xrange", "xrevrange"]), sub, key, r.choice(COUNT_CLAUSES[:6])))
    return ts


def gen_cmd_restart_history(r, hist_no):
    """SAVE + restart in the middle of a stream's life: the top entry deleted or trimmed away (or everything), the top ahead of
    the clock or not, several streams at once; afterwards explicit IDs at / below / just above the old top, `*`, and reads -
    the last ID ("greatest ID ever added") must have survived, and so must every entry with its pairs in order"""
    ka, kb = b"r%da" % hist_no, b"r%db" % hist_no
    ts = []
    sub = r.fork("cmd")
    for key in ([ka, kb] if r.chance(1, 2) else [ka]):
        if r.chance(1, 3):
            ts.append(("xadd", sub, key, "future", r.choice([(3600000, 5), (10 ** 12, 0), (None, 7), (86400000, U64 - 3)]), gen_fields(r)))
        for _ in range(r.range(1, 4)):
            ts.append(("xadd", sub, key, "gt", r.choice([(0, 1), (1, 0), (2, 0), (1, 5)]), gen_fields(r)) if r.chance(3, 4) else ("xadd", sub, key, "*", None, gen_fields(r)))
        ts.append(r.choice([("xdeltop", sub, key), ("xdeltop", sub, key), ("xtrim", sub, key, [b"MAXLEN", b"0"]), ("xtrim", sub, key, [b"MAXLEN", b"1"]), ("xlen", sub, key)]))
        if r.chance(1, 3):
            ts.append(("xdeltop", sub, key))
    ts.append(("restart", sub, ka))
    for _ in range(r.range(4, 10)):
        key = ka if r.chance(2, 3) else kb
        k = r.below(10)
        if k < 3:
            ts.append(("xadd", sub, key, "rel", r.choice([(0, 0), (0, -1), (-1, 0), (0, 1), (1, 0)]), gen_fields(r)))
        elif k < 5:
            ts.append(("xadd", sub, key, "*", None, gen_fields(r)))
        elif k < 6:
            ts.append(("xadd", sub, key, "text", r.choice([b"1-1", b"0-1", b"5-5"]), gen_fields(r)))
        elif k < 7:
            ts.append(("restart", sub, key))
        elif k < 8:
            ts.append(r.choice([("xdeltop", sub, key), ("xtrim", sub, key, [b"MAXLEN", b"0"])]))
        elif k < 9:
            ts.append(("xread", sub, key, [ka, kb], r.choice([[], [b"COUNT", b"0"], [b"COUNT", b"1"]])))
        else:
            ts.append((r.choice(["xrange", "xrevrange"]), sub, key, r.choice(COUNT_CLAUSES[:6])))
    return ts


# ------------------------------------------------------------------ known findings: shapes
def classify(kind, det, findings):
    """Does this oracle failure have the shape of a listed finding?"""
    for f in findings:
        m = f.get("match")
        if m == "range-end-below-first":
            # a range read whose end bound is below the first present entry returned that entry although nothing is in range
            if kind == "range" and det.get("spec") == ".":
                w = det["failing_op"].split()
                e = (int(w[3]), int(w[4]))
                got = parse_entries(det["impl"])
                pres = det.get("present") or []
                if len(got) == 1 and pres and id_text(got[0][0]) == pres[0] and e < got[0][0]:
                    return f
            if kind in ("cmd:XRANGE", "cmd:XREVRANGE") and det.get("spec") == "ents ." and det.get("impl", "").startswith("ents ") and len(parse_entries(det["impl"][5:])) == 1:
                args = [a.encode("latin1") for a in det.get("args", [])]
                etxt = args[3] if kind == "cmd:XRANGE" else args[2]
                got = parse_entries(det["impl"][5:])[0][0]
                m2 = re.fullmatch(rb"(\d+)-(\d+)", etxt)
                if m2 and (int(m2.group(1)), int(m2.group(2))) < got and int(m2.group(1)) <= U64 and int(m2.group(2)) <= U64:
                    return f
        if m == "auto-seq-wrap":
            if kind == "auto" and det.get("spec") == "viol":
                prev = det.get("prev_top", "0-0").split("-")
                ret = det.get("returned", "0-0").split("-")
                if int(prev[1]) == U64 and ret[0] == prev[0] and ret[1] == "0":
                    return f
            if kind == "cmd:XADD" and det.get("returned") and det["returned"].endswith("-0") and det.get("spec", "").startswith("bulk "):
                want = unhx(det["spec"].split()[1]).decode().split("-")
                ret = det["returned"].split("-")
                if int(want[0]) == int(ret[0]) + 1 and want[1] == "0":
                    return f
            if kind == "cmd:XADD" and det.get("returned") == "%d-0" % U64 and det.get("spec") == "err":
                return f          # the top of the ID space: `*` must be refused, the wrap returns 2^64-1-0
            if kind in ("debug-panic", "debug-arith") and (det["failing_op"].startswith("auto") or "2a" in det["failing_op"].split()[3:4]):
                return f          # debug build: the overflowing `seq + 1` panics; release: wraps (answers differ from the prescribed ones)
        if m == "fields-as-map" and kind == "fields":
            return f          # the same entries; the pairs differ only as a map differs from the list given
        if m == "last-id-lost-by-restart" and kind in ("monotone", "cmd:XADD") and "crestart" in det.get("ops", []):
            # after a SAVE + restart an XADD was accepted with an ID not greater than one accepted before
            ret, before = det.get("returned_id"), det.get("accepted_before")
            if kind == "monotone" or (ret and before and tuple(int(x) for x in ret.split("-")) <= tuple(int(x) for x in before.split("-"))):
                return f
        if m == "xread-count-zero" and kind == "cmd:XREAD" and det.get("impl") == "streams ." and det.get("spec", "").startswith("streams ") and det.get("spec") != "streams .":
            args = [a.encode("latin1") for a in det.get("args", [])]
            for i in range(1, len(args) - 1):
                if args[i].upper() == b"COUNT" and re.fullmatch(rb"\+?0+", args[i + 1]):
                    return f
        if m == "incomplete-id-refused" and kind.startswith("cmd:") and det.get("impl") == "err" and det.get("spec") != "err":
            for t in [a.encode("latin1") for a in det.get("args", [])[2:]]:
                if re.fullmatch(rb"\(?[0-9]+", t) or (t.startswith(b"(") and re.fullmatch(rb"\([0-9]+-[0-9]+", t)):
                    return f
        if m == "idtext-wraps":
            texts = []
            if kind == "parseid":
                texts = [unhx(det["failing_op"].split()[1])]
            elif kind.startswith("cmd:"):
                texts = [a.encode("latin1") for a in det.get("args", [])[2:]]
            for t in texts:
                d = t.find(b"-")
                if d < 0:
                    continue
                for comp in (t[:d], t[d + 1:]):
                    if comp == b"" or (comp.isdigit() and re.fullmatch(rb"[0-9]+", comp) and int(comp) > U64):
                        if re.fullmatch(rb"[0-9]*", t[:d]) and re.fullmatch(rb"[0-9]*", t[d + 1:]):
                            return f
    return None


# ------------------------------------------------------------------ the run
def corpus(ex):
    """witnesses of the Lean witness lemmas and minimised past failures: run first"""
    # range_fails_end_below_first and its neighbours
    run_history(ex, [("addid", "abs:5:0", [(b"f", b"v")]),
                     ("range", "abs:1:0", "abs:2:0", None, 0), ("range", "abs:1:0", "abs:2:0", None, 1), ("range", "abs:3:0", "abs:1:0", None, 0),
                     ("range", "abs:1:0", "abs:2:0", 0, 0), ("range", "abs:6:0", "abs:2:0", None, 0), ("range", "abs:5:0", "abs:4:%d" % U64, 1, 0),
                     ("range", "min", "max", None, 0), ("range", "abs:5:0", "abs:5:0", None, 0), ("range", "abs:5:1", "max", None, 0), ("after", "min", None),
                     ("addid", "abs:7:0", []), ("addid", "abs:7:2", []), ("range", "abs:5:1", "abs:7:1", None, 0), ("range", "abs:5:1", "abs:7:1", None, 1),
                     ("range", "abs:5:1", "abs:6:9", None, 0), ("range", "min", "max", 2, 1), ("after", "abs:7:0", None), ("after", "abs:7:1", 1), ("after", "max", None),
                     ("trimmin", "abs:7:1"), ("range", "abs:1:0", "abs:7:1", None, 0), ("trimc", "abs:0"), ("range", "abs:1:0", "abs:2:0", None, 0), ("range", "min", "max", None, 1),
                     ("addid", "abs:7:2", []), ("addid", "abs:7:3", [(b"a", b"1"), (b"b", b"2")]), ("first",), ("last",), ("len",)])
    # ids_increase_fails_at_seq_wrap (release arithmetic) and the very top of the ID space
    run_history(ex, [("addid", "now:1000000000:%d" % U64, []), ("auto", [(b"f", b"v")], "at-top-seq")])
    run_history(ex, [("addid", "abs:%d:%d" % (U64, U64), []), ("auto", [], "at-top-seq")])
    run_history(ex, [("addid", "now:1000000000:%d" % (U64 - 1), []), ("auto", [], "at-top-seq"), ("addid", "top:0:0", []), ("del", ["p:-1:0:0"]), ("addid", "top:0:0", [])])
    # explicit ID ahead of the clock, XDEL of the top entry, then *
    run_history(ex, [("addid", "now:1000000000:7", []), ("auto", [], "after-future"), ("del", ["p:-1:0:0"]), ("auto", [], "after-del-top"), ("trimc", "abs:0"),
                     ("auto", [], "emptied"), ("addid", "p:0:0:-1", []), ("len",)])
    # ID text
    for t in ID_TEXTS_BAD + [b"1-1", b"18446744073709551615-18446744073709551615", b"0-18446744073709551615", b"00000000000000000000001-1", b"*", b"$", b"+", b"1-1-", b"--", b"1\xc3\xa9-1"]:
        ex.begin("stream")
        ex.trace.append("parseid " + hx(t))
        ex.rep.evaluations += 1
        a = ex.impl.ask("parseid " + hx(t))
        c, s = ex.ask_model("parseid " + hx(t))
        ex.rep.nontrivial(("parseid", a.split()[0], a == s))
        if a != s:
            ex.record("parseid", "ID text %r: implementation reads %s, the property prescribes %s" % (t, a, s), "parseid " + hx(t), a, c, s)
        if a != c:
            ex.record("disagree", "parseid %r: implementation %s, Code model %s" % (t, a, c), "parseid " + hx(t), a, c, s)
    # command level: the same witnesses through the handlers and the engine
    ex.begin("cmd")
    try:
        for args in [[b"XADD", b"w", b"5-0", b"f", b"v"], [b"XRANGE", b"w", b"1-0", b"2-0"], [b"XREVRANGE", b"w", b"2-0", b"1-0"], [b"XRANGE", b"w", b"-", b"+"],
                     [b"XRANGE", b"nokey", b"-", b"+"], [b"XLEN", b"nokey"], [b"XDEL", b"nokey", b"1-1"], [b"XTRIM", b"nokey", b"MAXLEN", b"0"],
                     [b"XADD", b"w", b"5-0", b"f", b"v"], [b"XADD", b"w", b"4-9", b"f", b"v"], [b"XADD", b"w", b"0-0", b"f", b"v"], [b"XADD", b"fresh", b"0-0", b"f", b"v"],
                     [b"XLEN", b"fresh"], [b"XADD", b"w", b"5-1", b"f", b"1", b"f", b"2", b"a", b"3"], [b"XRANGE", b"w", b"5-1", b"5-1"],
                     [b"XREAD", b"STREAMS", b"w", b"$"], [b"XREAD", b"STREAMS", b"w", b"nokey", b"0", b"0"], [b"XREAD", b"COUNT", b"1", b"STREAMS", b"w", b"5-0"],
                     [b"XDEL", b"w", b"5-1"], [b"XADD", b"w", b"5-1", b"f", b"v"], [b"XREAD", b"STREAMS", b"w", b"$"], [b"XLEN", b"w"],
                     [b"XTRIM", b"w", b"MAXLEN", b"0"], [b"XLEN", b"w"], [b"XADD", b"w", b"5-0", b"f", b"v"], [b"XRANGE", b"w", b"-", b"+"]]:
            ex.cmd(args, tag=("corpus",))
    except Fail:
        pass
    ex.begin("cmd")
    try:
        ex.cmd([b"XADD", b"x", b"18446744073709551621-7", b"f", b"v"], tag=("corpus",))
    except Fail:
        pass
    # hunt d1: the last ID must survive SAVE + restart (top deleted; top ahead of the clock and deleted; trimmed to nothing)
    for pre, post in (([[b"XADD", b"a", b"5-0", b"f", b"v"], [b"XADD", b"a", b"9-0", b"f", b"v"], [b"XDEL", b"a", b"9-0"], [b"XADD", b"a", b"7-0", b"f", b"v"]],
                       [[b"XADD", b"a", b"7-0", b"f", b"v"], [b"XRANGE", b"a", b"-", b"+"]]),
                      ([[b"XADD", b"b", b"99999999999999-5", b"f", b"v"], [b"XDEL", b"b", b"99999999999999-5"]], [[b"XLEN", b"b"], [b"XADD", b"b", b"*", b"f", b"v"]]),
                      ([[b"XADD", b"c", b"1-0", b"f", b"v"], [b"XADD", b"c", b"3-0", b"f", b"v"], [b"XTRIM", b"c", b"MAXLEN", b"0"]], [[b"XLEN", b"c"], [b"XADD", b"c", b"2-0", b"f", b"v"]]),
                      ([[b"XADD", b"d", b"1-0", b"a", b"1", b"a", b"2", b"b", b"3"], [b"XADD", b"d", b"2-0", b"f7", b"v", b"f1", b"v", b"f5", b"v", b"f0", b"v"], [b"XTRIM", b"d", b"MAXLEN", b"2"]],
                       [[b"XRANGE", b"d", b"-", b"+"], [b"XADD", b"d", b"2-0", b"f", b"v"], [b"XADD", b"d", b"2-1", b"f", b"v"]])):
        ex.begin("cmd")
        try:
            for args in pre:
                ex.cmd(args, tag=("corpus",))
            do_restart(ex)
            for args in post:
                ex.cmd(args, tag=("corpus",))
        except Fail:
            pass
    # hunt d2 (pairs in order, repeated names), d3 (XREAD COUNT 0), d4 (incomplete IDs, exclusive bounds)
    ex.begin("cmd")
    try:
        for args in [[b"XADD", b"dup", b"1-0", b"a", b"1", b"a", b"2", b"b", b"3"], [b"XRANGE", b"dup", b"-", b"+"], [b"XREVRANGE", b"dup", b"+", b"-"], [b"XREAD", b"STREAMS", b"dup", b"0-0"],
                     [b"XADD", b"ord", b"1-0"] + [x for i in range(8) for x in (b"f%d" % i, b"v%d" % i)], [b"XRANGE", b"ord", b"-", b"+"],
                     [b"XADD", b"s", b"4-7", b"f", b"v"], [b"XADD", b"s", b"5-0", b"f", b"v"], [b"XADD", b"s", b"5-3", b"f", b"v"], [b"XADD", b"s", b"7-1", b"f", b"v"],
                     [b"XADD", b"s", b"9-0", b"f", b"v"], [b"XADD", b"s", b"9-8", b"f", b"v"], [b"XADD", b"s", b"10-0", b"f", b"v"],
                     [b"XREAD", b"COUNT", b"0", b"STREAMS", b"s", b"0-0"], [b"XREAD", b"COUNT", b"0", b"STREAMS", b"s", b"5-3"], [b"XREAD", b"COUNT", b"2", b"STREAMS", b"s", b"0-0"],
                     [b"XRANGE", b"s", b"-", b"+", b"COUNT", b"0"],
                     [b"XRANGE", b"s", b"5", b"9"], [b"XRANGE", b"s", b"5-3", b"9"], [b"XREVRANGE", b"s", b"9", b"5", b"COUNT", b"2"], [b"XRANGE", b"s", b"0", b"+"], [b"XREAD", b"STREAMS", b"s", b"9"],
                     [b"XRANGE", b"s", b"(5-0", b"(9-8"], [b"XRANGE", b"s", b"(4", b"(10"], [b"XRANGE", b"s", b"(0-0", b"+"], [b"XRANGE", b"s", b"-", b"(0-0"],
                     [b"XRANGE", b"s", b"(18446744073709551615-18446744073709551615", b"+"], [b"XRANGE", b"s", b"(", b"+"], [b"XDEL", b"s", b"(5-0"],
                     [b"XADD", b"s", b"12", b"f", b"v"], [b"XDEL", b"s", b"12"], [b"XLEN", b"s"]]:
            ex.cmd(args, tag=("corpus",))
    except Fail:
        pass
    ex.begin("cmd")
    try:
        ex.cmd([b"XADD", b"y", b"99999999999999-18446744073709551615", b"f", b"v"], tag=("corpus",))
        ex.cmd([b"XADD", b"y", b"*", b"f", b"v"], tag=("corpus",))
        ex.cmd([b"XADD", b"y", b"*", b"f", b"v"], tag=("corpus",))
        ex.cmd([b"XRANGE", b"y", b"-", b"+"], tag=("corpus",))
    except Fail:
        pass
    ex.begin("cmd")
    try:
        ex.cmd([b"XADD", b"z", b"18446744073709551615-18446744073709551615", b"f", b"v"], tag=("corpus",))
        ex.cmd([b"XADD", b"z", b"*", b"f", b"v"], tag=("corpus",))
        ex.cmd([b"XLEN", b"z"], tag=("corpus",))
        ex.cmd([b"XADD", b"z", b"*", b"f", b"v"], tag=("corpus",))
        ex.cmd([b"XRANGE", b"z", b"-", b"+"], tag=("corpus",))
        ex.cmd([b"XDEL", b"z", b"18446744073709551615-18446744073709551615"], tag=("corpus",))
        ex.cmd([b"XADD", b"z", b"*", b"f", b"v"], tag=("corpus",))
        ex.cmd([b"XLEN", b"z"], tag=("corpus",))
    except Fail:
        pass


def exhaustive_small(ex):
    """every subset of five small IDs as the stream, every pair of bounds from a 7-point grid (below, on, between,
    above), COUNT none/0/1/2, both directions, and every range_after — validation of the model on a complete small scope"""
    import itertools
    grid = [(0, 0), (0, 1), (1, 0), (1, 1), (2, 0), (2, 1), (3, 0)]
    ids = grid[1:6]
    n = 0
    for mask in range(1 << len(ids)):
        sub = [i for k, i in enumerate(ids) if mask >> k & 1]
        ex.begin("stream")
        try:
            for i in sub:
                ex.raw("addid %d %d ." % i)
            ex.raw("dump")
            for s, e in itertools.product(grid, grid):
                for c in ("none", "0", "1", "2"):
                    for rev in (0, 1):
                        a = ex.raw("range %d %d %d %d %s %d" % (s[0], s[1], e[0], e[1], c, rev))
                        n += 1
                        ex.rep.nontrivial(("xrange", classify_bound(s, sub), classify_bound(e, sub), s > e, c, rev, min(len(parse_entries(a)), 3)))
            for s in grid:
                for c in ("none", "0", "1", "2"):
                    ex.raw("after %d %d %s" % (s[0], s[1], c))
                    n += 1
        except Fail:
            pass
    ex.rep.extra["exhaustive_small_scope"] = "all 32 subsets of 5 IDs x all 49 bound pairs of a 7-point grid x COUNT none/0/1/2 x 2 directions, plus range_after: %d reads" % n


def debug_arith_witness(rep, ex):
    """thorough tier: the sequence-exhaustion witnesses on a harness built with overflow checks (the arithmetic of a debug
    build of the server, where `seq + 1` panics and takes the whole server down — C06).  Repaired tree: no panic, same
    answers as in release arithmetic.  Pinned tree: the panic is the debug face of finding C15-auto-seq-wrap."""
    tdir = os.path.join(CACHE, "target-harness-dbg")
    with BuildLock("cargo-harness-dbg"):
        rc, out = run(["cargo", "build", "--offline", "--quiet", "--bin", "impl_stream", "--config", "profile.dev.overflow-checks=true",
                       "--config", "profile.dev.debug-assertions=true", "--target-dir", tdir], cwd=HARNESS)
    if rc != 0:
        raise InternalError("harness with overflow checks does not build:\n" + out[-3000:])
    p = LineProc([os.path.join(tdir, "debug", "impl_stream")], "impl-stream-dbg")
    top = b"%d-%d" % (U64, U64)
    fut = b"99999999999999-%d" % U64
    lines = ["cmd " + " ".join(hx(x) for x in a) for a in
             ([b"XADD", b"dbg-s", top, b"a", b"b"], [b"XADD", b"dbg-s", b"*", b"a", b"b"], [b"XADD", b"dbg-t", fut, b"a", b"b"], [b"XADD", b"dbg-t", b"*", b"a", b"b"])]
    lines += ["new", "addid 99999999999999 %d ." % U64, "auto ."]
    try:
        ans = []
        for i, l in enumerate(lines):
            a = p.ask(l)
            a = "abort" if a is None else " ".join(a.split()[:-2]) if a.startswith(("bulk", "err ", "id ")) and l != "new" else a
            ans.append(a)
            rep.evaluations += 1
    finally:
        p.close()
    rep.extra["debug_arithmetic_witness"] = dict(zip(["XADD top", "XADD * at top", "XADD future-maxseq", "XADD * after it", "new", "addid future-maxseq", "auto after it"], ans))
    want = ["bulk " + hx(top), "err", "bulk " + hx(fut), "bulk " + hx(b"100000000000000-0"), "ok", "ok", "id 100000000000000 0"]
    for l, a, w in zip(lines, ans, want):
        rep.nontrivial(("debug-arith", a.split()[0]))
        if a != w:
            kind = "debug-panic" if a in ("panic", "abort") else "debug-arith"
            ex.trace = list(lines[:lines.index(l) + 1])
            ex.level = "cmd" if l.startswith("cmd") else "stream"
            ex.record(kind, "with overflow checks (debug build of the server): %s answers %s, prescribed %s" % (l[:60], a, w), l, a, None, w)


def shrink_failure(ex_factory, templates, kind):
    """smallest sub-history (stream level) that still produces an oracle failure of this kind"""
    def fails(cand):
        ex = ex_factory()
        try:
            run_history(ex, cand)
            return any(k == kind for k, _ in ex.oracle_failures)
        finally:
            ex.close()
    return shrink_list(templates, fails, max_steps=60)


def verdict(rep, ex, findings, ok, log, errs, hist_templates=None, ex_factory=None):
    new_fail, seen_known = [], {}
    for kind, det in ex.oracle_failures:
        f = classify(kind, det, findings)
        if f:
            seen_known.setdefault(f["id"], (f, det))
            rep.count("known." + f["id"])
        else:
            new_fail.append((kind, det))
    for fid, (f, det) in seen_known.items():
        rep.known(fid, f["what"])
    for f in findings:
        if f["id"] not in seen_known:
            rep.violation("known finding %s no longer reproduces: model/known-findings file is stale" % f["id"],
                          {"finding": f, "obligation": f.get("lean_witness")}, no_input=True)
    if new_fail:
        new_fail.sort(key=lambda kd: (len(kd[1]["ops"]), len(json.dumps(kd[1], default=str))))
        kind, det = new_fail[0]
        det = dict(det)
        if hist_templates is not None and det.get("hist") in hist_templates and det["level"] == "stream" and ex_factory:
            try:
                small = shrink_failure(ex_factory, hist_templates[det["hist"]], kind)
                ex2 = ex_factory()
                try:
                    run_history(ex2, small)
                    hits = [d for k, d in ex2.oracle_failures if k == kind]
                    if hits:
                        det.update({"ops": hits[0]["ops"], "failing_op": hits[0]["failing_op"], "impl": hits[0]["impl"], "code": hits[0]["code"], "spec": hits[0]["spec"],
                                    "why": hits[0]["why"], "why_before_shrinking": det["why"],
                                    "templates": [ser_tmpl(t) for t in small], "shrunk": True})
                finally:
                    ex2.close()
            except Exception as e:      # shrinking is best effort
                det["shrink_error"] = str(e)
        rep.violation("C15 %s oracle fails on the implementation: %s" % (kind, det["why"]),
                      {"replay": det, "family": "stream", "others": [d for _, d in new_fail[1:6]], "lean_errors": errs[:5]})
    elif not ok:
        rep.violation("proof obligations of C15 no longer check", {"theorem_errors": errs[:10], "log_tail": log[-3000:]}, no_input=True)
    elif ex.disagreements:
        rep.violation("correspondence Ferrous.Stream.Code/Cmd vs implementation broke (%d disagreements) but the property oracle holds on everything explored" % len(ex.disagreements),
                      {"correspondence": "Code.{addWithId,addAuto,range,rangeAfter,delete,trimByCount,trimByMinId,parseId}, Cmd.handle vs ferrous::storage::stream::Stream and commands::streams::handle_x*",
                       "disagreements": ex.disagreements[:10]}, no_input=True)
    rep.extra["model_disagreements"] = len(ex.disagreements)
    rep.extra["oracle_failures"] = len(ex.oracle_failures)
    rep.extra["clock_bracket_misses"] = ex.bracket_miss


def main(tier, seed):
    rep = Report("C15", tier, seed)
    rep.rule = ("histories of templates over one Stream object (kinds: small explicit IDs with dense reads; bursts of *; explicit ID ahead of the "
                "clock then *; top ahead of the clock (by ms / an hour / ages / at the u64 border) with refused explicit adds of every kind interleaved with *, and removals of the top; emptied by XDEL/XTRIM then reads and adds; sequence numbers at 2^64-1) with bounds below/on/between/above the present IDs, "
                "COUNT none/0/1/n/2^64-1, both directions, reversed bounds; the whole state (atomics, all entries through range and range_after) "
                "compared after every mutation; the same through handle_x* over a StorageEngine with well-formed, malformed and overflowing ID/COUNT/MAXLEN "
                "texts; distinct = (operation, bound classes, COUNT class, direction, result size, outcome) tuples reached")
    rep.assumptions = [
        "slice::binary_search_by is modelled by its documented contract on strictly sorted slices (proved equal to the halving loop of core ≥ 1.82 in Lean); after the sequence wrap the vector is unsorted and the model stops",
        "single-threaded use: compare_exchange_weak in generate_next_atomic succeeds (no spurious failure on x86-64; on failure the code falls back to seq+1, also greater)",
        "the wall clock is an input of the model: the clock reading is inferred from the returned millisecond; gross departures from the call's wall-clock bracket (>1 s) are reported, 1 ms cache lag is tolerated",
        "field maps are compared as sorted maps (HashMap in the code: duplicate names collapse, order is lost)",
        "command arguments are ASCII apart from a few invalid-UTF-8 probes; to_uppercase/from_utf8_lossy are modelled on ASCII",
        "atomic counters are modelled as Nat; XLEN theorem shows the subtraction never underflows",
        "Id.isTop models `last_id == StreamId::max()` as `ms+1 >= 2^64 && seq+1 >= 2^64` (equal for u64 halves: theorem isTop_iff_eq_max)",
        "Stream::add_auto at the very top of the ID space (saturating, repaired tree) is compared with the Code model only: StorageEngine::xadd refuses before calling it",
    ]
    quirks = source_quirks()
    rep.extra["source_switches"] = dict(zip(SWITCH_NAMES, quirks))
    ok, log, errs = proof_phase(rep, families=["stream"])
    build_harness("stream")
    findings = load_findings()
    ex = Exec(rep, quirks)
    hist_templates = {}
    try:
        corpus(ex)
        r = Rng(seed)
        scale = 15 if tier == "thorough" else 1
        kinds = ["small"] * 5 + ["auto"] * 3 + ["future"] * 2 + ["emptied"] * 2 + ["wrap"] + ["ahead"] * 3
        for h in range(320 * scale):
            kind = kinds[h % len(kinds)]
            ts = gen_history(r.fork("h%d" % h), kind)
            hist_templates[h] = ts
            n0 = len(ex.oracle_failures)
            run_history(ex, ts)
            for k, d in ex.oracle_failures[n0:]:
                d["hist"] = h
            rep.count("history." + kind)
            if h < 4:
                rep.sample({"history": kind, "ops": ex.trace[:12]})
        exhaustive_small(ex)
        for h in range(200 * scale):
            kind = "cmd-ahead" if h % 5 == 3 else "cmd-restart" if h % 5 == 4 else "cmd"
            gen = {"cmd": gen_cmd_history, "cmd-ahead": gen_cmd_ahead_history, "cmd-restart": gen_cmd_restart_history}[kind]
            ts = gen(r.fork("c%d" % h), h)
            if h and h % 150 == 0:
                # every restart leaves an engine (and its sweeper thread) behind in the driver process: start a fresh one now and then
                ex.impl.close()
                ex.impl = impl_driver("stream")
            run_history(ex, ts, level="cmd")
            rep.count("history." + kind)
            if h < 2:
                rep.sample({"history": "cmd", "ops": [" ".join(unhx(x).decode("latin1") for x in l.split()[1:]) for l in ex.trace[:10]]})
        if tier == "thorough":
            debug_arith_witness(rep, ex)
    finally:
        ex.close()
    rep.traces_validated = rep.evaluations
    verdict(rep, ex, findings, ok, log, errs, hist_templates, lambda: Exec(Report("C15", "shrink", seed), quirks))
    return rep.finish()


def replay(path):
    """Re-execute a replay file (raw operation lines) against the implementation built from the current tree."""
    obj = json.load(open(path))
    rp = obj.get("replay") or obj
    rep = Report("C15", "replay", obj.get("seed", 0))
    build_driver("stream")
    build_harness("stream")
    ex = Exec(rep, source_quirks())
    try:
        level = rp.get("level", "stream")
        if rp.get("templates") and level == "stream":
            run_history(ex, [tuple(t) if not isinstance(t, tuple) else t for t in _detuple(rp["templates"])])
        else:
            ex.begin(level)
            try:
                for line in rp.get("ops", []):
                    ws = line.split()
                    if level == "cmd":
                        ex.cmd([unhx(x) for x in ws[1:]])
                    elif ws[0] == "parseid":
                        a = ex.impl.ask(line)
                        c, s = ex.ask_model(line)
                        if a != s:
                            ex.record("parseid", "ID text: implementation reads %s, the property prescribes %s" % (a, s), line, a, c, s)
                    else:
                        ex.raw(line)
            except Fail:
                pass
    finally:
        ex.close()
    for k, d in ex.oracle_failures:
        print("oracle failure [%s] at %s\n  impl: %s\n  code: %s\n  spec: %s" % (k, d["failing_op"], d["impl"], d["code"], d["spec"]))
    for d in ex.disagreements:
        print("model disagreement at %s\n  impl: %s\n  code: %s" % (d["failing_op"], d["impl"], d["code"]))
    findings = load_findings()
    new = [(k, d) for k, d in ex.oracle_failures if not classify(k, d, findings)]
    if new:
        print("VIOLATION property=C15 replay=%s" % path)
        return 1
    print("replay: %d oracle failures (all listed findings), %d model disagreements" % (len(ex.oracle_failures), len(ex.disagreements)))
    return 1 if ex.disagreements else 0


def _detuple(ts):
    """JSON turned template tuples into lists (and byte strings cannot be stored): templates in replay files keep
    fields as [hexname, hexvalue] pairs"""
    out = []
    for t in ts:
        t = list(t)
        if t[0] == "addid":
            t[2] = [(unhx(k), unhx(v)) for k, v in t[2]]
        elif t[0] == "auto":
            t[1] = [(unhx(k), unhx(v)) for k, v in t[1]]
        out.append(tuple(t))
    return out
