"""Command generators for the key-space machine (C01, C03): structured, mostly valid commands over a
small colliding universe, plus a malformed share (wrong arity, bad numbers, wrong types)."""

KEYS = [b"k1", b"k2", b"s2", b"l", b"s", b"h", b"z", b"x", b"miss", b"\xffb\r\n\x00", b""]
STR_VALS = [b"", b"a", b"0", b"1", b"-1", b"10", b"-10", b"9223372036854775807", b"-9223372036854775808", b"9223372036854775806",
            b"abc", b"hello world", b"a\r\nb\x00\xff", b"x" * 70, b" 5", b"+5", b"007", b"3.0", b"1e3", b"-", b"12abc"]
INTS = [0, 1, -1, 2, -2, 3, -3, 4, 5, -5, 10, -10, 11, -11, 69, 70, 71, -70, -71, 100, -100, 2 ** 31, -2 ** 31,
        2 ** 63 - 1, -2 ** 63, 2 ** 63 - 2, -2 ** 63 + 1]
BAD_INTS = [b"", b"abc", b"1.5", b"9223372036854775808", b"-9223372036854775809", b" 1", b"1 ", b"0x10", b"--1", b"99999999999999999999"]
ELEMS = [b"a", b"b", b"c", b"a", b"", b"\r\n", b"x" * 70, b"1", b"-1"]
FIELDS = [b"f1", b"f2", b"f3", b"", b"\xff"]
PATTERNS = [b"*", b"k*", b"k?", b"[kl]*", b"?", b"*1", b"k[1-2]", b"\\k1", b"miss", b"", b"k[^1]", b"**", b"*\x00",
            # patterns whose match needs the star to be extended after a partial match of what follows it
            b"*ab", b"*ssip*", b"a*b*b", b"*foo", b"*b\xffz", b"x*oo", b"*a?b", b"*[a-b]b",
            # literal-star-literal where the text after the star overlaps the tail of the text before it: a matcher that
            # lets the star give back characters the prefix already consumed reports FALSE POSITIVES (pattern needs more text than there is)
            b"ab*bX", b"user:*:x", b"*sess*sion", b"aa*a", b"a*a", b"ab*ab", b"x?*?x", b"k*k1", b"[a]b*b",
            # character classes at the edges of Redis's stringmatchlen: reversed range, escapes inside a class, a class that is
            # not closed, `a-]` (a range up to `]`), the empty and the lone class
            b"[c-a]", b"a[c-a]", b"[^c-a]*", b"[\\]]", b"[a\\]]", b"[\\\\]", b"[a\\-c]", b"[ab", b"a[a-b", b"[^a", b"[^", b"[", b"[]", b"[]a]",
            b"[a-]", b"[a-]b]", b"[]-a]", b"*[b-a]", b"[\\", b"a[\\"]
GLOB_KEYS = [b"aab", b"abab", b"mississippi", b"xfofoo", b"b\xff\xffz", b"axb",
             b"abX", b"abbX", b"user:x", b"user::x", b"session", b"sesssion", b"aa", b"aaa", b"a", b"ab", b"abab", b"xax", b"xx", b"k1", b"kk1",
             b"b", b"c", b"]", b"-", b"\\", b"[", b"a]", b"^", b"ac", b"`", b"_"]
TTLS = [b"100", b"1000", b"100000"]


# texts that are almost, or only just, decimal 64-bit integers: stored as values and given as numeric arguments
NUM_TEXTS = [b" 5", b"5 ", b"\t7", b"12\n", b"\r3", b"+5", b"007", b"-0", b"+0", b"0x10", b"1e3", b"3.0", b"", b"-", b"+", b"5\x00", b"\xef\xbc\x95",
             b"9223372036854775807", b"-9223372036854775808", b"9223372036854775808", b"-9223372036854775809", b"00000000000000000000001"]


def string_corpus():
    """directed histories that run before the random ones: every almost-number as a stored value and as an argument"""
    out = []
    for v in NUM_TEXTS:
        for cmd in ([b"INCR", b"k1"], [b"DECR", b"k1"], [b"INCRBY", b"k1", b"1"], [b"DECRBY", b"k1", b"1"], [b"APPEND", b"k1", v]):
            out.append(("stored-num-text", [[b"SET", b"k1", v], cmd, [b"GET", b"k1"]]))
        cmds = [[b"INCRBY", b"k1", v], [b"DECRBY", b"k1", v], [b"GETRANGE", b"k1", v, b"-1"], [b"GETRANGE", b"k1", b"0", v], [b"SETRANGE", b"k1", v, b"zz"],
                [b"SET", b"k1", b"w", b"EX", v], [b"EXPIRE", b"k1", v], [b"SETEX", b"k1", v, b"w"]]
        if v not in (b"+5", b"007", b"00000000000000000000001"):
            # a time of a few milliseconds would race with the next command: millisecond forms only with texts that are refused, non-positive or huge
            cmds += [[b"SET", b"k1", b"w", b"PX", v], [b"PEXPIRE", b"k1", v], [b"PSETEX", b"k1", v, b"w"]]
        for cmd in cmds:
            out.append(("arg-num-text", [[b"SET", b"k1", b"10"], cmd, [b"GET", b"k1"], [b"PERSIST", b"k1"]]))
        # the option combinations of SET select different storage functions (set_string_ex / set_string_nx_ex / …)
        for flag, pre in ((b"NX", []), (b"NX", [[b"SET", b"k1", b"10"]]), (b"XX", []), (b"XX", [[b"SET", b"k1", b"10"]])):
            out.append(("arg-num-text-set-flags", pre + [[b"SET", b"k1", b"w", b"EX", v, flag], [b"GET", b"k1"], [b"TTL", b"k1"], [b"PERSIST", b"k1"]]))
    # every pattern against every glob key, in one store
    out.append(("glob-grid", [[b"SET", k, b"g"] for k in GLOB_KEYS + KEYS[:3]] + [[b"KEYS", p] for p in PATTERNS]))
    return out


def coll_corpus():
    out = []
    # LREM: which occurrences go, seen through the order of what is left (count > 0 from the head, < 0 from the tail, 0 all)
    base = [b"RPUSH", b"l", b"x", b"a", b"x", b"b", b"x", b"c", b"x"]
    for cnt in (b"1", b"2", b"3", b"4", b"5", b"-1", b"-2", b"-3", b"-4", b"-5", b"0", b"-9223372036854775808", b"9223372036854775807"):
        out.append(("lrem-order", [base, [b"LREM", b"l", cnt, b"x"], [b"LRANGE", b"l", b"0", b"-1"], [b"LREM", b"l", cnt, b"a"], [b"LRANGE", b"l", b"0", b"-1"]]))
    # counts at 0 / 1 / length / beyond, with and without the optional count: reply SHAPE (bulk vs array, nil vs empty array)
    for cmd, setup in ((b"SPOP", [b"SADD", b"s", b"m"]), (b"SRANDMEMBER", [b"SADD", b"s", b"m"]), (b"LPOP", [b"RPUSH", b"l", b"m"]), (b"RPOP", [b"RPUSH", b"l", b"m"])):
        key = setup[1]
        for cnt in (None, b"0", b"1", b"2", b"-1"):
            tail = [] if cnt is None else [cnt]
            out.append(("count-shape", [setup, [cmd, key] + tail, [b"EXISTS", key], [cmd, key] + tail, [cmd, b"miss"] + tail]))
    # indexes at and beyond both ends for every index-taking list command
    for idx in (b"0", b"2", b"3", b"-1", b"-3", b"-4", b"-5", b"100", b"-100", b"9223372036854775807", b"-9223372036854775808"):
        out.append(("index-ends", [[b"RPUSH", b"l", b"a", b"b", b"c"], [b"LSET", b"l", idx, b"Z"], [b"LRANGE", b"l", b"0", b"-1"], [b"LINDEX", b"l", idx], [b"LRANGE", b"l", idx, idx], [b"LTRIM", b"l", idx, b"-1"], [b"LRANGE", b"l", b"0", b"-1"]]))
    for v in NUM_TEXTS:
        out.append(("stored-num-text", [[b"HSET", b"h", b"f1", v], [b"HINCRBY", b"h", b"f1", b"1"], [b"HGET", b"h", b"f1"]]))
        out.append(("arg-num-text", [[b"HSET", b"h", b"f1", b"1"], [b"HINCRBY", b"h", b"f1", v], [b"HGET", b"h", b"f1"]]))
        for cmd in ([b"LINDEX", b"l", v], [b"LRANGE", b"l", v, b"-1"], [b"LRANGE", b"l", b"0", v], [b"LTRIM", b"l", v, b"-1"], [b"LTRIM", b"l", b"0", v],
                    [b"LSET", b"l", v, b"zz"], [b"LREM", b"l", v, b"a"], [b"LPOP", b"l", v], [b"RPOP", b"l", v]):
            out.append(("arg-num-text", [[b"RPUSH", b"l", b"a", b"b", b"a", b"c"], cmd, [b"LRANGE", b"l", b"0", b"-1"]]))
        for cmd in ([b"SPOP", b"s", v], [b"SRANDMEMBER", b"s", v]):
            out.append(("arg-num-text", [[b"SADD", b"s", b"a", b"b", b"c"], cmd, [b"SCARD", b"s"]]))
    return out


def code_quirks():
    """Switches of the Lean model that reproduce the current code (kept next to the generators;
    each is tied to an entry of KNOWN_FINDINGS.json)."""
    import json, os
    p = os.path.join(os.path.dirname(os.path.dirname(os.path.abspath(__file__))), "KS_QUIRKS.json")
    return json.load(open(p)) if os.path.exists(p) else {}


class Gen:
    def __init__(self, r, vocab):
        self.r = r
        self.vocab = vocab
        self.last_shape = ""

    def key(self):
        r = self.r
        return r.choice(KEYS[:9]) if r.chance(14, 15) else r.choice(KEYS[9:])

    def val(self):
        return self.r.choice(STR_VALS)

    def intarg(self):
        r = self.r
        if r.chance(1, 12):
            self.last_shape += "badint"
            return r.choice(BAD_INTS)
        v = r.choice(INTS)
        self.last_shape += "neg" if v < 0 else ("big" if abs(v) > 1000 else "small")
        return str(v).encode()

    def setup(self):
        """keys of every type, so that every command meets every existing type"""
        r = self.r
        out = [[b"SET", b"k1", self.val()]]
        if r.chance(1, 2):
            out.append([b"SET", b"k2", self.val(), b"EX", r.choice(TTLS)])
        out.append([b"RPUSH", b"l"] + [r.choice(ELEMS) for _ in range(r.range(1, 5))])
        out.append([b"SADD", b"s"] + [r.choice(ELEMS) for _ in range(r.range(1, 4))])
        hs = []
        for _ in range(r.range(1, 3)):
            hs += [r.choice(FIELDS), r.choice(STR_VALS)]
        out.append([b"HSET", b"h"] + hs)
        out.append([b"ZADD", b"z", b"1", b"m"])
        out.append([b"XADD", b"x", b"1-1", b"f", b"v"])
        r.shuffle(out)
        out = out[:r.range(3, len(out))]
        if "KEYS" in self.vocab and r.chance(1, 2):
            out += [[b"SET", k, b"g"] for k in GLOB_KEYS if r.chance(2, 3)]
        return out

    def command(self):
        r = self.r
        self.last_shape = ""
        name = r.choice(self.vocab)
        args = getattr(self, "g_" + name.lower())()
        if r.chance(1, 25):
            # malformed: wrong arity
            self.last_shape = "arity"
            if r.chance(1, 2) and len(args) > 1:
                args = args[:-1]
            else:
                args = args + [r.choice(STR_VALS)]
        if r.chance(1, 10):
            name = name.lower() if r.chance(1, 2) else name.capitalize()
        return [name.encode()] + args

    # ---- strings / generic
    def g_set(self):
        r = self.r
        a = [self.key(), self.val()]
        k = r.below(12)
        opts = []
        if k in (0, 1):
            opts = [r.choice([b"NX", b"nx"])]
        elif k in (2, 3):
            opts = [r.choice([b"XX", b"xx"])]
        elif k == 4:
            opts = [b"EX", r.choice(TTLS)]
        elif k == 5:
            opts = [b"PX", r.choice([b"100000", b"9999999"])]
        elif k == 6:
            opts = [r.choice([b"NX", b"XX"]), r.choice([b"EX", b"PX"]), b"100000"]
            r.shuffle(opts) if False else None
        elif k == 7:
            opts = r.choice([[b"NX", b"XX"], [b"EX", b"0"], [b"EX", b"-1"], [b"EX", b"abc"], [b"EX"], [b"FOO"], [b"EX", b"100", b"PX", b"100000"], [b"PX", b"0"]])
            self.last_shape = "badopt"
        elif k == 8:
            opts = [b"EX", b"100", r.choice([b"NX", b"XX"])]
        self.last_shape += "opt%d" % len(opts)
        return a + opts

    def g_get(self): return [self.key()]
    def g_mget(self): return [self.key() for _ in range(self.r.range(1, 4))]
    def g_mset(self):
        n = self.r.range(1, 3)
        out = []
        for _ in range(n):
            out += [self.key(), self.val()]
        return out
    def g_getset(self): return [self.key(), self.val()]
    def g_setnx(self): return [self.key(), self.val()]
    def g_setex(self):
        t = self.r.choice(TTLS + [b"0", b"-1", b"abc"]) if self.r.chance(1, 5) else self.r.choice(TTLS)
        return [self.key(), t, self.val()]
    def g_psetex(self):
        t = self.r.choice([b"0", b"-1", b"abc"]) if self.r.chance(1, 5) else self.r.choice([b"100000", b"9999999"])
        return [self.key(), t, self.val()]
    def g_append(self): return [self.key(), self.val()]
    def g_strlen(self): return [self.key()]
    def g_getrange(self): return [self.key(), self.intarg(), self.intarg()]
    def g_setrange(self):
        r = self.r
        off = r.choice([b"0", b"1", b"2", b"5", b"69", b"70", b"75", b"-1", b"536870912", b"4611686018427387904", b"abc"])
        self.last_shape = "off" + off.decode()[:3]
        return [self.key(), off, r.choice([b"", b"Z", b"zz", b"\x00\xff"])]
    def g_incr(self): return [self.key()]
    def g_decr(self): return [self.key()]
    def g_incrby(self): return [self.key(), self.intarg()]
    def g_decrby(self): return [self.key(), self.intarg()]
    def g_del(self): return [self.key() for _ in range(self.r.range(1, 3))]
    def g_exists(self): return [self.key() for _ in range(self.r.range(1, 3))]
    def g_type(self): return [self.key()]
    def g_rename(self): return [self.key(), self.key()]
    def g_renamenx(self): return [self.key(), self.key()]
    def g_keys(self):
        p = self.r.choice(PATTERNS)
        self.last_shape = p.decode("latin-1")[:4]
        return [p]
    def g_dbsize(self): return []
    def g_randomkey(self): return []
    def g_flushdb(self): return []
    def g_flushall(self): return []
    def g_expire(self):
        t = self.r.choice(TTLS + [b"0", b"-1", b"abc"]) if self.r.chance(1, 4) else self.r.choice(TTLS)
        self.last_shape = "t" + t.decode()[:2]
        return [self.key(), t]
    def g_pexpire(self):
        t = self.r.choice([b"100000", b"0", b"-5"]) if self.r.chance(1, 4) else b"100000"
        return [self.key(), t]
    def g_ttl(self): return [self.key()]
    def g_pttl(self): return [self.key()]
    def g_persist(self): return [self.key()]

    # ---- lists
    def elem(self): return self.r.choice(ELEMS)
    def g_lpush(self): return [self.key()] + [self.elem() for _ in range(self.r.range(1, 3))]
    def g_rpush(self): return [self.key()] + [self.elem() for _ in range(self.r.range(1, 3))]
    def g_lpop(self): return [self.key()]
    def g_rpop(self): return [self.key()]
    def g_llen(self): return [self.key()]
    def g_lrange(self): return [self.key(), self.intarg(), self.intarg()]
    def g_lindex(self): return [self.key(), self.intarg()]
    def g_lset(self): return [self.key(), self.intarg(), self.elem()]
    def g_ltrim(self): return [self.key(), self.intarg(), self.intarg()]
    def g_lrem(self): return [self.key(), self.intarg(), self.elem()]

    # ---- sets
    def g_sadd(self): return [self.key()] + [self.elem() for _ in range(self.r.range(1, 4))]
    def g_srem(self): return [self.key()] + [self.elem() for _ in range(self.r.range(1, 3))]
    def g_smembers(self): return [self.key()]
    def g_sismember(self): return [self.key(), self.elem()]
    def g_scard(self): return [self.key()]
    def setkeys(self):
        # `nokey` is never created by any generator: a key that is missing for certain
        ks = [self.r.choice([b"s", b"s2", b"s", b"s2", b"miss", b"nokey", b"nokey", b"k1"]) for _ in range(self.r.range(1, 3))]
        self.last_shape = "".join("w" if k == b"k1" else ("m" if k in (b"miss", b"nokey") else "s") for k in ks)
        return ks
    def g_sunion(self): return self.setkeys()
    def g_sinter(self): return self.setkeys()
    def g_sdiff(self): return self.setkeys()
    def g_spop(self):
        if self.r.chance(1, 2):
            return [self.key()]
        c = self.r.choice([b"0", b"1", b"2", b"3", b"10", b"-1", b"abc"])
        self.last_shape = "c" + c.decode()
        return [self.key(), c]
    def g_srandmember(self):
        if self.r.chance(1, 2):
            return [self.key()]
        c = self.r.choice([b"0", b"1", b"2", b"10", b"-1", b"-3", b"-10", b"abc"])
        self.last_shape = "c" + c.decode()
        return [self.key(), c]

    # ---- hashes
    def field(self): return self.r.choice(FIELDS)
    def pairs(self):
        out = []
        for _ in range(self.r.range(1, 3)):
            out += [self.field(), self.val()]
        return out
    def g_hset(self): return [self.key()] + self.pairs()
    def g_hmset(self): return [self.key()] + self.pairs()
    def g_hget(self): return [self.key(), self.field()]
    def g_hmget(self): return [self.key()] + [self.field() for _ in range(self.r.range(1, 3))]
    def g_hgetall(self): return [self.key()]
    def g_hdel(self): return [self.key()] + [self.field() for _ in range(self.r.range(1, 3))]
    def g_hlen(self): return [self.key()]
    def g_hexists(self): return [self.key(), self.field()]
    def g_hkeys(self): return [self.key()]
    def g_hvals(self): return [self.key()]
    def g_hincrby(self): return [self.key(), self.field(), self.intarg()]


STRING_VOCAB = ["SET", "SET", "GET", "GET", "MGET", "MSET", "GETSET", "SETNX", "SETEX", "PSETEX", "APPEND", "STRLEN", "GETRANGE", "GETRANGE",
                "SETRANGE", "INCR", "DECR", "INCRBY", "INCRBY", "DECRBY", "DEL", "EXISTS", "TYPE", "RENAME", "RENAMENX", "KEYS", "DBSIZE",
                "RANDOMKEY", "FLUSHDB", "FLUSHALL", "EXPIRE", "TTL", "PTTL", "PERSIST", "RPUSH", "SADD", "HSET"]
COLL_VOCAB = ["LPUSH", "RPUSH", "LPOP", "RPOP", "LLEN", "LRANGE", "LRANGE", "LINDEX", "LSET", "LTRIM", "LTRIM", "LREM", "LREM",
              "SADD", "SADD", "SREM", "SMEMBERS", "SISMEMBER", "SCARD", "SUNION", "SINTER", "SDIFF", "SPOP", "SRANDMEMBER",
              "HSET", "HSET", "HMSET", "HGET", "HMGET", "HGETALL", "HDEL", "HLEN", "HEXISTS", "HKEYS", "HVALS", "HINCRBY", "HINCRBY",
              "DEL", "TYPE", "SET", "EXISTS"]
