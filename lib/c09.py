"""C09 — an RDB snapshot restores exactly the saved dataset.

Deciding artefact: lean/FerrousSpec/Props/C09.lean (length forms, strings, every value type, the
whole snapshot: `decSnapshot (saveSnapshot d t) t' = live t' d` for all datasets, with `_partial`
variants and witness lemmas for the three deviations of the pinned tree).  The third deviation — a
list headed by the stream marker string is read back as a stream (finding F23b) — is repaired by an
escape element; `source_facts` reads both halves of that rule from rdb.rs (listEscapeRead /
listEscapeWrite), the Lean drivers are configured with them, and the check follows the tree: without
the rule the shape is the known finding, with it every list must round-trip.

This module ties `Ferrous.Rdb.encSnapshot/decSnapshot` to the real `RdbEngine::{save,load}` +
`StorageEngine` (in-process, harness/src/bin/impl_rdb.rs) and evaluates the property's own oracle
on the implementation:

  oracle (the property)  : dataset -> real engine -> real SAVE -> [downtime] -> real load into a
                           fresh engine -> dump  must equal  live(t_load, dataset)
  correspondence (i)     : real file -> Lean `decSnapshot`            must equal the real loader's result
  correspondence (bytes) : Lean `encSnapshot (decSnapshot file)`      must equal the real file byte for byte
                           (file order kept, so hash-map order never matters)
  correspondence (ii)    : Lean `encSnapshot dataset` -> real loader  must equal Lean `decSnapshot` of it
  corrupted files        : Lean `decSnapshot` vs real loader on mutated files (ok/err + result)
  oracle over TCP        : the real server: commands, SAVE, stop, start on the same directory, point reads + DBSIZE of all 16 databases
                           - datasets of every type in all databases (tcp-restart);
                           - a few hundred keys a database (several per storage shard), a share of them past their deadline but still
                             stored at SAVE time because nobody touched them, sweeper paused / running (tcp-expired-at-save; the same
                             in-process: expired-before-save-many-keys);
                           - one server life with SEVERAL saves and restarts, the dataset changing in between to a subset, to other
                             databases, to nothing, with unsaved changes: every restart shows exactly the dataset at the last SAVE that
                             answered OK (tcp-history; in-process: the empty dataset must produce a dump file);
                           - thorough: a first database that takes the loader long (400 000 keys) before keys with TTLs in later
                             databases — every deadline to clock granularity however long the load has been going on (bigfile)

Time: the real code cannot be given a clock, so every comparison uses the wall-clock instants the
driver measured (deadline, save, load); a key whose deadline is within TOL ms of the load instant
is `indeterminate` and accepted either way, so no verdict depends on a coincidence.
"""
import struct

from common import *

FAMILY = "rdb"
MARKER = b"__FERROUS_STREAM_MARKER__"
ESCAPE = b"__FERROUS_LIST_ESCAPE__"       # the escape element of the LIST encoding (Model/Rdb.lean `escape`); the tree may not know it yet
TOL = 40                      # ms: clock granularity (the stamp is floor(now)+floor(ttl)) plus scheduling noise between two clock reads
PENDING = os.path.join(VERIF, "pending_repo_patches", "C09_findings.json")
BIG_UNORDERED = {"quick": 1200, "thorough": 17000}   # set/hash/zset above this many members are not decoded by the Lean model (its association-list maps are quadratic)


# ------------------------------------------------------------------ source facts (tie (a), done here: translator is shared)
def source_facts():
    rdb = open(os.path.join(REPO, "src", "storage", "rdb.rs"), encoding="utf-8", errors="replace").read()
    rdb_nc = re.sub(r"//[^\n]*", "", rdb)

    def body(name):
        m = re.search(r"\bfn\s+" + name + r"\b[^{;]*\{", rdb_nc)
        if not m:
            return None
        i, depth = m.end(), 1
        while i < len(rdb_nc) and depth:
            depth += {"{": 1, "}": -1}.get(rdb_nc[i], 0)
            i += 1
        return rdb_nc[m.end():i - 1]

    exp = body("read_key_value_with_expiry")
    typ = body("read_key_value_with_type")
    if typ is not None and body("read_record") is not None:
        typ += "\n" + body("read_record")          # since 100ec1e the record is read by read_record, wrapped by read_key_value_with_type
    if exp is None or typ is None:
        raise InternalError("rdb.rs: read_key_value_with_expiry / read_key_value_with_type not found")
    wkv = body("write_key_value")
    if wkv is None:
        raise InternalError("rdb.rs: write_key_value not found")
    # the escape rule for lists headed by the stream marker (finding F23b).  The escape string is the byte literal itself or a
    # `const NAME: &[u8] = b"…"` holding it; a function mentions the rule when it names the string (or a const holding it) or calls a
    # helper `fn` of this file whose body does (e.g. `list_needs_escape`).
    esc_lit = r'b"' + ESCAPE.decode() + '"'
    esc_names = [esc_lit] + [r"\b" + n + r"\b" for n in re.findall(r"\b(?:const|static)\s+(\w+)\s*:[^=;]*=\s*" + esc_lit, rdb_nc)]
    esc_re = "|".join(esc_names)
    helpers = [n for n in re.findall(r"\bfn\s+(\w+)\b", rdb_nc)
               if n not in ("write_key_value", "read_key_value_with_type", "read_record", "generate_rdb_bytes") and re.search(esc_re, body(n) or "")]

    def mentions_escape(b):
        return bool(b) and bool(re.search(esc_re, b) or any(re.search(r"\b" + h + r"\s*\(", b) for h in helpers))
    # the loader's half: under the LIST opcode the first element is compared with the escape string (and then not pushed)
    esc_read = bool(re.search(r"first_element\s*[!=]=\s*(?:" + esc_re + r")|(?:" + esc_re + r")\s*[!=]=\s*first_element", typ)) or \
        (mentions_escape(typ) and not re.search(esc_re, typ))
    facts = {
        # proposed fix: the expired pair is deleted again (or skipped) instead of being loaded with ttl None
        "dropExpired": bool(re.search(r"\.delete\s*\(", exp)),
        # proposed fix: the marker-only list re-creates the empty stream
        # a stream without entries comes back: the marker-only record creates the key (ad4770a) AND the last-ID pseudo entry does
        # (3c61a3a: xrestore_last_id) — the model has one switch for "the loader restores emptied streams", pessimistic unless both are there
        "keepEmptyStream": bool(re.search(r"empty_stream\s*\(|Stream::new\s*\(", typ)) and bool(re.search(r"xrestore_last_id\s*\(", typ)),
        # proposed fix (F23b), loader side: a first element equal to the escape string is dropped, the rest is a plain list
        "listEscapeRead": esc_read,
        # proposed fix (F23b), writer side: write_key_value writes the escape string in front of a list headed by marker/escape
        "listEscapeWrite": mentions_escape(wkv) and bool(re.search(r"write_string\s*\(\s*(?:" + esc_re + r")\s*\)", wkv)),
        # the replication encoder writes the same pairs: it must apply the rule iff write_key_value does
        "listEscapeRepl": mentions_escape(body("generate_rdb_bytes")),
        "marker_sites": len(re.findall(r'b"' + MARKER.decode() + '"', rdb_nc)),
        # the model's decSnapshot takes ONE instant per key — the instant that key is loaded: the loader must read the wall clock
        # where it turns the key's absolute deadline into a TTL (a clock read once for the whole load makes every deadline
        # slip by the time spent on the keys before it, which only a very large file shows)
        "clockPerKey": bool(re.search(r"SystemTime::now\(\)", exp)) or
                       (bool(re.search(r"Self::time_left\(", exp)) and bool(re.search(r"SystemTime::now\(\)", body("time_left") or ""))),
        # … and the remaining time is measured where the deadline is APPLIED (after the value has been read and rebuilt), not before
        "clockAtApply": bool(re.search(r"Self::time_left\(", body("expire_at") or "")) and bool(re.search(r"SystemTime::now\(\)", body("time_left") or "")),
        # read_string reads in bounded chunks (since d4d929f) instead of vec![0u8; len]: the allocation bound itself is C10's
        # (loader_alloc_bounded); here it only decides which allocation trace the real loader is compared with
        "boundedRead": bool(re.search(r"read_to_end|\.take\s*\(", body("read_string") or "")) and not re.search(r"vec!\s*\[\s*0u8\s*;\s*len\s*\]", body("read_string") or ""),
    }
    cargo = open(os.path.join(REPO, "Cargo.toml")).read()
    m = re.search(r'^version\s*=\s*"([^"]+)"', cargo, re.M)
    if not m:
        raise InternalError("Cargo.toml: version not found")
    facts["version"] = m.group(1)
    return facts


def cfg_line(facts):
    """the Lean drivers' `cfg` request for this tree (families rdb and rdbsave; also used by lib/c10.py)"""
    return "cfg %s %d %d %d %d" % (hx(facts["version"].encode()), facts["dropExpired"], facts["keepEmptyStream"],
                                   facts["listEscapeRead"], facts["listEscapeWrite"])


def escape_rule(facts):
    """both halves of the escape rule are in the tree: finding F23b is repaired"""
    return bool(facts["listEscapeRead"] and facts["listEscapeWrite"])


# ------------------------------------------------------------------ datasets
# dataset = [(db, [entry])]; entry = {"key": bytes, "dl": int|None, "ty": one of SLTHZX, "val": ...}
#   S bytes | L [bytes] | T [bytes] | H [(f, v)] | Z [(member, bits)] | X [(ms, seq, [(f, v)])]
def hexlist(xs):
    return "|".join(hx(x) for x in xs) if xs else "."


def tokens(ds, dl_of=None):
    """dataset -> token string; `dl_of(db, entry)` overrides the deadline column."""
    out = []
    for db, es in ds:
        out.append("D %d" % db)
        for e in es:
            dl = e["dl"] if dl_of is None else dl_of(db, e)
            head = "K %s %s " % (hx(e["key"]), "-" if dl is None else str(dl))
            t, v = e["ty"], e["val"]
            if t == "S":
                out.append(head + "S " + hx(v))
            elif t in "LT":
                out.append(head + t + " " + hexlist(v))
            elif t == "H":
                out.append(head + "H " + hexlist([x for p in v for x in p]))
            elif t == "Z":
                out.append(head + "Z " + hexlist([x for m, b in v for x in (m, struct.pack("<Q", b))]))
            elif t == "X":
                out.append(head + "X %d" % len(v) + "".join(" %d-%d %s" % (ms, sq, hexlist([x for p in fs for x in p])) for ms, sq, fs in v))
    return " ".join(out) if out else "."


def unhexlist(s):
    return [] if s == "." else [unhx(x) for x in s.split("|")]


def pairs(xs):
    if len(xs) % 2:
        raise ValueError("odd flat list")
    return [(xs[i], xs[i + 1]) for i in range(0, len(xs), 2)]


def parse(ts):
    """token list -> dataset (order kept)"""
    ds, i = [], 0
    if ts == ["."]:
        return ds
    while i < len(ts):
        if ts[i] == "D":
            ds.append((int(ts[i + 1]), []))
            i += 2
        elif ts[i] == "K":
            key, dl, t = unhx(ts[i + 1]), (None if ts[i + 2] == "-" else int(ts[i + 2])), ts[i + 3]
            i += 4
            if t == "S":
                v = unhx(ts[i]); i += 1
            elif t in "LT":
                v = unhexlist(ts[i]); i += 1
            elif t == "H":
                v = pairs(unhexlist(ts[i])); i += 1
            elif t == "Z":
                v = [(m, struct.unpack("<Q", b)[0]) for m, b in pairs(unhexlist(ts[i]))]; i += 1
            elif t == "X":
                n = int(ts[i]); i += 1
                v = []
                for _ in range(n):
                    ms, sq = ts[i].split("-")
                    v.append((int(ms), int(sq), pairs(unhexlist(ts[i + 1]))))
                    i += 2
            else:
                raise ValueError("type " + t)
            ds[-1][1].append({"key": key, "dl": dl, "ty": t, "val": v})
        else:
            raise ValueError("token " + ts[i])
    return ds


def canon_val(t, v):
    if t == "S":
        return v
    if t == "L":
        return tuple(v)
    if t == "T":
        return tuple(sorted(v))
    if t in "HZ":
        return tuple(sorted(v))
    return tuple((ms, sq, tuple(sorted(fs))) for ms, sq, fs in v)


def canon(ds):
    """{(db, key): (deadline, type, canonical value)} — key order, member order, field order forgotten"""
    out = {}
    for db, es in ds:
        for e in es:
            out[(db, e["key"])] = (e["dl"], e["ty"], canon_val(e["ty"], e["val"]))
    return out


def short(x, n=24):
    s = x.hex() if isinstance(x, (bytes, bytearray)) else str(x)
    return s if len(s) <= n else s[:n] + "…(%d)" % len(x)


def describe(ent):
    if ent is None:
        return "absent"
    dl, t, v = ent
    if t == "S":
        d = "S len=%d %s" % (len(v), short(v))
    elif t == "X":
        d = "X entries=%d %s" % (len(v), " ".join("%d-%d" % (a, b) for a, b, _ in v[:3]))
    else:
        d = "%s count=%d" % (t, len(v))
    return "%s deadline=%s" % (d, dl)


def diff(a, b, indeterminate=()):
    """per-key differences between canonical datasets a (observed) and b (expected)"""
    out = []
    for k in sorted(set(a) | set(b)):
        if k in indeterminate:
            continue
        x, y = a.get(k), b.get(k)
        if x is None or y is None:
            out.append((k, "extra" if y is None else "missing", x, y))
        elif x[1:] != y[1:]:
            out.append((k, "value", x, y))
        elif (x[0] is None) != (y[0] is None) or (x[0] is not None and abs(x[0] - y[0]) > TOL):
            out.append((k, "deadline", x, y))
    return out


# ------------------------------------------------------------------ generators
FIN = lambda x: struct.unpack("<Q", struct.pack("<d", x))[0]
SCORES = [0x7FF0000000000000, 0xFFF0000000000000, 0x0000000000000000, 0x8000000000000000, 0x0000000000000001,
          0x000FFFFFFFFFFFFF, 0x0010000000000000, 0x7FEFFFFFFFFFFFFF, 0xFFEFFFFFFFFFFFFF, FIN(1.0), FIN(-1.5), FIN(3.141592653589793),
          FIN(1e-300), FIN(-123456789.125), 0x8000000000000001]
U64 = (1 << 64) - 1
POOL = [b"", b"a", b"\x00", b"\xff", b"\r\n", b"\x00\xff\r\n\x80", MARKER, MARKER + b"x", MARKER[:-1], ESCAPE, ESCAPE + b"x", ESCAPE[1:], b"\xff" * 9, b"\xfe\x00\xfb\x01\x01",
        b"\xfc", b"\xfa", b"5-0", b"0", b"-", b"+1", b"1", b"18446744073709551615", b"redis-ver", b"REDIS0009"]


def gen_bytes(r, big=False):
    k = r.below(12)
    if k < 4:
        return r.choice(POOL)
    if k < 8:
        return r.bytes(r.range(1, 8))
    if k == 8:
        return r.bytes(r.choice([63, 64, 65]))
    if k == 9 and big:
        return r.bytes(r.choice([16383, 16384]))
    return bytes(r.choice(b"abcxyz019") for _ in range(r.range(1, 12)))


def distinct(r, n, big=False):
    seen, out = set(), []
    while len(out) < n:
        b = gen_bytes(r, big)
        if b in seen:
            b = b + struct.pack(">I", len(out))
            if b in seen:
                continue
        seen.add(b)
        out.append(b)
    return out


def gen_score(r):
    if r.chance(2, 3):
        return r.choice(SCORES)
    while True:
        b = r.next()
        if (b >> 52) & 0x7FF != 0x7FF:       # no infinities/NaNs from the random branch (infinities come from SCORES; NaN is excluded)
            return b


def gen_stream(r, n, fields_of=None):
    es, ms, sq = [], 0, 0
    for i in range(n):
        k = r.below(6)
        if k == 0:
            sq += 1
        elif k == 1:
            ms, sq = ms + 1, 0
        elif k == 2:
            ms, sq = ms + r.range(1, 1 << 40), r.below(1 << 20)
        else:
            ms, sq = ms + r.range(1, 1000), r.below(3)
        if (ms, sq) == (0, 0):
            sq = 1
        nf = fields_of(i) if fields_of else r.choice([1, 1, 1, 2, 3])
        fs = list(zip(distinct(r, nf), [gen_bytes(r) for _ in range(nf)]))
        es.append((ms, sq, fs))
    return es


def gen_value(r, t, n=None):
    if n is None:
        n = r.choice([1, 1, 2, 3, 5, 8])
    if t == "S":
        return gen_bytes(r, big=True)
    if t == "L":
        xs = [gen_bytes(r) for _ in range(n)]
        # lists headed by a reserved string of the format (the subject of the escape rule, finding F23b) at a fixed rate: on a tree
        # without the rule a marker-headed list can make the whole load fail, which hides every other key of that dataset
        k = r.below(16)
        if k < 2:
            xs[0] = (MARKER, ESCAPE)[k]
            if r.chance(1, 2):
                xs[1:1] = r.choice([[ESCAPE], [MARKER], [ESCAPE, MARKER], [b"1-0", b"1", b"f", b"v"]])
        elif xs[0] in (MARKER, ESCAPE):
            xs[0] = b"m"
        return xs
    if t == "T":
        return distinct(r, n)
    if t == "H":
        return list(zip(distinct(r, n), [gen_bytes(r) for _ in range(n)]))
    if t == "Z":
        return [(m, gen_score(r)) for m in distinct(r, n)]
    return gen_stream(r, n)


STREAMLIKE = [b"1-0", b"1", b"f", b"v"]                                     # what a stream with the entry 1-0 {f: v} writes after its marker
# lists headed by the escape string: ordinary lists for a tree without the rule, escaped by a tree with it
ESCAPE_HEADED = [[ESCAPE], [ESCAPE, b"a"], [ESCAPE, MARKER], [ESCAPE, ESCAPE], [ESCAPE, ESCAPE, MARKER, b"a"], [ESCAPE, MARKER] + STREAMLIKE,
                 [ESCAPE] + STREAMLIKE, [ESCAPE, b""]]
# marker-headed lists a tree without the rule reads back as a stream (the tail is a sequence of well-formed entries, or empty) …
MARKER_STREAMLIKE = [[MARKER], [MARKER] + STREAMLIKE, [MARKER, b"1-0", b"2", b"f", b"v", b"g", b"w", b"5-5", b"1", b"a", b"b"]]
# … and those that leave unread strings behind in its entry loop (the whole dump is then refused)
MARKER_OTHER = [[MARKER, b"a"], [MARKER, ESCAPE], [MARKER, MARKER], [MARKER, b"a", b"b", b"c"], [MARKER, ESCAPE, MARKER] + STREAMLIKE,
                [MARKER, b"1-0", b"0"], [MARKER, b""]]


def gen_dataset(r, ttl_classes):
    dbs = sorted(set(r.below(16) for _ in range(r.choice([1, 1, 2, 3]))))
    ds = []
    for db in dbs:
        keys = distinct(r, r.range(1, 6))
        es = []
        for k in keys:
            t = r.choice("SLTHZX")
            es.append({"key": k, "dl": r.choice(ttl_classes), "ty": t, "val": gen_value(r, t)})
        ds.append((db, es))
    return ds


def gen_many_keys(r, dbs, per_db, short_share, short_ttl, long_ttl=100000):
    """many small keys per database (several per storage shard: 16 shards a database), a share of them with a SHORT TTL — meant to run
    out before the SAVE while nobody touches them, so that they are past their deadline but still stored when the snapshot is taken —
    the others persistent or with a long TTL; all six types, mostly strings"""
    ds = []
    for db in dbs:
        es = []
        for i in range(per_db):
            k = r.below(100)
            t = "S" if k < 70 else "LTHZX"[k % 5]
            dl = short_ttl + r.below(40) if r.below(100) < short_share else r.choice([None, None, None, long_ttl])
            key = b"%c%d:%d" % (b"kvw"[i % 3], db, i) if i % 7 else r.bytes(r.range(1, 6)) + b"#%d" % i
            es.append({"key": key, "dl": dl, "ty": t, "val": gen_value(r, t, n=r.choice([1, 2, 3]))})
        ds.append((db, es))
    return ds


def entry_tokens(e):
    """tokens of one key, without the database: `K <key> <ttl|-> <type> <value…>`"""
    return tokens([(0, [e])]).split(" ", 2)[2]


def gen_history(r, long_ttl=100000):
    """one server life with SEVERAL saves and restarts, the dataset changing in between: to a subset, to other types under the same
    names, to other databases, to nothing (FLUSHALL / FLUSHDB of every database / DEL key by key), changes that are NOT saved before
    a restart.  Steps as understood by C09.tcp_history."""
    steps, present = [], {}            # present: (db, key) -> True, the generator's own book-keeping

    def put(ds):
        for db, es in ds:
            for e in es:
                steps.append(["put", db, entry_tokens(e)])
                present[(db, e["key"])] = True

    def wipe(how):
        if how == "flushall":
            steps.append(["flushall"])
        elif how == "flushdb":
            for db in sorted(set(k[0] for k in present)):
                steps.append(["flushdb", db])
        else:
            for (db, k) in sorted(present):
                steps.append(["del", db, hx(k)])
        present.clear()

    ttls = [None, None, long_ttl]
    hows = ["flushall", "flushdb", "del"]
    first = r.below(3)
    put(gen_dataset(r, ttls))
    steps.append(["save"])
    # to a subset, some names re-used for another type, new keys in other databases; two saves without a restart in between
    for (db, k) in sorted(present):
        c = r.below(4)
        if c < 2:
            steps.append(["del", db, hx(k)])
            del present[(db, k)]
        elif c == 2:
            t = r.choice("SLTHZX")
            steps.append(["put", db, entry_tokens({"key": k, "dl": r.choice(ttls), "ty": t, "val": gen_value(r, t)})])
    put(gen_dataset(r, ttls))
    steps += [["save"], ["restart", 0]]
    # to nothing
    wipe(hows[first])
    steps += [["save"], ["restart", 0]]
    # something, saved; then nothing, saved; then something that is NOT saved
    put(gen_dataset(r, ttls))
    steps.append(["save"])
    wipe(hows[(first + 1) % 3])
    steps.append(["save"])
    put(gen_dataset(r, ttls))
    steps.append(["restart", 0])
    present.clear()
    # and on from the empty dataset
    put(gen_dataset(r, ttls))
    steps.append(["save"])
    if r.chance(1, 2):
        steps.append(["restart", 0])
    wipe(hows[(first + 2) % 3])
    put(gen_dataset(r, ttls)[:1])
    steps += [["save"], ["restart", 0]]
    return steps


def n_distinct(n, width=3):
    return [i.to_bytes(width, "big") for i in range(n)]


# ------------------------------------------------------------------ corrupted files
def mutate(r, f):
    f = bytearray(f)
    k = r.below(10)
    if not f:
        return bytes(f)
    i = r.range(9, len(f) - 1) if len(f) > 10 and r.chance(4, 5) else r.below(len(f))
    if k == 0:
        return bytes(f[:i])
    if k == 1:
        f[i] = r.below(256)
    elif k == 2:
        f[i] = r.choice([0, 1, 2, 3, 4, 5, 6, 0x3F, 0x40, 0x7F, 0x80, 0xBF, 0xC0, 0xFA, 0xFB, 0xFC, 0xFD, 0xFE, 0xFF])
    elif k == 3:
        del f[i]
    elif k == 4:
        f.insert(i, r.below(256))
    elif k == 5:
        f[i] ^= 1 << r.below(8)
    elif k == 6:
        f[i:i] = bytes([0xFE, r.choice([0, 1, 15, 16, 17, 0x40, 0x10])])          # database selector (valid and invalid indices)
    elif k == 7:
        j = r.below(len(f))
        f[i:i] = f[j:j + r.range(1, 12)]                                           # duplicate a slice (duplicate keys, type clashes)
    elif k == 8:
        f[i:i + 1] = bytes([0x40 | (f[i] >> 8), f[i] & 0xFF]) if f[i] < 64 else bytes([f[i]])   # non-minimal length form
    else:
        return bytes(f) + r.bytes(r.range(1, 4))
    return bytes(f)


def handmade(ver):
    """loader inputs the writer never produces"""
    hdr = b"REDIS0009"

    def s(b):
        return (bytes([len(b)]) if len(b) < 64 else bytes([0x40 | (len(b) >> 8), len(b) & 0xFF])) + b
    eof = b"\xff" + b"\0" * 8
    mk = s(MARKER)
    es = s(ESCAPE)
    far = b"\xfc" + struct.pack("<Q", 4102444800000)          # expires in the year 2100
    return [
        # the escape element in places the writer never puts it (with and without the rule in the tree: model loader = real loader)
        ("escape-only", hdr + b"\x01" + s(b"k") + b"\x01" + es + eof), ("escape-then-list", hdr + b"\x01" + s(b"k") + b"\x03" + es + s(b"a") + s(b"b") + eof),
        ("escape-then-marker-entries", hdr + b"\x01" + s(b"k") + b"\x06" + es + mk + s(b"1-0") + s(b"1") + s(b"f") + s(b"v") + eof),
        ("escape-twice", hdr + b"\x01" + s(b"k") + b"\x03" + es + es + s(b"a") + eof), ("marker-then-escape", hdr + b"\x01" + s(b"k") + b"\x02" + mk + es + eof),
        ("escape-list-over-string", hdr + b"\x00" + s(b"k") + s(b"v") + b"\x01" + s(b"k") + b"\x02" + es + s(b"a") + eof),
        ("escape-only-over-string", hdr + b"\x00" + s(b"k") + s(b"v") + b"\x01" + s(b"k") + b"\x01" + es + eof),
        ("escape-only-over-string-ttl", hdr + b"\x00" + s(b"k") + s(b"v") + far + b"\x01" + s(b"k") + b"\x01" + es + eof),
        ("escape-db16", hdr + b"\xfe\x10\x01" + s(b"k") + b"\x02" + es + s(b"a") + eof), ("escape-only-db16", hdr + b"\xfe\x10\x01" + s(b"k") + b"\x01" + es + eof),
        ("escape-only-db16-ttl", hdr + b"\xfe\x10" + far + b"\x01" + s(b"k") + b"\x01" + es + eof),
        ("escape-append-to-list", hdr + b"\x01" + s(b"k") + b"\x01" + s(b"a") + b"\x01" + s(b"k") + b"\x02" + es + s(b"b") + eof),
        ("escape-count-too-big", hdr + b"\x01" + s(b"k") + b"\x03" + es + s(b"a") + eof), ("escape-count-too-small", hdr + b"\x01" + s(b"k") + b"\x01" + es + s(b"a") + eof),
        ("escape-expired", hdr + b"\xfc" + struct.pack("<Q", 1000) + b"\x01" + s(b"k") + b"\x02" + es + mk + b"\x00" + s(b"o") + s(b"v") + eof),
        ("escape-in-set-and-hash", hdr + b"\x02" + s(b"t") + b"\x02" + es + mk + b"\x04" + s(b"h") + b"\x01" + es + mk + eof),
        ("empty-body", hdr + eof), ("no-checksum", hdr + b"\xff"), ("plus-version", b"REDIS+009" + eof), ("bad-version", b"REDIS-009" + eof),
        ("bad-version2", b"REDIS00a9" + eof), ("bad-magic", b"REDIX0009" + eof), ("short-header", b"REDIS00"),
        ("db16-string", hdr + b"\xfe\x10\x00" + s(b"k") + s(b"v") + eof), ("db16-empty-list", hdr + b"\xfe\x10\x01" + s(b"k") + b"\x00" + eof),
        ("db16-empty-zset", hdr + b"\xfe\x10\x03" + s(b"k") + b"\x00" + eof), ("db16-stream", hdr + b"\xfe\x10\x01" + s(b"k") + b"\x05" + mk + s(b"1-0") + s(b"1") + s(b"f") + s(b"v") + eof),
        ("db15-then-back", hdr + b"\xfe\x0f\x00" + s(b"k") + s(b"v") + b"\xfe\x00\x00" + s(b"k") + s(b"w") + eof),
        ("expire-seconds-future", hdr + b"\xfd\xff\xff\xff\x7f\x00" + s(b"k") + s(b"v") + eof), ("expire-seconds-past", hdr + b"\xfd\x01\x00\x00\x00\x00" + s(b"k") + s(b"v") + eof),
        ("zset2-opcode", hdr + b"\x05" + s(b"z") + b"\x01" + s(b"m") + struct.pack("<d", 1.5) + eof),
        ("zset-dup-member", hdr + b"\x03" + s(b"z") + b"\x02" + s(b"m") + struct.pack("<d", 1.5) + s(b"m") + struct.pack("<d", 2.5) + eof),
        ("dup-key-string-over-list", hdr + b"\x01" + s(b"k") + b"\x01" + s(b"a") + b"\x00" + s(b"k") + s(b"v") + eof),
        ("dup-key-list-over-string", hdr + b"\x00" + s(b"k") + s(b"v") + b"\x01" + s(b"k") + b"\x01" + s(b"a") + eof),
        ("dup-key-list-append", hdr + b"\x01" + s(b"k") + b"\x01" + s(b"a") + b"\x01" + s(b"k") + b"\x02" + s(b"b") + s(b"c") + eof),
        ("set-dup-members", hdr + b"\x02" + s(b"t") + b"\x03" + s(b"a") + s(b"b") + s(b"a") + eof), ("set-empty", hdr + b"\x02" + s(b"t") + b"\x00" + eof),
        ("hash-dup-fields", hdr + b"\x04" + s(b"h") + b"\x02" + s(b"f") + s(b"1") + s(b"f") + s(b"2") + eof), ("hash-empty", hdr + b"\x04" + s(b"h") + b"\x00" + eof),
        ("unknown-type-6", hdr + b"\x06" + s(b"k") + s(b"v") + eof), ("expiry-then-eof-type", hdr + b"\xfc" + b"\0" * 8 + b"\xff" + eof),
        ("len-32bit-small", hdr + b"\x00" + b"\x80\0\0\0\x01k" + b"\xbf\0\0\0\x01v" + eof), ("len-14bit-small", hdr + b"\x00" + b"\x40\x01k" + b"\x40\x01v" + eof),
        ("len-bad-c0", hdr + b"\x00" + b"\xc0" + eof), ("trailing-garbage", hdr + b"\x00" + s(b"k") + s(b"v") + eof + b"garbage"),
        ("stream-trailing-zero-field-entry", hdr + b"\x01" + s(b"x") + b"\x07" + mk + s(b"1-0") + s(b"1") + s(b"f") + s(b"v") + s(b"2-0") + s(b"0") + eof),
        ("stream-zero-field-middle", hdr + b"\x01" + s(b"x") + b"\x07" + mk + s(b"1-0") + s(b"0") + s(b"2-0") + s(b"1") + s(b"f") + s(b"v") + eof),
        ("stream-id-not-increasing", hdr + b"\x01" + s(b"x") + b"\x09" + mk + s(b"5-0") + s(b"1") + s(b"f") + s(b"v") + s(b"4-9") + s(b"1") + s(b"g") + s(b"w") + eof),
        ("stream-id-0-0", hdr + b"\x01" + s(b"x") + b"\x05" + mk + s(b"0-0") + s(b"1") + s(b"f") + s(b"v") + eof),
        ("stream-id-wraps-to-0-0", hdr + b"\x01" + s(b"x") + b"\x05" + mk + s(b"18446744073709551616-0") + s(b"1") + s(b"f") + s(b"v") + eof),
        ("stream-id-empty-parts", hdr + b"\x01" + s(b"x") + b"\x05" + mk + s(b"7-") + s(b"1") + s(b"f") + s(b"v") + eof),
        ("stream-id-garbage", hdr + b"\x01" + s(b"x") + b"\x05" + mk + s(b"7-1-2") + s(b"1") + s(b"f") + s(b"v") + eof),
        ("stream-id-nonutf8", hdr + b"\x01" + s(b"x") + b"\x05" + mk + s(b"7-\xff") + s(b"1") + s(b"f") + s(b"v") + eof),
        ("stream-count-plus", hdr + b"\x01" + s(b"x") + b"\x05" + mk + s(b"7-1") + s(b"+1") + s(b"f") + s(b"v") + eof),
        ("stream-count-garbage", hdr + b"\x01" + s(b"x") + b"\x05" + mk + s(b"7-1") + s(b"x") + s(b"f") + s(b"v") + eof),
        ("stream-count-too-big", hdr + b"\x01" + s(b"x") + b"\x05" + mk + s(b"7-1") + s(b"2") + s(b"f") + s(b"v") + eof),
        ("stream-count-2^63", hdr + b"\x01" + s(b"x") + b"\x05" + mk + s(b"7-1") + s(b"9223372036854775808") + s(b"f") + s(b"v") + eof),
        ("stream-dup-fields", hdr + b"\x01" + s(b"x") + b"\x07" + mk + s(b"7-1") + s(b"2") + s(b"f") + s(b"1") + s(b"f") + s(b"2") + eof),
        ("stream-over-string", hdr + b"\x00" + s(b"x") + s(b"v") + b"\x01" + s(b"x") + b"\x05" + mk + s(b"7-1") + s(b"1") + s(b"f") + s(b"v") + eof),
        ("alloc-256MiB", hdr + b"\xfa\x90\x00\x00\x00"),
    ]


# ------------------------------------------------------------------ the check
class C09:
    def __init__(self, rep, facts):
        self.rep, self.facts = rep, facts
        bindir = os.environ.get("VERIF_IMPL_BIN", IMPL_BIN)       # override only for sanity tests against a deliberately broken build
        self.impl = LineProc([os.path.join(bindir, "impl_" + FAMILY)], "impl-" + FAMILY)
        # the model recurses over 70 000-element lists: give the Lean executable a large stack
        self.model = LineProc(["sh", "-c", "ulimit -s 2000000 2>/dev/null || ulimit -s unlimited 2>/dev/null; exec " + os.path.join(LEAN_BIN, "drv_" + FAMILY)], "lean-" + FAMILY)
        a = self.model.ask(cfg_line(facts))
        if a != "ok":
            raise InternalError("Lean driver refused cfg: %r" % a)
        self.oracle_failures = []      # (case name, diff, case) not explained by a known finding
        self.known_hits = {}           # match -> (case, detail)
        self.disagreements = []
        self.indeterminate = 0
        self.notes = {}

    def close(self):
        self.impl.close()
        self.model.close()
        # an impl driver that was killed or aborted (allocation refused) cannot remove its scratch directory itself
        rd = os.path.join(CACHE, "run")
        for d in (os.listdir(rd) if os.path.isdir(rd) else []):
            m = re.match(r"rdb-(\d+)$", d)
            if m and not os.path.exists("/proc/" + m.group(1)):
                shutil.rmtree(os.path.join(rd, d), ignore_errors=True)

    def iask(self, line):
        a = self.impl.ask(line)
        if a is None:
            raise InternalError("impl driver died on: %s … (%s)" % (line[:80], self.impl.stderr_tail[-200:]))
        if a.startswith(("bad-op", "panic")):
            raise InternalError("impl driver answered %r to: %s" % (a[:40], line[:120]))
        return a

    def mask(self, line):
        a = self.model.ask(line)
        if a is None:
            raise InternalError("Lean driver died on: %s … (%s)" % (line[:80], self.model.stderr_tail[-200:]))
        if a == "bad-op":
            raise InternalError("Lean driver answered bad-op to: " + line[:160])
        return a

    def dump(self):
        w = self.iask("dump").split(" ")
        return int(w[1]), parse(w[2:] if len(w) > 2 else ["."])

    def lean_dec(self, now, f):
        a = self.mask("decsnap %d %s" % (now, hx(f)))
        w = a.split(" ")
        if w[0] == "ok":
            return ("ok", int(w[1]), int(w[2]), parse(w[3:]))
        return ("err", int(w[2]), int(w[3]), w[1])

    # -- one save/restart case ------------------------------------------------
    def resave_case(self, r, cycles):
        rep = self.rep
        ds = [(0, [{"key": b"ttl-%02d" % i, "dl": 500000 + 997 * i, "ty": "SLTHZX"[i % 6], "val": gen_value(r, "SLTHZX"[i % 6], n=2)} for i in range(24)])]
        self.iask("populate " + tokens(ds))
        w = self.iask("save").split(" ")
        if w[0] != "ok":
            raise InternalError("resave: real save failed: " + " ".join(w)[:100])
        f = unhx(w[3])
        first = prev = {k: v[0] for k, v in canon(self.lean_dec(0, f)[3]).items()}
        moved_total = {}
        for cyc in range(cycles):
            w = self.iask("load " + hx(f)).split(" ")
            if w[0] != "ok":
                raise InternalError("resave: the loader refuses the file the writer wrote")
            w = self.iask("save").split(" ")
            f = unhx(w[3])
            cur = {k: v[0] for k, v in canon(self.lean_dec(0, f)[3]).items()}
            rep.evaluations += 1
            for k in prev:
                if cur.get(k) != prev[k]:
                    moved_total[k] = (cur.get(k) or 0) - prev[k]
            prev = cur
        drift = {k: prev[k] - first[k] for k in first if prev.get(k) is not None and prev[k] != first[k]}
        rep.count("resave.cycles=%d.keys-whose-stamp-moved=%s" % (cycles, "0" if not drift else "1-2" if len(drift) <= 2 else "3+"))
        rep.nontrivial(("resave", len(drift) > 0))
        if len(drift) * 2 >= len(first):
            ex = sorted(drift.items())[:3]
            self.resave_failure = ("C09 restart oracle fails: after %d load + save cycles the deadline stamps in the dump moved for %d of %d keys (e.g. %s): a deadline must be written "
                                   "back as the millisecond it was loaded as, or it drifts with every SAVE + restart" % (
                                       cycles, len(drift), len(first), ", ".join("%s by %+d ms" % (k[1].decode(), d) for k, d in ex)),
                                   {"replay": {"kind": "resave", "dataset": tokens(ds), "cycles": cycles, "moved_ms": {hx(k[1]): d for k, d in sorted(drift.items())}}, "family": FAMILY})

    def run_case(self, case, record=True):
        """case = {"name", "ds", "pre": ms before SAVE, "down": ms between SAVE and load, "lean": decode through the model?, "bytes": byte comparison?}
        returns (oracle diffs not explained by a known finding, all oracle diffs)"""
        rep = self.rep
        name, ds = case["name"], case["ds"]
        self.iask(("populate " + tokens(ds)) if ds else "populate")
        _, d0 = self.dump()                        # the engine's own view, deadlines absolute (wall ms)
        c0 = canon(d0)
        gen = canon(ds)
        if set(c0) != set(gen) or any(c0[k][1:] != gen[k][1:] for k in gen):
            raise InternalError("case %s: engine does not hold the generated dataset after populate (generator/harness fault)" % name)
        if case.get("pre"):
            self.iask("sleep %d" % case["pre"])
        w = self.iask("save").split(" ")
        if w[:2] == ["err", "no-file"]:
            # RdbEngine::save answered Ok(()) and there is no dump: whatever was under that name before is what a restart would load
            rep.evaluations += 1
            dfx = (("*", b"*"), "no-dump-written", None, None)
            if record:
                self.oracle_failures.append((name, dfx, case, {"note": "RdbEngine::save returned Ok(()) but wrote no file"}))
            return [dfx], [dfx]
        if w[0] != "ok":
            raise InternalError("real save failed: " + " ".join(w)[:100])
        ts0, ts1, f = int(w[1]), int(w[2]), unhx(w[3])
        if os.environ.get("VERIF_C09_INJECT") == "flip" and len(f) > 60:      # self-test of the violation path only: damage the last content byte
            f = f[:-10] + bytes([f[-10] ^ 0x01]) + f[-9:]
        if case.get("down"):
            self.iask("sleep %d" % case["down"])
        w = self.iask("load " + hx(f)).split(" ")
        tl0, tl1 = int(w[1]), int(w[2])
        _, a_ds = self.dump()
        a = canon(a_ds) if w[0] == "ok" else None
        rep.evaluations += 1
        # ---- Spec: live(t_load, d0); keys whose deadline is too close to the save or load instant are indeterminate
        indet = set(k for k, (dl, _, _) in c0.items() if dl is not None and (tl0 - TOL <= dl <= tl1 + TOL or ts0 - TOL <= dl <= ts1 + TOL))
        self.indeterminate += len(indet)
        spec = {k: v for k, v in c0.items() if v[0] is None or v[0] > tl1}
        if not case.get("spec_py_only"):          # (the driver's token parser is quadratic in the number of keys of a database)
            lt = self.mask("live %d %s" % (tl1, tokens(d0)))
            if canon(parse(lt.split(" "))) != spec:
                raise InternalError("case %s: Lean `live` and the check's Spec disagree" % name)
        if case.get("kind") == "bigvalue":
            self.notes["bigvalue"] = {"file_bytes": len(f), "save_ms": ts1 - ts0, "loader_ms": tl1 - tl0, "tolerance_ms": TOL,
                                      "discriminating(save + load time >= 3 x tolerance)": (ts1 - ts0) + (tl1 - tl0) >= 3 * TOL}
            rep.count("bigvalue.save+load-time-%s-3xTOL" % (">=" if (ts1 - ts0) + (tl1 - tl0) >= 3 * TOL else "<"))
        if case.get("kind") == "bigfile":
            self.notes["bigfile"] = {"keys": len(c0), "file_bytes": len(f), "loader_ms": tl1 - tl0, "tolerance_ms": TOL,
                                     "discriminating(loader time >= 5 x tolerance)": tl1 - tl0 >= 5 * TOL}
            rep.count("bigfile.loader-time-%s-5xTOL" % (">=" if tl1 - tl0 >= 5 * TOL else "<"))
        if a is None:
            diffs = [(("*", b"*"), "load-failed", None, None)]
            rm = self.lean_dec((tl0 + tl1) // 2, f)
            if rm[0] == "ok":
                self.disagreements.append({"what": "real loader refuses its own file, the model accepts it", "case": name, "file": hx(f[:2000])})
        else:
            diffs = diff(a, spec, indet)
        new = []
        for dfx in diffs:
            m = self.classify(dfx, c0, ts0, tl1)
            if m:
                self.known_hits.setdefault(m, (case, self.show_diff(dfx)))
                rep.count("known." + m)
            else:
                new.append(dfx)
        if record:
            for dfx in new:
                self.oracle_failures.append((name, dfx, case, {"save_ms": [ts0, ts1], "load_ms": [tl0, tl1], "file": hx(f) if len(f) < 4000 else hx(f[:4000]) + "…"}))
        types = "".join(sorted(set(e["ty"] for _, es in ds for e in es)))
        rep.count("case." + case.get("kind", "random"))
        rep.nontrivial(("rt", case.get("kind", "random"), types, len(ds), bool(case.get("down")), bool(diffs), min(len(f), 1 << 20).bit_length()))
        for cls in set((e["ty"], size_class(len(e["val"])), size_class(len(e["key"])), ttl_class(e["dl"])) for db, es in ds for e in es):
            rep.nontrivial(("val",) + cls)
        nkeys = sum(len(es) for _, es in ds)
        if case.get("pre"):
            gone = sum(1 for v in c0.values() if v[0] is not None and v[0] < ts0 - TOL)
            rep.nontrivial(("expired-at-save", size_class(nkeys), size_class(gone)))
            rep.count("inproc.keys-past-their-deadline-at-save(untouched): %d of %d" % (gone, nkeys))
        if not record:
            return new, diffs
        # ---- correspondence (i): the model reads the real file
        big = any(e["ty"] in "THZ" and len(e["val"]) > BIG_UNORDERED[rep.tier] for _, es in ds for e in es)
        do_lean = case.get("lean", True) and not big
        if not do_lean:
            rep.count("lean-decode-skipped(big unordered collection)")
        if do_lean and a is not None:
            now = (tl0 + tl1) // 2
            r = self.lean_dec(now, f)
            rep.evaluations += 1
            if r[0] != "ok":
                self.disagreements.append({"what": "(i) model refuses a file the real loader accepts", "case": name, "model": r[3], "file": hx(f[:2000])})
            else:
                dd = diff(canon(r[3]), a, indet)
                if dd:
                    self.disagreements.append({"what": "(i) model decSnapshot(real file) != real load", "case": name, "diff": [self.show_diff(x) for x in dd[:4]], "file": hx(f[:2000])})
            # ---- byte level: encSnapshot(decSnapshot(file) in file order) == file
            if case.get("bytes", True):
                r0 = self.lean_dec(0, f)
                ct = ctime_of(f)
                lossless = r0[0] == "ok" and not diff(canon(r0[3]), {k: v for k, v in c0.items() if v[0] is None or v[0] >= ts1 + TOL},
                                                      set(k for k, v in c0.items() if v[0] is not None and v[0] < ts1 + TOL))
                if not lossless:
                    rep.count("bytes-skipped(decode is lossy on this deviation case)")
                if lossless and ct is not None:
                    enc = unhx(self.mask("encsnap %d %s" % (ct * 1000, tokens(r0[3]))))
                    rep.evaluations += 1
                    if enc != f and mask_last_id(enc) != mask_last_id(f):
                        i = next((j for j in range(min(len(enc), len(f))) if enc[j] != f[j]), min(len(enc), len(f)))
                        self.disagreements.append({"what": "model encSnapshot differs from the real file (same key order)", "case": name, "first_diff_at": i,
                                                   "real": hx(f[max(0, i - 16):i + 16]), "model": hx(enc[max(0, i - 16):i + 16]), "lens": [len(f), len(enc)]})
                    else:
                        rep.count("bytes-equal")
            # ---- the theorems' hypotheses on this very dataset
            if not big:
                h = self.mask("hyps %d %d %s" % (ts1, tl1, tokens(d0))).split(" ")
                rep.count("hyps.wf=%s marker=%s emptystream=%s expires=%s reserved=%s" % tuple(h))
                if h[0] != "1":
                    raise InternalError("case %s: generated dataset is outside datasetWF (generator fault)" % name)
                # lists: every list with the escape rule on both sides (snapshot_roundtrip), none headed by the marker without it
                # (snapshot_roundtrip_partial), none headed by a reserved string when only one half is there (snapshot_load_across_versions)
                rd, wr = self.facts["listEscapeRead"], self.facts["listEscapeWrite"]
                lists_ok = True if (rd and wr) else h[1] == "0" if not (rd or wr) else h[4] == "0"
                covered = lists_ok and (h[2] == "0" or self.facts["keepEmptyStream"]) and (h[3] == "0" or self.facts["dropExpired"])
                if covered and [x for x in diffs]:
                    # theorem + correspondence say this cannot happen: report as a new failure even if it looks like a known shape
                    for dfx in diffs:
                        if dfx not in new:
                            self.oracle_failures.append((name, dfx, case, {"note": "hypotheses of snapshot_roundtrip / snapshot_roundtrip_partial (for this tree's switches) hold for this dataset"}))
        # ---- correspondence (ii): the real loader reads the model's file
        if case.get("lean", True):
            tmid = (ts0 + ts1) // 2
            enc = unhx(self.mask("encsnap %d %s" % (tmid, tokens(d0))))
            w2 = self.iask("load " + hx(enc)).split(" ")
            t20, t21 = int(w2[1]), int(w2[2])
            _, b_ds = self.dump()
            rep.evaluations += 1
            indet2 = set(k for k, (dl, _, _) in c0.items() if dl is not None and (t20 - TOL <= dl <= t21 + TOL or ts0 - TOL <= dl <= ts1 + TOL))
            r2 = self.lean_dec((t20 + t21) // 2, enc) if do_lean else None
            if w2[0] != "ok":
                if a is not None or (r2 is not None and r2[0] == "ok"):
                    self.disagreements.append({"what": "(ii) real loader refuses the model's file", "case": name, "file": hx(enc[:2000])})
            elif do_lean:
                dd = diff(canon(b_ds), canon(r2[3]) if r2[0] == "ok" else {}, indet2)
                if dd:
                    self.disagreements.append({"what": "(ii) real load(model file) != model decSnapshot(model file)", "case": name, "diff": [self.show_diff(x) for x in dd[:4]], "file": hx(enc[:2000])})
            else:
                # big unordered collections: compare with the real -> real result instead (both loads are after every short deadline)
                dd = diff(canon(b_ds), a if a is not None else {}, indet | indet2)
                if dd:
                    self.disagreements.append({"what": "(ii) real load(model file) != real load(real file)", "case": name, "diff": [self.show_diff(x) for x in dd[:4]]})
        return new, diffs

    def show_diff(self, d):
        (db, key), kind, got, want = d
        return {"db": db, "key": hx(key) if isinstance(key, bytes) else key, "kind": kind, "after_restart": describe(got), "prescribed": describe(want)}

    def classify(self, d, c0, ts0, tl1, unloadable=False):
        """shape of a known finding? (matched by shape, not by property id)"""
        (k, kind, got, want) = d
        # with both halves of the escape rule in the source the marker shape excuses nothing: a list that does not come back is a failure
        marker_open = not escape_rule(self.facts)
        if kind == "load-failed" or (unloadable and (kind == "missing" or kind.startswith("extra-keys"))):
            # a marker-headed list whose tail is not an entry sequence leaves unread strings behind: the whole load fails
            # (over TCP: the server starts with the keys read before that point; `unloadable` = the model of this tree refuses the file too)
            return "marker-list-as-stream" if marker_open and any(t == "L" and v and v[0] == MARKER for (_, t, v) in c0.values()) else None
        orig = c0.get(k)
        if orig is None:
            # a key nobody stored: the strings such a list leaves unread are parsed as opcodes, which can also yield pairs instead of an error
            return "marker-list-as-stream" if kind == "extra" and marker_open and any(t == "L" and v and v[0] == MARKER for (_, t, v) in c0.values()) else None
        dl, t, v = orig
        if kind == "extra" and dl is not None and ts0 - TOL <= dl <= tl1 + TOL and got is not None and got[0] is None and got[1:] == orig[1:]:
            return "expired-at-load-immortal"
        if marker_open and t == "L" and len(v) >= 1 and v[0] == MARKER and kind in ("missing", "value") and (got is None or got[1] == "X"):
            return "marker-list-as-stream"
        if t == "X" and len(v) == 0 and kind == "missing":
            return "empty-stream-lost"
        return None

    # -- restart of the real server over TCP (the wiring SAVE command -> RdbEngine::save, start-up -> RdbEngine::load) ----
    def _server(self, keep_dir=None):
        import server
        if os.environ.get("VERIF_SERVER_BIN"):      # only for sanity tests against a deliberately different build
            server.SERVER_BIN = os.environ["VERIF_SERVER_BIN"]
        return server.Server("c09", keep_dir=keep_dir)

    @staticmethod
    def _now_ms():
        import time as _t
        return int(_t.time() * 1000)

    def _tcp_put(self, c, e, name, fresh=True):
        """create one key in the selected database through commands (`fresh=False`: whatever the key held is deleted first);
        returns its deadline on this machine's wall clock as the server sees it (PTTL), None without TTL"""
        def ok(reply, what):
            if reply[0] == "e":
                raise InternalError("tcp case %s: %s refused: %r" % (name, what, reply[1][:80]))
            return reply

        def score_text(bits):
            x = struct.unpack("<d", struct.pack("<Q", bits))[0]
            return "inf" if x == float("inf") else "-inf" if x == float("-inf") else repr(x)
        k, t, v = e["key"], e["ty"], e["val"]
        if not fresh:
            ok(c.cmd("DEL", k), "DEL")
        if t == "S":
            ok(c.cmd("SET", k, v), "SET")
        elif t == "L":
            ok(c.cmd("RPUSH", k, *v), "RPUSH")
        elif t == "T":
            ok(c.cmd("SADD", k, *v), "SADD")
        elif t == "H":
            ok(c.cmd("HSET", k, *[x for p in v for x in p]), "HSET")
        elif t == "Z":
            for m, b in v:
                ok(c.cmd("ZADD", k, score_text(b), m), "ZADD")
        elif t == "X":
            for ms, sq, fs in v:
                ok(c.cmd("XADD", k, "%d-%d" % (ms, sq), *[x for p in fs for x in p]), "XADD")
            if not v:
                ok(c.cmd("XADD", k, "1-0", "a", "b"), "XADD")
                ok(c.cmd("XDEL", k, "1-0"), "XDEL")
        if e["dl"] is not None:
            ok(c.cmd("PEXPIRE", k, e["dl"]), "PEXPIRE")

    def _tcp_deadline(self, c, k):
        p = c.cmd("PTTL", k)
        return self._now_ms() + p[1] if p[0] == "i" and p[1] >= 0 else None

    def _tcp_read(self, c, ds):
        """point reads (TYPE/GET/LLEN+LINDEX/SCARD+SISMEMBER/HLEN+HGET/ZCARD+ZSCORE/XLEN+XRANGE id id/PTTL) of every key of `ds`
        — whose values only say which members/fields/entries to ask for — and DBSIZE of all 16 databases:
        ({(db, key): (deadline, type, canonical value)} of the keys that exist, {db: DBSIZE})"""
        got, sizes = {}, {}
        listed = dict(ds)
        for db in range(16):
            c.cmd("SELECT", db)
            sizes[db] = c.cmd("DBSIZE")[1]
            for e in listed.get(db, []):
                k, t, v = e["key"], e["ty"], e["val"]
                ty = c.cmd("TYPE", k)[1]
                if ty == b"none":
                    continue
                dl = self._tcp_deadline(c, k)
                if ty == b"string":
                    got[(db, k)] = (dl, "S", c.cmd("GET", k)[1])
                elif ty == b"list":
                    n = c.cmd("LLEN", k)[1]
                    got[(db, k)] = (dl, "L", tuple(c.cmd("LINDEX", k, i)[1] for i in range(n)))
                elif ty == b"set":
                    n = c.cmd("SCARD", k)[1]
                    ms = tuple(sorted(m for m in (v if t == "T" else []) if c.cmd("SISMEMBER", k, m)[1] == 1))
                    got[(db, k)] = (dl, "T", ms if len(ms) == n else ms + (b"<%d unknown members>" % (n - len(ms)),))
                elif ty == b"hash":
                    n = c.cmd("HLEN", k)[1]
                    fs = tuple(sorted((fl, r[1]) for fl, _ in (v if t == "H" else []) for r in [c.cmd("HGET", k, fl)] if r[0] == "b"))
                    got[(db, k)] = (dl, "H", fs if len(fs) == n else fs + ((b"<unknown fields>", b"%d" % (n - len(fs))),))
                elif ty == b"zset":
                    n = c.cmd("ZCARD", k)[1]
                    zs = []
                    for m, b in (v if t == "Z" else []):
                        r = c.cmd("ZSCORE", k, m)
                        if r[0] == "b":
                            x = float(r[1].decode())
                            zs.append((m, b if x == struct.unpack("<d", struct.pack("<Q", b))[0] else struct.unpack("<Q", struct.pack("<d", x))[0]))
                    zs = tuple(sorted(zs))
                    got[(db, k)] = (dl, "Z", zs if len(zs) == n else zs + ((b"<unknown members>", n - len(zs)),))
                elif ty == b"stream":
                    n = c.cmd("XLEN", k)[1]
                    xs = []
                    cand = [(ms, sq) for ms, sq, _ in v] if t == "X" else [(1, 0)] if t == "L" else []
                    for ms, sq in cand:
                        r = c.cmd("XRANGE", k, "%d-%d" % (ms, sq), "%d-%d" % (ms, sq))
                        if r[0] == "a" and len(r[1]) == 1:
                            flat = [x[1] for x in r[1][0][1][1][1]]
                            xs.append((ms, sq, tuple(sorted(pairs(flat)))))
                    xs = tuple(xs)
                    got[(db, k)] = (dl, "X", xs if len(xs) == n else xs + ((0, 0, ((b"<unknown entries>", b"%d" % (n - len(xs))),)),))
                else:
                    got[(db, k)] = (dl, ty.decode(), None)
        return got, sizes

    def tcp_restart(self, ds, down_ms, name, pre_ms=0, pause_sweeper=False, kind="tcp-restart", record=True):
        """populate a real server with commands, [let `pre_ms` pass, nobody touching a key — with the expiry sweeper paused or not],
        SAVE, stop it, wait `down_ms`, start a new one on the same directory and read everything back with point reads.
        Returns the oracle failures not explained by a known finding."""
        import time as _t
        rep = self.rep
        srv = self._server()
        keep = srv.dir
        try:
            c = srv.client()
            if pause_sweeper and c.cmd("VERIF", "SWEEPER", "PAUSE") != ("s", b"OK"):
                raise InternalError("VERIF SWEEPER PAUSE refused (server built without feature verif?)")
            for db, es in ds:
                c.cmd("SELECT", db)
                for e in es:
                    self._tcp_put(c, e, name)
            # deadlines as the server sees them, on this machine's wall clock
            dls = {}
            for db, es in ds:
                c.cmd("SELECT", db)
                for e in es:
                    if e["dl"] is not None:
                        dls[(db, e["key"])] = self._tcp_deadline(c, e["key"])
            if pre_ms:
                _t.sleep(pre_ms / 1000.0)
            ts0 = self._now_ms()
            if c.cmd("SAVE", timeout=60) != ("s", b"OK"):
                raise InternalError("tcp case %s: SAVE refused" % name)
            ts1 = self._now_ms()
            c.close()
            f = open(os.path.join(keep, "dump.rdb"), "rb").read()
            srv.stop(remove=False)
            _t.sleep(down_ms / 1000.0)
            tl0 = self._now_ms()
            srv = self._server(keep_dir=keep)
            tl1 = self._now_ms()
            c = srv.client()
            got, sizes = self._tcp_read(c, ds)
            c.close()
        finally:
            srv.stop(remove=True)
        present = {}
        for (db, _k) in got:
            present[db] = present.get(db, 0) + 1
        extra_keys = sum(max(0, sizes[db] - present.get(db, 0)) for db in range(16))
        rep.evaluations += 1
        rep.count("case." + kind)
        c0 = {}
        for (key, (dl, t, v)) in canon(ds).items():
            c0[key] = (dls.get(key) if dl is not None else None, t, v)
        indet = set(k for k, (dl, _, _) in c0.items() if dl is not None and (tl0 - TOL <= dl <= tl1 + TOL or ts0 - TOL <= dl <= ts1 + TOL))
        # a short TTL that ran out before SAVE was even sent (slow machine): PTTL gave no deadline, the key is not judged
        indet |= set(k for k, (dl, _, _) in canon(ds).items() if dl is not None and dls.get(k) is None)
        self.indeterminate += len(indet)
        spec = {k: v for k, v in c0.items() if v[0] is None or v[0] > tl1}
        diffs = diff(got, spec, indet)
        if extra_keys and not indet:
            diffs.append((("*", b"*"), "extra-keys:%d" % extra_keys, None, None))
        case = {"name": name, "kind": kind, "ds": ds, "down": down_ms,
                "tcp": {"pre_save_wait_ms": pre_ms, "sweeper_paused": pause_sweeper, "downtime_ms": down_ms}}
        nkeys = len(c0)
        gone = sum(1 for k, v in c0.items() if v[0] is not None and v[0] < ts0 - TOL)
        if pre_ms:
            rep.count("tcp.keys-past-their-deadline-at-SAVE(untouched, sweeper %s): %d of %d" % ("paused" if pause_sweeper else "running", gone, nkeys))
        r = self.lean_dec(tl1, f)
        new = []
        for dfx in diffs:
            m = self.classify(dfx, c0, ts0, tl1, unloadable=(r[0] == "err"))
            if m:
                self.known_hits.setdefault(m, (case, self.show_diff(dfx)))
                rep.count("known." + m)
            else:
                new.append(dfx)
                if record:
                    self.oracle_failures.append((name, dfx, case, {"path": "TCP: commands%s, SAVE, server restart, point reads" % (
                        ", %d ms without touching a key (sweeper %s)" % (pre_ms, "paused" if pause_sweeper else "running") if pre_ms else ""),
                        "keys": nkeys, "keys_past_deadline_at_save": gone, "file": hx(f[:4000])}))
        rep.nontrivial(("tcp", kind, len(ds), size_class(nkeys), size_class(gone), pause_sweeper, bool(diffs), bool(down_ms)))
        if not record:
            return new
        # the same file through the in-process loader and through the model: all three must tell the same story
        w = self.iask("load " + hx(f)).split(" ")
        _, ads = self.dump()
        now2 = (int(w[1]) + int(w[2])) // 2
        ca = canon(ads)
        if w[0] == "err":
            # a refused dump leaves what was read before the failing point, possibly with keys made of the bytes that were misread after it:
            # those have no name the point reads could ask for — compare their number with what DBSIZE showed, and the generated keys one by one
            junk = [k for k in ca if k not in c0]
            ca = {k: v for k, v in ca.items() if k in c0}
            if len(junk) != extra_keys:
                self.disagreements.append({"what": "refused dump.rdb: the restarted server holds %d keys beyond the generated ones, in-process RdbEngine::load %d" % (extra_keys, len(junk)), "file": hx(f[:2000])})
        near = indet | set(k for k, (dl, _, _) in c0.items() if dl is not None and abs(dl - now2) <= TOL + (now2 - tl0))
        dd = diff(got, ca, near)
        if dd:
            self.disagreements.append({"what": "server restart and in-process RdbEngine::load disagree on the same dump.rdb", "diff": [self.show_diff(x) for x in dd[:4]], "file": hx(f[:2000])})
        if r[0] != w[0]:
            self.disagreements.append({"what": "in-process RdbEngine::load says %s, model decSnapshot says %s on the server's dump.rdb" % (w[0], r[0]), "file": hx(f[:2000])})
        elif r[0] == "ok":
            dd = diff(got, canon(r[3]), indet)
            if dd:
                self.disagreements.append({"what": "server restart and model decSnapshot disagree on the same dump.rdb", "diff": [self.show_diff(x) for x in dd[:4]], "file": hx(f[:2000])})
        else:
            rep.count("tcp.dump-refused-by-loader-and-model")
        return new

    # -- several saves in one server life: the dump is the snapshot of the dataset at the LAST successful SAVE ------------
    def tcp_history(self, steps, name, record=True):
        """steps: ["put", db, "<K … tokens of one key>"] (DEL + create) | ["del", db, keyhex] | ["flushdb", db] | ["flushall"] |
        ["save"] | ["restart", downtime ms].  The model: `state` follows the commands, `saved` is `state` at the last SAVE that answered
        OK (nothing before the first one); every restart must show exactly `saved` — in all 16 databases, nothing more — and goes on
        from there.  Returns the oracle failures not explained by a known finding."""
        import time as _t
        rep = self.rep
        state, saved, universe = {}, {}, {}       # (db, key) -> entry (with "abs": deadline on the wall clock)
        new, nsaves, nrestarts, shapes = [], 0, 0, []
        srv = self._server()
        keep = srv.dir
        try:
            c = srv.client()
            cur = None
            for i, st in enumerate(steps):
                op = st[0]
                if op in ("put", "del", "flushdb") and cur != st[1]:
                    c.cmd("SELECT", st[1])
                    cur = st[1]
                if op == "put":
                    e = parse(["D", str(st[1])] + st[2].split(" "))[0][1][0]
                    self._tcp_put(c, e, name, fresh=False)
                    e = dict(e, abs=self._tcp_deadline(c, e["key"]) if e["dl"] is not None else None)
                    state[(st[1], e["key"])] = e
                    universe[(st[1], e["key"])] = e
                elif op == "del":
                    c.cmd("DEL", unhx(st[2]))
                    state.pop((st[1], unhx(st[2])), None)
                elif op == "flushdb":
                    if c.cmd("FLUSHDB")[0] == "e":
                        raise InternalError("tcp history %s: FLUSHDB refused" % name)
                    state = {k: v for k, v in state.items() if k[0] != st[1]}
                elif op == "flushall":
                    if c.cmd("FLUSHALL")[0] == "e":
                        raise InternalError("tcp history %s: FLUSHALL refused" % name)
                    state = {}
                elif op == "save":
                    if c.cmd("SAVE", timeout=60) != ("s", b"OK"):
                        raise InternalError("tcp history %s: SAVE refused" % name)
                    saved = dict(state)
                    nsaves += 1
                    shapes.append("save:%s" % ("empty" if not saved else "%ddbs" % len(set(k[0] for k in saved))))
                elif op == "restart":
                    c.close()
                    srv.stop(remove=False)
                    _t.sleep(st[1] / 1000.0)
                    tl0 = self._now_ms()
                    srv = self._server(keep_dir=keep)
                    tl1 = self._now_ms()
                    c = srv.client()
                    cur = None
                    by_db = {}
                    for (db, k), e in universe.items():
                        by_db.setdefault(db, []).append(e)
                    got, sizes = self._tcp_read(c, sorted(by_db.items()))
                    c.cmd("SELECT", 0)
                    cur = 0
                    rep.evaluations += 1
                    nrestarts += 1
                    want = {k: (e["abs"], e["ty"], canon_val(e["ty"], e["val"])) for k, e in saved.items()}
                    indet = set(k for k, v in want.items() if v[0] is not None and v[0] <= tl1 + TOL)
                    indet |= set(k for k, e in saved.items() if e["dl"] is not None and e["abs"] is None)
                    self.indeterminate += len(indet)
                    diffs = diff(got, want, indet)
                    for db in range(16):
                        n_want = sum(1 for k in want if k[0] == db)
                        if sizes[db] != n_want and not any(k[0] == db for k in indet):
                            diffs.append(((db, b"*"), "dbsize:%d-instead-of-%d" % (sizes[db], n_want), None, None))
                    case = {"name": name, "kind": "tcp-history", "down": st[1], "history": steps[:i + 1],
                            "ds": [(db, [e for (d2, _k), e in sorted(saved.items()) if d2 == db]) for db in sorted(set(k[0] for k in saved))]}
                    shapes.append("restart:%s" % ("differs" if diffs else "equal"))
                    for dfx in diffs:
                        m = self.classify(dfx, want, tl0, tl1)
                        if m:
                            self.known_hits.setdefault(m, (case, self.show_diff(dfx)))
                            rep.count("known." + m)
                        else:
                            new.append(dfx)
                            if record:
                                self.oracle_failures.append((name, dfx, case, {
                                    "path": "TCP: restart no. %d of a server life with %d saves so far; prescribed: exactly the dataset at the last SAVE that answered OK" % (nrestarts, nsaves)}))
                    # the restarted server goes on from what it loaded; the model from what it had to load
                    state = dict(saved)
                else:
                    raise InternalError("tcp history %s: unknown step %r" % (name, st))
            c.close()
        finally:
            srv.stop(remove=True)
        rep.count("case.tcp-history")
        rep.count("tcp-history.saves", nsaves)
        rep.count("tcp-history.restarts", nrestarts)
        rep.nontrivial(("tcp-history", tuple(shapes)))
        return new

    # -- corrupted files: model loader vs real loader ---------------------------
    def run_file(self, name, f, kind):
        rep = self.rep
        rep.evaluations += 1
        r = self.lean_dec(0, f)        # first pass only for the allocation trace
        if r[2] > (64 << 20) and name != "alloc-256MiB" and not self.facts.get("boundedRead"):
            rep.count("file.skipped-alloc>64MiB")
            self.notes["alloc_over_64MiB_files"] = self.notes.get("alloc_over_64MiB_files", 0) + 1
            return
        a = self.impl.ask("load " + hx(f))
        if a is None or a.startswith("panic"):
            rep.count("file.impl-panic-or-abort")
            self.notes.setdefault("loader_panics", []).append({"file": hx(f[:300]), "name": name, "stderr": (self.impl.stderr_tail or "")[-160:]})
            return
        w = a.split(" ")
        now = (int(w[1]) + int(w[2])) // 2
        r = self.lean_dec(now, f)
        rep.count("file.%s.%s" % (kind, w[0]))
        rep.nontrivial(("file", kind, w[0], r[3] if r[0] == "err" and isinstance(r[3], str) else "ok", min(len(f), 4096).bit_length()))
        if w[0] != r[0]:
            self.disagreements.append({"what": "corrupted file: real loader says %s, model says %s" % (w[0], r[0] + ("" if r[0] == "ok" else " " + str(r[3]))), "name": name, "file": hx(f[:2000])})
            return
        if r[2] >= (1 << 20) and int(w[3]) < r[2] and not self.facts.get("boundedRead"):
            self.disagreements.append({"what": "model allocation trace has %d bytes, real loader's largest request was %s" % (r[2], w[3]), "name": name, "file": hx(f[:200])})
        if w[0] == "ok":
            _, ads = self.dump()
            ca, cm = canon(ads), canon(r[3])
            near = set(k for k in set(ca) | set(cm) for x in (ca.get(k), cm.get(k)) if x and x[0] is not None and abs(x[0] - now) <= TOL)
            dd = diff(ca, cm, near)
            if dd:
                self.disagreements.append({"what": "corrupted file accepted by both, results differ", "name": name, "diff": [self.show_diff(x) for x in dd[:4]], "file": hx(f[:2000])})

    # -- the run ------------------------------------------------------------------
    def corpus(self, r):
        """deterministic cases: witnesses of the findings, all 16 databases, every size boundary"""
        LONG = 100000
        E = lambda key, ty, val, dl=None: {"key": key, "dl": dl, "ty": ty, "val": val}
        cases = []
        # the three deviations (witnesses of the Lean witness lemmas, on the real code)
        cases.append({"name": "expired-during-downtime", "kind": "ttl", "down": 450, "ds": [(0, [
            E(b"k", "S", b"v", 150), E(b"l", "L", [b"a", b"b"], 150), E(b"t", "T", [b"a"], 150), E(b"h", "H", [(b"f", b"v")], 150),
            E(b"z", "Z", [(b"m", FIN(1.0))], 150), E(b"x", "X", [(1, 0, [(b"f", b"v")])], 150),
            E(b"keep", "S", b"w", LONG), E(b"keepl", "L", [b"a"], LONG), E(b"keepz", "Z", [(b"m", FIN(2.0))], LONG), E(b"keepx", "X", [(5, 5, [(b"f", b"v")])], LONG),
            E(b"keeph", "H", [(b"f", b"v")], LONG), E(b"keept", "T", [b"a"], LONG), E(b"nottl", "S", b"x")])]})
        cases.append({"name": "marker-list", "kind": "marker", "ds": [(0, [E(b"k", "L", [MARKER, b"1-0", b"1", b"f", b"v"]), E(b"m", "L", [MARKER]),
                                                                          E(b"ok", "L", [b"a", MARKER]), E(b"s", "S", MARKER), E(MARKER, "T", [MARKER])])]})
        # the rest of the list is not an entry sequence: the loader leaves it unread and then parses it as opcodes -> the whole file is refused
        cases.append({"name": "marker-list-unloadable", "kind": "marker", "ds": [(0, [E(b"n", "L", [MARKER, b"a"]), E(b"other", "S", b"v")])]})
        # the escape rule (finding F23b).  Lists headed by the escape string, in every database, with and without TTL, next to real
        # streams (one with the contents the stream-like lists imitate, the empty stream) — ordinary lists for a tree without the rule
        def stream_neighbours(i):
            return [E(b"x", "X", [(1, 0, [(b"f", b"v")])], LONG if i % 2 else None), E(b"x0", "X", []), E(MARKER, "T", [MARKER, ESCAPE]), E(ESCAPE, "S", MARKER),
                    E(b"tail", "L", [b"a", MARKER, ESCAPE])]
        cases.append({"name": "escape-headed-lists-16dbs", "kind": "escape", "ds": [
            (i, [E(b"e%d" % j, "L", v, LONG if (i + j) % 3 == 0 else None) for j, v in enumerate(ESCAPE_HEADED)] + stream_neighbours(i)) for i in range(16)]})
        # marker-headed lists whose tail reads as stream entries: a tree without the rule loads the dump and turns them into streams
        cases.append({"name": "marker-headed-streamlike-lists-16dbs", "kind": "marker", "ds": [
            (i, [E(b"m%d" % j, "L", v, LONG if (i + j) % 2 == 0 else None) for j, v in enumerate(MARKER_STREAMLIKE)] + stream_neighbours(i)) for i in range(16)]})
        # every reserved head in every database (a tree without the rule refuses this dump as a whole)
        cases.append({"name": "reserved-headed-lists-16dbs", "kind": "marker", "ds": [
            (i, [E(b"r%d" % j, "L", v, LONG if (i + j) % 3 == 1 else None) for j, v in enumerate(MARKER_OTHER + MARKER_STREAMLIKE + ESCAPE_HEADED)] + stream_neighbours(i))
            for i in range(16)]})
        # the deadline passes during the downtime: the pair is read (escape element and all) and the key removed again
        cases.append({"name": "reserved-headed-lists-expired-during-downtime", "kind": "marker", "down": 450, "ds": [(i, [
            E(b"gone%d" % j, "L", v, 150) for j, v in enumerate(ESCAPE_HEADED[:4] + MARKER_STREAMLIKE[:2])] + [
            E(b"keep%d" % j, "L", v, LONG) for j, v in enumerate(ESCAPE_HEADED[:4])] + [E(b"x", "X", [(1, 0, [(b"f", b"v")])], 150), E(b"s", "S", b"v")]) for i in (0, 9)]})
        cases.append({"name": "empty-stream", "kind": "emptystream", "ds": [(3, [E(b"s", "X", []), E(b"t", "X", [(7, 7, [(b"f", b"v")])])])]})
        cases.append({"name": "expired-before-save", "kind": "ttl", "pre": 150, "bytes": False, "ds": [(2, [E(b"gone", "S", b"v", 40), E(b"gonel", "L", [b"a"], 40), E(b"stay", "S", b"w", LONG), E(b"plain", "H", [(b"f", b"v")])])]})
        # keys past their deadline but still stored when the snapshot is taken (nobody touched them; an engine on its own has no sweeper),
        # among many live keys: several per storage shard in three databases
        cases.append({"name": "expired-before-save-many-keys", "kind": "ttl", "pre": 320, "bytes": False, "ds": gen_many_keys(r, [0, 6, 15], 160, 25, 120)})
        cases.append({"name": "empty-dataset", "kind": "empty", "ds": []})
        cases.append({"name": "ttl-survives-downtime", "kind": "ttl", "down": 300, "ds": [(1, [E(b"a", "S", b"v", LONG), E(b"b", "Z", [(b"m", 0)], 2000), E(b"c", "X", [(1, 1, [(b"f", b"v")])], 5000), E(b"d", "L", [b""], 86400000)])]})
        cases.append({"name": "all-16-dbs", "kind": "dbs", "ds": [(i, [E(b"k%d" % i, "SLTHZX"[i % 6], gen_value(r, "SLTHZX"[i % 6]), LONG if i % 3 == 0 else None), E(b"same", "S", b"db%d" % i)]) for i in range(16)]})
        cases.append({"name": "scores", "kind": "scores", "ds": [(0, [E(b"z", "Z", [(b"m%d" % i, b) for i, b in enumerate(SCORES)]), E(b"z1", "Z", [(b"", 0x8000000000000000)])])]})
        cases.append({"name": "stream-id-edges", "kind": "stream", "ds": [(0, [E(b"x", "X", [(0, 1, [(b"a", b"")]), (0, 2, [(b"", b"")]), (1, 0, [(b"a", b"b"), (b"c", b"d")]), (U64, 0, [(MARKER, MARKER)]), (U64, U64, [(b"z", b"\xff")])]),
                                                                               E(b"y", "X", [(1526919030474, 55, [(b"f%d" % i, b"v") for i in range(70)])])])]})
        # string and key lengths
        for n in [0, 1, 63, 64, 16383, 16384, 65536, 70000]:
            cases.append({"name": "strlen-%d" % n, "kind": "strlen", "ds": [(0, [E(b"k", "S", r.bytes(n) if n < 5000 else (r.bytes(251) * (n // 251 + 1))[:n])])]})
        for n in [0, 63, 64, 16383, 16384, 65536]:
            cases.append({"name": "keylen-%d" % n, "kind": "keylen", "ds": [(5, [E((r.bytes(97) * (n // 97 + 1))[:n], "L", [b"a", (b"x" * n)]), E(b"other", "T", [(b"y" * n)])])]})
        # element counts
        for n in [1, 63, 64, 16383, 16384, 65536, 70000]:
            cases.append({"name": "list-count-%d" % n, "kind": "count", "ds": [(0, [E(b"l", "L", [b"", b"a", b"bc"] * (n // 3) + [b"z"] * (n % 3))])]})
        # … and of escape-headed lists: with the rule the declared length is n + 1 (62/63 and 16382/16383 sit on the length-form borders)
        for n in [62, 63, 64, 16382, 16383, 16384]:
            cases.append({"name": "escaped-list-count-%d" % n, "kind": "count", "ds": [(0, [E(b"l", "L", [ESCAPE] + [b"", b"a", MARKER] * ((n - 1) // 3) + [b"z"] * ((n - 1) % 3))])]})
        for n in [0, 1, 63, 64, 300, 16383, 16384, 65536]:
            ds = [E(b"t", "T", n_distinct(n)), E(b"h", "H", [(m, b"v") for m in n_distinct(n)])]
            if n > 0:
                ds.append(E(b"z", "Z", [(m, (i * 0x9E3779B97F4A7C15) & 0x7FEFFFFFFFFFFFFF) for i, m in enumerate(n_distinct(n))]))
            cases.append({"name": "unordered-count-%d" % n, "kind": "count", "ds": [(7, ds)]})
        # stream item totals around the length-form boundaries: 1 + Σ(2 + 2·fields) is odd — 61, 63, 65, 16383, 16385
        for total in [61, 63, 65, 16383, 16385]:
            # entries with one field contribute 4 items, an entry with two fields 6:  4·k + 2 = 4·(k-1) + 6
            n, rest = divmod(total - 1, 4)
            nf = (lambda i, rest=rest: 2 if (rest == 2 and i == 0) else 1)
            es = gen_stream(r, n, nf)
            assert 1 + sum(2 + 2 * len(fs) for _, _, fs in es) == total, total
            cases.append({"name": "stream-items-%d" % total, "kind": "count", "ds": [(9, [E(b"x", "X", es)])]})
        return cases

    def run(self, seed, tier):
        rep = self.rep
        r = Rng(seed)
        for c in self.corpus(r.fork("corpus")):
            self.run_case(c)
        # random datasets: no TTL / long TTL (no sleeping), a few with short TTLs and a real downtime
        n_plain, n_down = (45, 5) if tier == "quick" else (900, 60)
        rr = r.fork("random")
        files = []
        for i in range(n_plain):
            ds = gen_dataset(rr, [None, None, 100000, 3600000, 50000])
            self.run_case({"name": "random-%d" % i, "kind": "random", "ds": ds})
            if i < 3:
                rep.sample({"dataset": tokens(ds)[:300]})
            if i < 25:
                self.iask("populate " + tokens(ds))
                files.append(unhx(self.iask("save").split(" ")[3]))
        for i in range(n_down):
            ds = gen_dataset(rr, [None, 100000, 120, 160, 200])
            self.run_case({"name": "random-downtime-%d" % i, "kind": "random-ttl", "ds": ds, "down": 420})
        # the same through a real server over TCP: all 16 databases, every type, long and short TTLs, a real restart
        LONG = 100000
        tr = r.fork("tcp")
        tds = [(i, [{"key": b"k%d" % i, "dl": [None, LONG, 150][i % 3], "ty": "SLTHZX"[i % 6], "val": gen_value(tr, "SLTHZX"[i % 6])},
                    {"key": b"same", "dl": None, "ty": "S", "val": b"db%d" % i}]) for i in range(16)]
        tds[5][1].append({"key": b"emptystream", "dl": None, "ty": "X", "val": []})
        tds[6][1].append({"key": b"z", "dl": LONG, "ty": "Z", "val": [(b"m%d" % i, b) for i, b in enumerate(SCORES) if b not in (0x8000000000000001,)]})
        tds[7][1].append({"key": b"markerlist", "dl": None, "ty": "L", "val": [MARKER, b"1-0", b"1", b"f", b"v"]})
        tds[8][1].append({"key": b"big", "dl": None, "ty": "S", "val": tr.bytes(16384)})
        # reserved heads a tree without the escape rule still loads (escape-headed: ordinary lists; marker-headed with a stream-like tail)
        for i, v in enumerate(ESCAPE_HEADED):
            tds[9 + i % 7][1].append({"key": b"esc%d" % i, "dl": [None, LONG][i % 2], "ty": "L", "val": v})
        tds[11][1].append({"key": b"markeronly", "dl": LONG, "ty": "L", "val": [MARKER]})
        tds[12][1].append({"key": b"x", "dl": 150, "ty": "X", "val": [(1, 0, [(b"f", b"v")])]})
        tds[12][1].append({"key": b"escgone", "dl": 150, "ty": "L", "val": [ESCAPE, MARKER, b"a"]})
        self.tcp_restart(tds, 450, "tcp-restart-16dbs")
        # every reserved head in every database next to real streams, with TTLs (a tree without the rule refuses this dump)
        rds = [(i, [{"key": b"r%d" % j, "dl": [None, LONG, None][(i + j) % 3], "ty": "L", "val": v} for j, v in enumerate(MARKER_OTHER + MARKER_STREAMLIKE + ESCAPE_HEADED) if (i + j) % 4 == 0 or i == 0] +
                [{"key": b"x", "dl": [LONG, None][i % 2], "ty": "X", "val": [(1, 0, [(b"f", b"v")])]}, {"key": b"x0", "dl": None, "ty": "X", "val": []},
                 {"key": b"gone", "dl": 150, "ty": "L", "val": [MARKER, b"a"]}, {"key": b"same", "dl": None, "ty": "S", "val": b"db%d" % i}]) for i in range(16)]
        self.tcp_restart(rds, 450, "tcp-restart-reserved-heads")
        for i in range(0 if tier == "quick" else 12):
            self.tcp_restart(gen_dataset(tr, [None, LONG, 140, 200]), 420, "tcp-restart-random-%d" % i)
        # keys whose deadline passes shortly BEFORE the SAVE and which nobody touches, among a few hundred live keys per database:
        # with the sweeper paused they are certainly still stored when the snapshot is taken; with the sweeper running some may be
        xr = r.fork("tcp-expired-at-save")
        for i in range(1 if tier == "quick" else 4):
            for paused in (True, False):
                dbs = sorted(set([0, xr.range(1, 14), 15])) if i % 2 == 0 else [xr.below(16)]
                self.tcp_restart(gen_many_keys(xr, dbs, 240 if tier == "quick" else xr.choice([200, 400]), xr.choice([15, 25, 40]), 600), 0,
                                 "tcp-expired-at-save-%d-%s" % (i, "paused" if paused else "sweeping"), pre_ms=820, pause_sweeper=paused, kind="tcp-expired-at-save")
        # several saves in one server life, the dataset changing in between (to a subset, to other databases, to nothing)
        hr = r.fork("tcp-history")
        for i in range(1 if tier == "quick" else 8):
            self.tcp_history(gen_history(hr), "tcp-history-%d" % i)
        # ONE value that takes long to copy (snapshot) and to rebuild (loader), with a TTL, next to a small key with the same TTL:
        # both deadlines must come back to clock granularity — a remaining time measured before the copy / before the value is
        # read and applied after it moves the big key's deadline by that time (hunt C02/d1, repaired by 20f1200)
        vr = r.fork("bigvalue")
        nbig = 60000 if tier == "quick" else 200000
        bigv = [{"key": b"bigz", "dl": 600000, "ty": "Z", "val": [(b"m%07d" % i, (0x3FF0000000000000 + i)) for i in range(nbig)]},
                {"key": b"bigl", "dl": 601000, "ty": "L", "val": [b"e%07d" % i for i in range(nbig)]},
                {"key": b"small", "dl": 600000, "ty": "S", "val": b"v"}]
        self.run_case({"name": "big-value-with-ttl", "kind": "bigvalue", "lean": False, "bytes": False, "spec_py_only": True, "ds": [(vr.below(16), bigv)]})
        # a dump that is loaded and saved again, several times: every deadline in the file must come back as the SAME unix
        # millisecond (a conversion that always rounds one way moves every deadline by a millisecond per SAVE + restart cycle;
        # hunt C09/d4, repaired by 009601a).  One key may move when the thread is preempted between the two clock readings of a
        # conversion; a drift is what moves most keys, all the same way.
        self.resave_case(r.fork("resave"), 3 if tier == "quick" else 10)
        if tier == "thorough":
            # a first database that takes the loader long to read, keys with a TTL after it (later in db 0's file order is not controllable,
            # later databases are): every deadline must come back to clock granularity however long the load has been going on
            br = r.fork("bigfile")
            late = lambda db: [{"key": b"ttl-%s" % t.encode(), "dl": 600000 + 1000 * j, "ty": t, "val": gen_value(br, t, n=2)} for j, t in enumerate("SLTHZX")]
            big = [(0, [{"key": b"%06x" % i, "dl": None, "ty": "S", "val": b"v"} for i in range(400000)]), (1, late(1)), (9, late(9)), (15, late(15))]
            self.run_case({"name": "big-first-db-ttl-keys-late", "kind": "bigfile", "lean": False, "bytes": False, "spec_py_only": True, "ds": big})
        # loader inputs the writer never produces
        for name, f in handmade(self.facts["version"]):
            self.run_file(name, f, "handmade")
        mr = r.fork("mutate")
        for i in range(250 if tier == "quick" else 6000):
            f = mr.choice(files)
            for _ in range(mr.choice([1, 1, 2, 3])):
                f = mutate(mr, f)
            self.run_file("mut-%d" % i, f, "mutated")
        if tier == "thorough":
            # every prefix and every single-byte substitution class of one small dump
            f = files[0][:400]
            for i in range(len(f)):
                self.run_file("prefix-%d" % i, f[:i], "prefix")
                for b in (0x00, 0x01, 0x40, 0x80, 0xC0, 0xFC, 0xFE, 0xFF):
                    self.run_file("subst-%d-%02x" % (i, b), f[:i] + bytes([b]) + f[i + 1:], "subst")


def size_class(n):
    for b in (0, 1, 63, 64, 16383, 16384):
        if n == b:
            return str(b)
    return "<64" if n < 64 else "<16384" if n < 16384 else "<65536" if n < 65536 else ">=65536"


def ttl_class(dl):
    return "none" if dl is None else "short" if dl < 1000 else "long"


LAST_ID = b"__FERROUS_STREAM_LAST_ID__"
_LAST_ID_RE = re.compile(re.escape(bytes([len(LAST_ID)]) + LAST_ID + b"\x01" + b"1") + b"([\x03-\x29])([0-9]+-[0-9]+)\x00")


def mask_last_id(f):
    """The text of a stream's last ID (the pseudo entry after the stream marker, 3c61a3a) is not a component of the RDB model,
    which writes the greatest PRESENT ID there (Model/Rdb.lean `encLastId`): for byte comparisons with the model's file the
    text is blanked on both sides (its length byte included).  That the last ID survives a restart is checked by C15."""
    g = _LAST_ID_RE.sub(lambda m: m.group(0)[:len(LAST_ID) + 3] + b"\x00?\x00" if len(m.group(2)) == m.group(1)[0] else m.group(0), f)
    return g if g == f else g[:-8]          # (the trailing checksum is a sum over the bytes written, the blanked ones included)


def ctime_of(f):
    i = f.find(b"\xfa\x05ctime")
    if i < 0:
        return None
    n = f[i + 7]
    try:
        return int(f[i + 8:i + 8 + n])
    except ValueError:
        return None


def all_findings():
    fs = [f for f in load_known_findings()["open"] if f.get("property") == "C09"]
    if os.path.exists(PENDING):
        have = set(f["id"] for f in fs)
        for f in json.load(open(PENDING)):
            if f.get("property") == "C09" and f["id"] not in have:
                fs.append(f)
    return fs


def shrink_case(c, chk, case):
    """smallest sub-dataset on which an unexplained oracle failure remains"""
    flat = [(db, e) for db, es in case["ds"] for e in es]

    def build(items):
        ds = []
        for db, e in items:
            if not ds or ds[-1][0] != db:
                ds.append((db, []))
            ds[-1][1].append(e)
        return dict(case, ds=ds)

    def fails(items):
        try:
            new, _ = chk.run_case(build(items), record=False)
        except InternalError:
            return False
        return bool(new)

    budget = 12 if case.get("down") or case.get("pre") or len(flat) > 5000 else 60
    items = shrink_list(flat, fails, max_steps=budget)
    # then shrink inside the collections
    for idx in range(len(items)):
        db, e = items[idx]
        if len(e["val"]) > 1:
            for keep in (1, 2, 64, len(e["val"]) // 2, len(e["val"]) * 3 // 4, len(e["val"]) - 1):
                cand = list(items)
                cand[idx] = (db, dict(e, val=e["val"][:keep]))
                if keep < len(e["val"]) and fails(cand):
                    items = cand
                    break
    return build(items)


def shrink_tcp(chk, case, budget=8):
    """fewer keys on which the TCP restart (same waiting time, same sweeper setting) still fails; hash-map order is random per server
    run, so a sub-dataset that happens to pass is simply not taken"""
    flat = [(db, e) for db, es in case["ds"] for e in es]
    tcp = case.get("tcp", {})

    def build(items):
        ds = []
        for db, e in items:
            if not ds or ds[-1][0] != db:
                ds.append((db, []))
            ds[-1][1].append(e)
        return ds

    def fails(items):
        try:
            return bool(chk.tcp_restart(build(items), case.get("down", 0), "shrink", pre_ms=tcp.get("pre_save_wait_ms", 0),
                                        pause_sweeper=tcp.get("sweeper_paused", False), kind=case["kind"], record=False))
        except InternalError:
            return False
    return dict(case, ds=build(shrink_list(flat, fails, max_steps=budget)))


def shrink_history(chk, case, budget=14):
    """fewer steps after which a restart still shows something else than the last saved dataset"""
    def fails(steps):
        try:
            return bool(chk.tcp_history(steps, "shrink", record=False))
        except InternalError:
            return False
    steps = shrink_list(case["history"], fails, max_steps=budget)
    return dict(case, history=steps)


def ensure_server():
    if os.environ.get("VERIF_SERVER_BIN"):
        pass          # sanity test against a separately built server: never build into the shared cache from another source tree
    elif os.path.realpath(REPO) != "/repo" and not os.environ.get("VERIF_CACHE"):
        raise InternalError("FERROUS_REPO is overridden: set VERIF_CACHE too (isolated run) or VERIF_SERVER_BIN to a server built elsewhere (the shared cache is for /repo only)")
    else:
        build_server()


def main(tier, seed):
    rep = Report("C09", tier, seed)
    rep.rule = ("datasets (all six types, binary keys/values incl. the marker and the escape string — as keys, members, and as the FIRST element of lists in every database, "
                "with TTLs, next to real streams —, opcode-like bytes, string/key lengths and element counts "
                "0/1/63/64/16383/16384/65536/70000, scores incl. ±inf/±0/subnormals, stream IDs up to 2^64-1, all 16 databases, no/long/short TTLs) are "
                "put into a real StorageEngine, saved by the real RdbEngine, loaded into a fresh engine after a measured downtime and dumped through the "
                "engine getters (oracle: equals live(t_load, dataset)); the same file is decoded by the Lean model, re-encoded by the Lean model (byte "
                "equality with the real file), and the Lean encoder's file is loaded by the real loader; mutated and hand-made files compare the model "
                "loader with the real loader. Over TCP against the real server (commands, SAVE, restart on the same directory, point reads, DBSIZE of all 16 databases): "
                "datasets of every type in every database; hundreds of keys a database of which a share is past its deadline but still stored at SAVE time "
                "(untouched, sweeper paused and running); server lives with several saves and restarts and the dataset changing in between (subset, other databases, "
                "emptied by FLUSHALL/FLUSHDB/DEL, unsaved changes) where every restart must show exactly the last saved dataset; thorough: a 400 000-key first database "
                "before TTL keys in later databases (deadlines independent of the load time). "
                "distinct = (direction/kind, types, size class of value and key, TTL class, outcome) tuples reached")
    rep.assumptions = [
        "time is modelled in integer milliseconds on one clock; Instant/SystemTime agree up to TOL=%d ms during a case (keys with a deadline that close to the save/load instant are counted as indeterminate, not judged)" % TOL,
        "hash-map iteration order is not modelled: results are compared as canonical (sorted) datasets; the byte-level comparison re-encodes in the real file's own order",
        "sorted-set scores are 8 opaque bytes in the model; NaN scores are excluded (the engine's ordering of NaN is C04's subject)",
        "a stream's last-generated ID and its consumer groups are not part of the dump format and not part of the modelled dataset (the property lists entries, IDs and fields)",
        "the list/zset load loops are summarised (first element, then the rest at once); justified in Model/Rdb.lean and validated by the corrupted-file correspondence",
        "sets/hashes/sorted sets above %d (quick) / %d (thorough) members are checked real->real and Lean-encoder->real-loader only (the model's association-list maps are quadratic); lists, strings and streams are decoded by the model at every size" % (BIG_UNORDERED["quick"], BIG_UNORDERED["thorough"]),
        "bytes are modelled as Nat; the harness sends values < 256 only",
    ]
    facts = source_facts()
    rep.extra["source_facts"] = facts
    ok, log, errs = proof_phase(rep, families=[FAMILY])
    build_harness(FAMILY)
    ensure_server()
    c = C09(rep, facts)
    try:
        c.run(seed, tier)
        rep.traces_validated = rep.evaluations
        findings = all_findings()
        by_match = {f.get("match"): f for f in findings}
        for m, (case, det) in c.known_hits.items():
            if m in by_match:
                rep.known(by_match[m]["id"], by_match[m]["what"])
            else:
                c.oracle_failures.append((case["name"], ((det["db"], det["key"]), m, None, None), case, {"note": "shape '%s' is not a listed finding" % m, "detail": det}))
        fixed_by_source = {"expired-at-load-immortal": facts["dropExpired"], "empty-stream-lost": facts["keepEmptyStream"],
                           "marker-list-as-stream": escape_rule(facts)}
        for f in findings:
            if f.get("match") not in c.known_hits and not fixed_by_source.get(f.get("match"), False):
                rep.violation("known finding %s no longer reproduces although the source still looks unfixed: model/known-findings file is stale" % f["id"],
                              {"finding": f, "obligation": f.get("lean_witness")}, no_input=True)
        if not facts["clockPerKey"]:
            c.disagreements.append({"what": "read_key_value_with_expiry no longer reads the wall clock itself: the model's per-key load instant (decSnapshot d t') "
                                            "is not what the loader uses — deadlines of keys late in a large file slip by the load time of the keys before them"})
        if facts["listEscapeRead"] != facts["listEscapeWrite"]:
            c.disagreements.append({"what": "only one half of the escape rule for lists headed by the stream marker is in rdb.rs (loader: %s, write_key_value: %s): "
                                            "writer and loader no longer agree on the LIST encoding" % (facts["listEscapeRead"], facts["listEscapeWrite"])})
        if facts["listEscapeRepl"] != facts["listEscapeWrite"]:
            c.disagreements.append({"what": "write_key_value and the replication encoder generate_rdb_bytes disagree on the escape rule for lists (%s vs %s): "
                                            "the two writers of the same format differ" % (facts["listEscapeWrite"], facts["listEscapeRepl"])})
        if facts["marker_sites"] < 2:
            c.disagreements.append({"what": "stream marker literal %r not found at both the writer and the loader site of rdb.rs" % MARKER.decode()})
        if getattr(c, "resave_failure", None) and not c.oracle_failures:
            rep.violation(*c.resave_failure)
        elif c.oracle_failures:
            name, dfx, case, info = min(c.oracle_failures, key=lambda x: len(x[2].get("history", ())) * 40 + sum(len(es) for _, es in x[2]["ds"]))
            kind = case.get("kind", "")
            if kind == "tcp-history":
                small = shrink_history(c, case)
                new = c.tcp_history(small["history"], "shrunk", record=False)
                if not new:
                    small, new = case, [dfx]
            elif kind == "tcp-expired-at-save":
                small = shrink_tcp(c, case)
                for _ in range(3):
                    new = c.tcp_restart(small["ds"], small.get("down", 0), "shrunk", pre_ms=case["tcp"]["pre_save_wait_ms"], pause_sweeper=case["tcp"]["sweeper_paused"], kind=kind, record=False)
                    if new:
                        break
                if not new:
                    small, new = case, [dfx]
            elif kind.startswith("tcp"):
                small, new = case, [dfx]
            else:
                small = shrink_case(c, c, case)
                for _ in range(3):          # (which keys a hash-map order dependent failure hits changes from run to run)
                    new, diffs = c.run_case(small, record=False)
                    if new:
                        break
                if not new:
                    small, new = case, [dfx]
            k0 = new[0][1]
            what = ("C09 restart oracle fails: the file written by SAVE is refused by the loader (nothing or only a part of the dataset is restored)"
                    if k0 == "load-failed" else
                    "C09 restart oracle fails: SAVE reported success but wrote no dump file (a restart loads whatever an earlier save left under that name)"
                    if k0 == "no-dump-written" else
                    "C09 restart oracle fails: after SAVE + restart db %s holds another number of keys than the saved dataset (%s)" % (new[0][0][0], k0)
                    if k0.startswith(("dbsize", "extra-keys")) else
                    "C09 restart oracle fails: after SAVE + restart db %s key %s is %s, prescribed %s (%s)" % (
                        new[0][0][0], short(new[0][0][1]), describe(new[0][2]), describe(new[0][3]), k0))
            if kind == "tcp-history":
                what += " — server life with several saves: " + " ".join(st[0] if st[0] not in ("put", "del") else st[0] + ":%d" % st[1] for st in small["history"])[:400]
            elif kind == "tcp-expired-at-save":
                what += " — %d keys, some past their deadline at SAVE time (untouched for %d ms, sweeper %s)" % (
                    sum(len(es) for _, es in small["ds"]), case["tcp"]["pre_save_wait_ms"], "paused" if case["tcp"]["sweeper_paused"] else "running")
            rep.violation(what,
                          {"replay": {"dataset": tokens(small["ds"]), "pre_save_sleep_ms": small.get("pre", 0), "downtime_ms": small.get("down", 0),
                                      "tcp": small.get("tcp"), "history": small.get("history"), "kind": kind,
                                      "diffs": [c.show_diff(x) for x in new[:6]], "case": name, "info": info},
                           "family": FAMILY, "others": [{"case": n, "diff": c.show_diff(d)} for n, d, _, _ in c.oracle_failures[:6]], "lean_errors": errs[:5]})
        elif not ok:
            rep.violation("proof obligations of C09 no longer check", {"theorem_errors": errs[:10], "log_tail": log[-3000:]}, no_input=True)
        elif c.disagreements:
            rep.violation("correspondence Ferrous.Rdb (encSnapshot/decSnapshot) vs RdbEngine::save/load broke (%d disagreements) but the restart oracle holds on everything explored" % len(c.disagreements),
                          {"correspondence": "Ferrous.Rdb.encSnapshot/decSnapshot vs storage::rdb::RdbEngine::{save,load} + StorageEngine", "disagreements": c.disagreements[:10]}, no_input=True)
    finally:
        c.close()
    rep.extra["model_disagreements"] = len(c.disagreements)
    rep.extra["oracle_failures"] = len(c.oracle_failures)
    rep.extra["indeterminate_keys(deadline within TOL of save/load)"] = c.indeterminate
    rep.extra["notes"] = c.notes
    return rep.finish()


def replay(path):
    obj = json.load(open(path))
    rp = obj.get("replay")
    if not rp:
        print("replay file names no input (broken proof obligation / correspondence): re-run ./check C09")
        print(json.dumps({k: obj[k] for k in obj if k in ("what", "theorem_errors", "disagreements", "finding")}, indent=1)[:4000])
        return main(obj.get("tier", "quick"), obj.get("seed", 1))
    rep = Report("C09", "quick", obj.get("seed", 1))
    facts = source_facts()
    build_harness(FAMILY)
    build_driver(FAMILY)
    if rp.get("history") or rp.get("tcp"):
        ensure_server()
    c = C09(rep, facts)
    try:
        ds = parse(rp["dataset"].split(" "))
        if rp.get("history"):
            new = diffs = c.tcp_history(rp["history"], "replay", record=False)
            print("server life: " + json.dumps(rp["history"])[:600])
        elif rp.get("tcp"):
            new = diffs = c.tcp_restart(ds, rp["tcp"].get("downtime_ms", 0), "replay", pre_ms=rp["tcp"].get("pre_save_wait_ms", 0),
                                        pause_sweeper=rp["tcp"].get("sweeper_paused", False), kind=rp.get("kind") or "tcp-restart", record=False)
        else:
            case = {"name": "replay", "kind": "replay", "ds": ds, "pre": rp.get("pre_save_sleep_ms", 0), "down": rp.get("downtime_ms", 0)}
            if sum(len(es) for _, es in ds) > 5000:
                case.update({"lean": False, "bytes": False, "spec_py_only": True})
            new, diffs = c.run_case(case, record=False)
    finally:
        c.close()
    print("dataset: " + rp["dataset"][:600])
    for d in diffs:
        print(("UNEXPLAINED " if d in new else "known-shape ") + json.dumps(c.show_diff(d)))
    if new:
        print("VIOLATION property=C09 replay=%s" % path)
        return 1
    print("OK property=C09 replay no longer fails")
    return 0
