"""C05 — every request gets exactly one reply, in order, and errors are replies.

Deciding artefact: lean/FerrousSpec/Props/C05.lean (for every pipeline, handler and segmentation
the connection loop emits exactly the sequential replies; protocol errors are answered; error text
cannot change framing).  This module ties Model/Conn.lean (`connRun` over `KS.step`) to the real
server: the same request bytes, cut into the same TCP segments, are given to the server and to
the Lean driver `drv_conn`; reply streams are compared frame by frame, and the property's own
oracle (count, order via unique ECHO markers, well-formedness, connection usable afterwards) is
evaluated on the server's byte stream.
"""
import socket
import time

from common import *
from server import Server, Client, Closed, ProtocolError, show_reply
from ks import canon_reply
import ksgen

PID = "C05"
NO_REPLY_FAMILIES = {"SUBSCRIBE", "PSUBSCRIBE", "UNSUBSCRIBE", "PUNSUBSCRIBE", "MONITOR", "SYNC", "PSYNC", "REPLCONF", "BLPOP", "BRPOP",
                     "QUIT", "SHUTDOWN", "SLEEP", "DEBUG", "REPLICAOF", "SLAVEOF", "CLIENT", "CONFIG", "MULTI", "EXEC", "DISCARD", "WATCH", "UNWATCH",
                     "AUTH", "SELECT", "EVAL", "EVALSHA", "SCRIPT", "SAVE", "BGSAVE", "FLUSHALL", "VERIF", "SPOP", "SRANDMEMBER", "RANDOMKEY", "INFO",
                     "LASTSAVE", "MEMORY", "SLOWLOG", "XREADGROUP", "XREAD"}


def enc(args):
    return Client.encode(args)


def segmentations(r, data, n):
    """ways of cutting `data` into TCP segments"""
    out = [[data]]
    if len(data) <= 400:
        out.append([data[i:i + 1] for i in range(len(data))])
    # cuts right inside CRLF pairs
    idx = [i + 1 for i in range(len(data) - 1) if data[i:i + 2] == b"\r\n"]
    if idx:
        cuts = sorted(set(r.choice(idx) for _ in range(min(6, len(idx)))))
        segs, prev = [], 0
        for c in cuts:
            segs.append(data[prev:c])
            prev = c
        segs.append(data[prev:])
        out.append(segs)
    for _ in range(n):
        k = r.range(1, 6)
        cuts = sorted(set(r.below(len(data) + 1) for _ in range(k)))
        segs, prev = [], 0
        for c in cuts:
            segs.append(data[prev:c])
            prev = c
        segs.append(data[prev:])
        out.append([s for s in segs if s] or [data])
    return out


def same_replies(names, got, want):
    """frame-by-frame equality; remaining-time replies are compared through a window (C02 owns the arithmetic)"""
    if len(got) != len(want):
        return False
    for i, (a, b) in enumerate(zip(got, want)):
        if a == b:
            continue
        nm = names[i] if i < len(names) else ""
        ma, mb = re.fullmatch(r"\( i (\d+) \)", a), re.fullmatch(r"\( i (\d+) \)", b)
        if nm in ("TTL", "PTTL") and ma and mb and abs(int(ma.group(1)) - int(mb.group(1))) <= (300 if nm == "PTTL" else 1):
            continue
        return False
    return True


class C05:
    def __init__(self, rep):
        self.rep = rep
        self.srv = Server("c05")
        self.model = lean_driver("conn")
        self.ctl = self.srv.client()
        self.t0 = time.monotonic()
        self.oracle_failures = []
        self.disagreements = []
        self.findings = [f for f in load_known_findings()["open"] if f["property"] == PID]

    def close(self):
        self.ctl.close()
        self.srv.stop()
        self.model.close()

    def now(self):
        return int((time.monotonic() - self.t0) * 1000) + 1000

    def fresh(self):
        if not self.srv.alive():
            self.srv.stop()
            self.srv = Server("c05")
            self.ctl = self.srv.client()
        try:
            self.ctl.cmd("FLUSHALL")
        except (Closed, OSError, TimeoutError):
            try:
                self.ctl = self.srv.client()
                self.ctl.cmd("FLUSHALL")
            except (Closed, OSError, TimeoutError):
                # the process was dying when `alive()` looked (killed by the previous input: the missing replies were
                # recorded there): start a new one
                self.server_deaths = getattr(self, "server_deaths", 0) + 1
                self.srv.stop()
                self.srv = Server("c05")
                self.ctl = self.srv.client()
                self.ctl.cmd("FLUSHALL")
        assert self.model.ask("reset") == "ok"

    def send_segments(self, segs):
        self.last_segs = segs
        c = self.srv.client(timeout=3.0)
        for i, s in enumerate(segs):
            try:
                c.send_raw(s)
            except OSError:
                break          # the server closed the connection (protocol error): the rest cannot be delivered
            if len(segs) > 1 and (len(segs) < 40 or i % 8 == 0):
                time.sleep(0.0005)
        return c

    def read_all(self, c, expect, names):
        """read `expect` replies (or until close/timeout); returns canonical replies and the tail status"""
        got = []
        status = "open"
        try:
            for i in range(expect):
                r = c.read_reply(timeout=3.0)
                got.append(canon_reply(names[i] if i < len(names) else "", r))
        except Closed:
            status = "closed"
        except TimeoutError:
            status = "timeout"
        except ProtocolError as e:
            status = "malformed:" + str(e)[:80]
        return got, status

    def run_pipeline(self, cmds, segs, tag, bad_tail=False):
        """cmds: list of arg lists already encoded into `segs` (bytes segments)."""
        rep = self.rep
        rep.evaluations += 1
        names = [c[0].decode("latin-1").upper() if c and isinstance(c[0], bytes) else "" for c in cmds]
        line = "run %d %s" % (self.now(), "|".join(hx(s) for s in segs))
        m = self.model.ask(line)
        if m is None or m == "bad-op":
            raise InternalError("drv_conn failed on " + line[:200])
        mrep, mstat = m.rsplit(" # ", 1)
        mlist = [] if mrep == "." else mrep.split(" ; ")
        c = self.send_segments(segs)
        expect = len(mlist)
        got, status = self.read_all(c, expect, names)
        # after the expected replies: either the connection is closed (protocol error) or it answers a marker
        tail = "?"
        if status == "open":
            if mstat == "closed":
                try:
                    extra = c.read_reply(timeout=1.0)
                    tail = "extra-reply:" + show_reply(extra)
                except Closed:
                    tail = "closed"
                except TimeoutError:
                    tail = "still-open"
                except ProtocolError as e:
                    tail = "malformed"
            else:
                try:
                    mk = b"mk%d" % rep.evaluations
                    r = c.cmd("ECHO", mk, timeout=3.0)
                    tail = "usable" if r == ("b", mk) else "misaligned:" + show_reply(r)
                except (Closed, OSError):
                    tail = "closed-early"
                except TimeoutError:
                    tail = "wedged"
                except ProtocolError:
                    tail = "malformed"
        c.close()
        det = {"segments": [hx(s) for s in segs], "commands": [[a.decode("latin-1") if isinstance(a, bytes) else str(a) for a in cmd] for cmd in cmds][:40],
               "impl": got, "impl_status": status, "impl_tail": tail, "code": mlist, "code_status": mstat, "tag": tag}
        # ---- the property's oracle on the server's stream
        want_tail = "closed" if mstat == "closed" else "usable"
        ok = (status == "open" and len(got) == expect and tail == want_tail)
        if not ok:
            det["why"] = "expected %d replies then %s; got %d, status %s, then %s" % (expect, want_tail, len(got), status, tail)
            self.oracle_failures.append(det)
        elif not same_replies(names, got, mlist):
            self.disagreements.append(det)
        rep.count("pipeline.%s" % tag)
        rep.count("commands", len(cmds))
        rep.nontrivial((tag, min(len(segs), 8), min(len(cmds), 10), mstat, sum(1 for x in got if x == "( e )") > 0))
        if not self.srv.alive():
            det["why"] = "server process died"
            if det not in self.oracle_failures:
                self.oracle_failures.append(det)
            self.fresh()
        return ok

    # ------------------------------------------------------------------
    def gen_cmd(self, g, r):
        k = r.below(20)
        if k == 0:
            return [b"PING"]
        if k == 1:
            return [b"ECHO", r.choice(ksgen.STR_VALS)]
        if k == 2:
            return [r.choice([b"FOO", b"NOSUCH", b"get\r\n+INJECTED", b"X\r\n$-1", b"", b"\xff\xfe", b"A" * 300])] + [r.choice(ksgen.STR_VALS) for _ in range(r.below(3))]
        if k == 3:
            return [b"PING", b"a", b"b"]
        while True:
            c = g.command()
            if c[0].decode("latin-1").upper() not in ("SPOP", "SRANDMEMBER", "RANDOMKEY", "FLUSHALL", "KEYS"):
                return c

    def pipelines(self, r, n):
        for i in range(n):
            self.fresh()
            g = ksgen.Gen(r.fork("p%d" % i), ksgen.STRING_VOCAB + ksgen.COLL_VOCAB)
            setup = g.setup()
            ncmd = r.choice([1, 2, 3, 5, 8, 20, 60, 200]) if r.chance(1, 4) else r.range(1, 12)
            cmds = setup + [self.gen_cmd(g, r) for _ in range(ncmd)]
            data = b"".join(enc(c) for c in cmds)
            segs = r.choice(segmentations(r, data, 3))
            self.run_pipeline(cmds, segs, "valid")
            if i < 2:
                self.rep.sample({"pipeline": [" ".join(repr(a.decode("latin-1")) for a in c) for c in cmds[:8]], "segments": len(segs)})

    def malformed(self, r, n):
        bads = [b"?garbage\r\n", b"!\r\n", b"*1\r\n$abc\r\n", b"*x\r\n", b"$-5\r\n", b":notint\r\n", b"*2\r\n$3\r\nGET\r\n$1\r\nkX\r\n", b"*-2\r\n", b"@\r\n", b"*1\r\n$3\r\nab\r\n\r\n"]
        for i in range(n):
            self.fresh()
            g = ksgen.Gen(r.fork("m%d" % i), ksgen.STRING_VOCAB)
            cmds = [self.gen_cmd(g, r) for _ in range(r.range(0, 5))]
            data = b"".join(enc(c) for c in cmds) + r.choice(bads)
            segs = r.choice(segmentations(r, data, 3))
            self.run_pipeline(cmds, segs, "protocol-error")
        # nesting beyond the limit through every aggregate type and position: a protocol violation like any other — the commands before
        # it are answered, then ONE error reply, then the connection is closed (and the process is still there)
        for opener in (b"*1\r\n", b"~1\r\n", b">1\r\n", b"%1\r\n+k\r\n", b"%1\r\n", b"|1\r\n+k\r\n", b"*2\r\n:1\r\n"):
            for depth in (200, 60000):
                self.fresh()
                cmds = [[b"ECHO", b"before"]]
                data = enc(cmds[0]) + opener * depth + b":1\r\n"
                self.run_pipeline(cmds, [data], "protocol-error-nesting")
        # frames that are not command arrays but are valid RESP: each gets one error reply
        for fr in [b"+OK\r\n", b":5\r\n", b"$3\r\nabc\r\n", b"*0\r\n", b"*-1\r\n", b"$-1\r\n", b"*1\r\n:5\r\n", b"*2\r\n$4\r\nECHO\r\n:5\r\n", b"*1\r\n*1\r\n$4\r\nPING\r\n", b"_\r\n", b"#t\r\n", b",1.5\r\n"]:
            self.fresh()
            data = enc([b"PING"]) + fr + enc([b"ECHO", b"z"])
            self.run_pipeline([[b"PING"], [fr], [b"ECHO", b"z"]], r.choice(segmentations(r, data, 2)), "non-command-frame")

    def pubsub_pipelines(self, r):
        """SUBSCRIBE-family commands answer with one confirmation per name (at least one), in pipeline order"""
        scen = [
            ([[b"PUBLISH", b"a", b"m"], [b"SUBSCRIBE", b"b"], [b"PING"]], ["i", "subscribe", "PONG"]),
            ([[b"UNSUBSCRIBE"], [b"PING"]], ["unsubscribe", "PONG"]),
            ([[b"PUNSUBSCRIBE", b"x"], [b"PING"]], ["punsubscribe", "PONG"]),
            ([[b"UNSUBSCRIBE", b"x", b"y"], [b"PING"]], ["unsubscribe", "unsubscribe", "PONG"]),
            ([[b"SET", b"k", b"v"], [b"GET", b"k"], [b"SUBSCRIBE", b"a", b"b"], [b"UNSUBSCRIBE"], [b"PING"]], ["OK", "bulk", "subscribe", "subscribe", "unsubscribe", "unsubscribe", "PONG"]),
            ([[b"ECHO", b"1"], [b"PSUBSCRIBE", b"n*"], [b"ECHO", b"2"], [b"PUNSUBSCRIBE"], [b"ECHO", b"3"]], ["bulk", "psubscribe", "bulk", "punsubscribe", "bulk"]),
        ]
        # one confirmation per NAME, whatever mixture of held / not held / repeated names the list is, for all four commands
        for sub, unsub in ((b"SUBSCRIBE", b"UNSUBSCRIBE"), (b"PSUBSCRIBE", b"PUNSUBSCRIBE")):
            ks, ku = sub.decode().lower(), unsub.decode().lower()
            for held, asked in (([b"a*"], [b"a*", b"b*"]), ([b"a*"], [b"b*", b"a*"]), ([b"a*", b"c*"], [b"b*", b"a*", b"d*", b"c*"]), ([b"a*"], [b"a*", b"a*"]),
                                ([b"a*", b"b*"], [b"a*"]), ([], [b"x", b"x", b"y"]), ([b"a*", b"a*"], [b"a*"])):
                cmds = ([[sub] + held] if held else []) + [[b"ECHO", b"mid"], [unsub] + asked, [b"ECHO", b"end"], [sub, b"z1", b"z2", b"z1"], [b"PING"]]
                want = [ks] * len(held) + ["bulk"] + [ku] * len(asked) + ["bulk"] + [ks] * 3 + ["PONG"]
                scen.append((cmds, want))
        # the subscriber context (3da8732): while a connection holds a subscription, anything but (P)SUBSCRIBE, (P)UNSUBSCRIBE,
        # PING and QUIT is answered with an error — still one reply per request, in order.  The expectation follows the source.
        gate = bool(re.search(r"Can't execute", open(os.path.join(REPO, "src", "network", "server.rs"), encoding="utf-8", errors="replace").read()))
        self.rep.count("pubsub-pipeline.subscriber-gate-in-source=%s" % gate)

        def gated(cmds, want):
            if not gate:
                return want
            chans, pats, out, i = set(), set(), [], 0
            for cmd in cmds:
                name = cmd[0].upper()
                if name in (b"UNSUBSCRIBE", b"PUNSUBSCRIBE") and len(cmd) == 1:
                    n = max(len(chans if name == b"UNSUBSCRIBE" else pats), 1)        # one confirmation per name held (at least one)
                else:
                    n = (len(cmd) - 1 if name in (b"SUBSCRIBE", b"PSUBSCRIBE", b"UNSUBSCRIBE", b"PUNSUBSCRIBE") else 1)
                if name not in (b"SUBSCRIBE", b"PSUBSCRIBE", b"UNSUBSCRIBE", b"PUNSUBSCRIBE", b"PING", b"QUIT") and (chans or pats):
                    out.append("error")
                else:
                    out += want[i:i + n]
                if name == b"SUBSCRIBE":
                    chans |= set(cmd[1:])
                elif name == b"PSUBSCRIBE":
                    pats |= set(cmd[1:])
                elif name == b"UNSUBSCRIBE":
                    chans = (chans - set(cmd[1:])) if len(cmd) > 1 else set()
                elif name == b"PUNSUBSCRIBE":
                    pats = (pats - set(cmd[1:])) if len(cmd) > 1 else set()
                i += n
            return out
        scen = [(cmds, gated(cmds, want)) for cmds, want in scen]

        def kind(rp):
            if rp[0] == "a" and rp[1] and rp[1][0][0] == "b":
                return rp[1][0][1].decode("latin-1")
            if rp[0] == "s":
                return rp[1].decode("latin-1")
            return {"b": "bulk", "i": "i", "e": "error"}.get(rp[0], rp[0])
        for cmds, want in scen:
            data = b"".join(enc(c) for c in cmds)
            for segs in segmentations(r, data, 2):
                self.rep.evaluations += 1
                c = self.send_segments(segs)
                got = []
                try:
                    for _ in want:
                        got.append(kind(c.read_reply(timeout=2.0)))
                    extra = "none" if c.nothing_pending(0.05) else "extra-bytes"
                except (Closed, TimeoutError, ProtocolError) as e:
                    extra = type(e).__name__
                c.close()
                self.rep.count("pubsub-pipeline")
                self.rep.nontrivial(("pubsub", tuple(want), len(segs), got == want))
                if got != want or extra != "none":
                    self.oracle_failures.append({"commands": [[a.decode("latin-1") for a in cmd] for cmd in cmds], "segments": [hx(x) for x in segs], "tag": "pubsub",
                                                 "impl": got, "want": want, "why": "SUBSCRIBE-family pipeline: got %s (%s), expected %s" % (got, extra, want)})

    def special_replies(self, r):
        """(i) blocking pops that must answer at once: on a key of the wrong type (an error reply, not a wait) and on a
        non-empty list; (ii) replies larger than the socket buffers (partial writes): the bytes must come back exactly;
        (iii) the raw inline `PING` inside pipelines, in every two-way split"""
        self.fresh()
        c = self.srv.client(timeout=4.0)
        for cmd in ([b"SET", b"str", b"v"], [b"SADD", b"set", b"a"], [b"RPUSH", b"lst", b"x", b"y"]):
            c.cmd(*cmd)
        for name in (b"BLPOP", b"BRPOP"):
            for key, want in ((b"str", "e"), (b"set", "e"), (b"lst", "a")):
                self.rep.evaluations += 1
                t0 = time.time()
                try:
                    rp = c.cmd(name, key, b"2", timeout=1.5)
                    got = rp[0]
                except (Closed, TimeoutError, ProtocolError) as e:
                    got = type(e).__name__
                    c.close()
                    c = self.srv.client(timeout=4.0)
                self.rep.nontrivial(("blocking-immediate", name, want, got == want))
                if got != want:
                    self.oracle_failures.append({"commands": [[name.decode(), key.decode(), "2"]], "segments": [], "tag": "blocking-immediate", "impl": [got],
                                                 "why": "%s %s 2 on a %s must be answered at once with %s; got %s after %.2fs" % (name.decode(), key.decode(), "wrong-type key" if want == "e" else "non-empty list",
                                                                                                                     "an error" if want == "e" else "the element", got, time.time() - t0)})
        c.close()
        # large replies
        big = bytes((i * 131 + 7) % 251 for i in range(3 * 1024 * 1024))
        c = self.srv.client(timeout=20.0)
        c.cmd("SET", "big", big)
        for n, nap in ((2, 0), (3, 0), (12, 0), (40, 0), (12, 1.5)):
            # n replies of 3 MiB each pile up behind the socket buffers; with `nap` the client does not read at all for a while
            self.rep.evaluations += 1
            c.send_raw(enc([b"GET", b"big"]) * n + enc([b"PING"]))
            if nap:
                time.sleep(nap)
                try:
                    o = self.srv.client(timeout=2.0)
                    t0 = time.time()
                    served = o.cmd("PING", timeout=2.0) == ("s", b"PONG") and time.time() - t0 < 0.5
                    o.close()
                except (Closed, TimeoutError, ProtocolError, OSError):
                    served = False
                if not served:
                    self.oracle_failures.append({"commands": [["GET", "big"]] * n + [["PING"]], "segments": [], "tag": "large-replies",
                                                 "why": "while one client's %d MiB of replies were pending, another connection's PING was not answered within 0.5 s" % (3 * n)})
            ok, why = True, ""
            try:
                for i in range(n):
                    rp = c.read_reply(timeout=20.0)
                    if rp != ("b", big):
                        ok, why = False, "reply %d of %d x GET big (3 MiB) differs from the stored value (type %s, %d bytes)" % (i + 1, n, rp[0], len(rp[1]) if len(rp) > 1 and isinstance(rp[1], bytes) else -1)
                        break
                if ok and c.read_reply(timeout=10.0) != ("s", b"PONG"):
                    ok, why = False, "PING after %d large replies not answered with PONG" % n
            except (Closed, TimeoutError, ProtocolError) as e:
                ok, why = False, "reply stream broke after large replies: %s %s" % (type(e).__name__, str(e)[:80])
            self.rep.nontrivial(("large-replies", n, ok))
            if not ok:
                self.oracle_failures.append({"commands": [["GET", "big"]] * n + [["PING"]], "segments": [], "tag": "large-replies", "why": why})
                c.close()
                c = self.srv.client(timeout=20.0)
        c.close()
        # inline PING in pipelines, every two-way split (and byte at a time); compared with the model like any pipeline
        self.fresh()
        for data, cmds in ((b"PING\r\n" + enc([b"ECHO", b"hi"]), [[b"PING"], [b"ECHO", b"hi"]]),
                           (enc([b"ECHO", b"a"]) + b"PING\r\nPING\r\n" + enc([b"ECHO", b"b"]), [[b"ECHO", b"a"], [b"PING"], [b"PING"], [b"ECHO", b"b"]])):
            for cut in range(1, len(data)):
                self.run_pipeline(cmds, [data[:cut], data[cut:]], "inline-ping")
            self.run_pipeline(cmds, [data[i:i + 1] for i in range(len(data))], "inline-ping")

    def blocking_and_scripted(self, r):
        """Requests whose reply is produced later or by a script are requests too: exactly one reply each, in order.
        (a) a blocking pop on 1-3 keys that TIMES OUT is answered with ONE nil, and the commands behind it are answered
        after it, in order; (b) commands pipelined behind a pop that really blocks, and commands sent WHILE the client
        is blocked, are answered after the pop's reply in the order they were sent (served by a push, or timed out);
        (c) replies whose text comes from the client through a script ({ok=…}, {err=…}, error(…)) with CR/LF inside
        are still ONE frame.  Judged by count, order (unique ECHO markers) and framing only."""
        self.fresh()

        def expect(tag, c, want, what, cmds):
            self.rep.evaluations += 1
            got, why = [], None
            try:
                for _ in want:
                    got.append(c.read_reply(timeout=3.0))
                try:
                    extra = c.read_reply(timeout=0.25)
                    why = "an extra reply %s after the %d expected ones" % (show_reply(extra)[:60], len(want))
                except TimeoutError:
                    pass
            except (Closed, OSError):
                why = "connection closed after %d of %d replies" % (len(got), len(want))
            except TimeoutError:
                why = "only %d of %d replies arrived" % (len(got), len(want))
            except ProtocolError as e:
                why = "malformed reply stream: %s" % str(e)[:80]
            if why is None:
                for i, (g, w) in enumerate(zip(got, want)):
                    if w is not None and g != w:
                        why = "reply %d is %s, expected %s" % (i + 1, show_reply(g)[:80], show_reply(w)[:80])
                        break
            self.rep.nontrivial((tag, len(want), why is None))
            self.rep.count("blocking." + tag)
            if why:
                self.oracle_failures.append({"commands": cmds, "segments": [], "tag": tag, "impl": [show_reply(g)[:80] for g in got], "why": "%s: %s" % (what, why)})
            return why is None

        NIL = ("na",)
        # (a) timeouts, 1-3 keys, BLPOP and BRPOP, markers behind in the same write
        for name in (b"BLPOP", b"BRPOP"):
            for nkeys in (1, 2, 3):
                keys = [b"bq%d" % i for i in range(nkeys)]
                c = self.srv.client(timeout=4.0)
                mk1, mk2 = b"m%d-a" % self.rep.evaluations, b"m%d-b" % self.rep.evaluations
                cmds = [[name] + keys + [b"0.15"], [b"ECHO", mk1], [b"ECHO", mk2]]
                c.send_raw(b"".join(enc(x) for x in cmds))
                ok = expect("bpop-timeout-%dkeys" % nkeys, c, [NIL, ("b", mk1), ("b", mk2)],
                            "%s on %d keys that times out, two ECHOs behind it in the same write" % (name.decode(), nkeys), [[a.decode() for a in x] for x in cmds])
                c.close()
        # (b) really blocks; more commands arrive while blocked; then served by a push / timed out
        for name in (b"BLPOP", b"BRPOP"):
            for served in (True, False):
                for behind in (0, 1, 2):
                    c = self.srv.client(timeout=4.0)
                    p = self.srv.client(timeout=4.0)
                    n0 = self.rep.evaluations
                    first = [[b"ECHO", b"f%d-%d" % (n0, i)] for i in range(behind)]
                    second = [[b"ECHO", b"s%d-%d" % (n0, i)] for i in range(2)]
                    head = [name, b"wq", b"0" if served else b"0.4"]
                    c.send_raw(enc(head) + b"".join(enc(x) for x in first))
                    time.sleep(0.15)
                    c.send_raw(b"".join(enc(x) for x in second))          # sent while the client is blocked
                    time.sleep(0.1)
                    if served:
                        p.cmd("RPUSH", "wq", "elem")
                    want = [("a", [("b", b"wq"), ("b", b"elem")]) if served else NIL] + [("b", x[1]) for x in first + second]
                    expect("bpop-%s-behind%d" % ("served" if served else "timeout", behind), c, want,
                           "%s wq that blocks, %d ECHO behind it in the same write, 2 ECHO sent while blocked, then %s" % (name.decode(), behind, "RPUSH from another connection" if served else "the timeout"),
                           [[a.decode() for a in x] for x in [head] + first + second])
                    c.close()
                    p.cmd("DEL", "wq")
                    p.close()
        # (d) the server closes the connection itself (QUIT, protocol violation) while replies are still in its buffer and the
        # client reads late: every reply owed must still arrive, then the close; and QUIT ends the pipeline in every segmentation
        big = bytes((i * 37 + 11) % 253 for i in range(8 * 1024 * 1024))
        p0 = self.srv.client(timeout=20.0)
        p0.cmd("SET", "bigq", big)
        for tail, tname, last in ((enc([b"QUIT"]), "QUIT", ("s", b"OK")), (b"*x\r\n", "malformed frame", "error")):
            for lag in (0.0, 0.5):
                self.rep.evaluations += 1
                c = self.srv.client(timeout=20.0)
                c.send_raw(enc([b"GET", b"bigq"]) * 3 + tail)
                if lag:
                    time.sleep(lag)
                why = None
                try:
                    for i in range(3):
                        rp = c.read_reply(timeout=20.0)
                        if rp != ("b", big):
                            why = "reply %d of 3 x GET (8 MiB) is not the value (type %s)" % (i + 1, rp[0])
                            break
                    if not why:
                        rp = c.read_reply(timeout=10.0)
                        if (last == "error" and rp[0] != "e") or (last != "error" and rp != last):
                            why = "the reply to the %s is %s" % (tname, show_reply(rp)[:60])
                    if not why:
                        try:
                            c.read_reply(timeout=3.0)
                            why = "something follows the reply to the %s" % tname
                        except Closed:
                            pass
                        except TimeoutError:
                            why = "the connection was not closed after the %s" % tname
                except (Closed, OSError):
                    why = "connection closed before all replies arrived (the write buffer was dropped)"
                except (TimeoutError, ProtocolError) as e:
                    why = "reply stream broke: %s" % type(e).__name__
                self.rep.nontrivial(("close-with-pending", tname, lag > 0, why is None))
                self.rep.count("blocking.close-with-pending-replies")
                if why:
                    self.oracle_failures.append({"commands": [["GET", "bigq"]] * 3 + [[tname]], "segments": [], "tag": "close-with-pending",
                                                 "why": "3 x GET of 8 MiB then %s in one write, client starts reading after %.1f s: %s" % (tname, lag, why)})
                c.close()
        p0.cmd("DEL", "bigq")
        for cut in (None, 1, 2):
            self.rep.evaluations += 1
            parts = [enc([b"SET", b"qa", b"1"]), enc([b"QUIT"]), enc([b"SET", b"qa", b"2"]) + enc([b"ECHO", b"late"])]
            segs = [b"".join(parts)] if cut is None else [b"".join(parts[:cut]), b"".join(parts[cut:])]
            c = self.srv.client(timeout=4.0)
            got = []
            try:
                for sg in segs:
                    c.send_raw(sg)
                    time.sleep(0.05)
            except OSError:
                pass
            try:
                while True:
                    got.append(c.read_reply(timeout=1.0))
            except (Closed, TimeoutError, ProtocolError, OSError):
                pass
            val = p0.cmd("GET", "qa")
            ok = got == [("s", b"OK"), ("s", b"OK")] and val == ("b", b"1")
            self.rep.nontrivial(("quit-mid-pipeline", cut, ok))
            if not ok:
                self.oracle_failures.append({"commands": [["SET", "qa", "1"], ["QUIT"], ["SET", "qa", "2"], ["ECHO", "late"]], "segments": [hx(x) for x in segs], "tag": "quit-mid-pipeline",
                                             "why": "QUIT ends the conversation in every segmentation: got replies %s and qa = %s (want +OK +OK and 1)" % ([show_reply(g)[:20] for g in got], show_reply(val))})
            c.close()
        # (e) a malformed frame behind a blocking pop that blocks: the commands before it are still carried out and answered, in order
        for seg2 in (False, True):
            self.rep.evaluations += 1
            c = self.srv.client(timeout=4.0)
            mk = b"mk%d" % self.rep.evaluations
            head = enc([b"BLPOP", b"pe:q", b"0.3"]) + enc([b"SET", b"pe:m", mk]) + enc([b"ECHO", mk])
            if seg2:
                c.send_raw(head)
                time.sleep(0.05)
                c.send_raw(b"*x\r\n")
            else:
                c.send_raw(head + b"*x\r\n")
            ok = expect("error-behind-blocking-pop", c, [NIL, ("s", b"OK"), ("b", mk), None],
                        "BLPOP that times out | SET | ECHO | malformed frame (%s)" % ("two writes" if seg2 else "one write"),
                        [["BLPOP", "pe:q", "0.3"], ["SET", "pe:m", mk.decode()], ["ECHO", mk.decode()], ["<*x>"]]) if False else None
            got, why = [], None
            try:
                for _ in range(4):
                    got.append(c.read_reply(timeout=3.0))
            except (Closed, OSError):
                why = "closed after %d of 4 replies" % len(got)
            except TimeoutError:
                why = "only %d of 4 replies" % len(got)
            except ProtocolError as e:
                why = "malformed: %s" % str(e)[:60]
            if not why and not (got[0] == NIL and got[1] == ("s", b"OK") and got[2] == ("b", mk) and got[3][0] == "e"):
                why = "replies are %s" % [show_reply(g)[:24] for g in got]
            if not why and p0.cmd("GET", "pe:m") != ("b", mk):
                why = "the SET before the malformed frame was not carried out"
            self.rep.nontrivial(("error-behind-blocking-pop", seg2, why is None))
            if why:
                self.oracle_failures.append({"commands": [["BLPOP", "pe:q", "0.3"], ["SET", "pe:m", mk.decode()], ["ECHO", mk.decode()], ["<malformed frame *x>"]], "segments": [], "tag": "error-behind-blocking-pop",
                                             "why": "BLPOP that times out | SET | ECHO | malformed frame in %s: %s (want *-1, +OK, the echo, an error, close)" % ("two writes" if seg2 else "one write", why)})
            c.close()
        # (f) handlers that write straight into the buffer must not overtake earlier replies, however the name is spelled
        for name in (b" SUBSCRIBE", b"subscribe\n", b"\tPSUBSCRIBE", b"UNSUBSCRIBE ", b"PUNSUBSCRIBE\r\n", b"SUBSCRIBE", b"psubscribe", b"SYNC", b"PSYNC"):
            self.rep.evaluations += 1
            c = self.srv.client(timeout=4.0)
            mk = b"first%d" % self.rep.evaluations
            args = [name, b"?", b"-1"] if name.strip().upper() == b"PSYNC" else ([name] if name.strip().upper() == b"SYNC" else [name, b"och"])
            c.send_raw(enc([b"ECHO", mk]) + enc(args))
            why = None
            try:
                rp = c.read_reply(timeout=3.0)
                if rp != ("b", mk):
                    why = "the first frame received is %s, not the reply to the ECHO sent first" % show_reply(rp)[:60]
            except (Closed, TimeoutError, ProtocolError, OSError) as e:
                why = "no reply to the ECHO sent first (%s)" % type(e).__name__
            self.rep.nontrivial(("direct-writer-order", name.strip().upper(), name != name.strip(), why is None))
            if why:
                self.oracle_failures.append({"commands": [["ECHO", mk.decode()], [a.decode("latin-1") for a in args]], "segments": [], "tag": "direct-writer-order",
                                             "why": "ECHO then %r in one write: %s" % (name, why)})
            c.close()
        p0.close()
        # (c) client text in line-type replies produced by scripts
        c = self.srv.client(timeout=4.0)
        evil = b"done\r\n+injected\r\n:42"
        for script, kind in ((b"return {ok=ARGV[1]}", "s"), (b"return {err=ARGV[1]}", "e"), (b"return redis.error_reply(ARGV[1])", None), (b"return redis.status_reply(ARGV[1])", None),
                             (b"error(ARGV[1])", "e"), (b"return redis.call('ECHO', ARGV[1])", "b"), (b"return redis.pcall('NOSUCH' .. ARGV[1])", None)):
            mk = b"mk%d" % self.rep.evaluations
            cmds = [[b"EVAL", script, b"0", evil], [b"ECHO", mk]]
            c.send_raw(b"".join(enc(x) for x in cmds))
            if not expect("script-line-reply", c, [None, ("b", mk)], "EVAL %s with CR/LF in ARGV[1], then ECHO" % script.decode(), [[a.decode("latin-1") for a in x] for x in cmds]):
                c.close()
                c = self.srv.client(timeout=4.0)
        c.close()

    def matrix(self, r, tier):
        """every dispatched command name x {no args, too many args, a key of each type}: exactly one reply each"""
        src = open(os.path.join(REPO, "src", "network", "server.rs"), encoding="utf-8", errors="replace").read()
        names = sorted(set(re.findall(r'^\s*"([A-Z]+)"\s*(?:\|\s*"[A-Z]+"\s*)*=>', src, re.M)))
        names = [n for n in names if n not in NO_REPLY_FAMILIES]
        self.rep.extra["matrix_names"] = len(names)
        keys = [b"k1", b"l", b"s", b"h", b"z", b"x", b"miss"]
        for name in names:
            self.fresh()
            setup = [[b"SET", b"k1", b"v"], [b"RPUSH", b"l", b"a"], [b"SADD", b"s", b"a"], [b"HSET", b"h", b"f", b"v"], [b"ZADD", b"z", b"1", b"m"], [b"XADD", b"x", b"1-1", b"f", b"v"]]
            c = self.srv.client(timeout=3.0)
            for sc in setup:
                c.cmd(*sc)
            variants = [[name.encode()], [name.encode()] + [b"a"] * 9] + [[name.encode(), k] for k in keys] + [[name.encode(), k, b"1"] for k in keys[:3]]
            for v in variants:
                self.rep.evaluations += 1
                try:
                    c.send(*v)
                    mk = b"m%d" % self.rep.evaluations
                    c.send("ECHO", mk)
                    r1 = c.read_reply(timeout=3.0)
                    r2 = c.read_reply(timeout=3.0)
                    ok = r2 == ("b", mk)
                    why = "second reply is not the ECHO marker: %s" % show_reply(r2)
                except (Closed, TimeoutError, ProtocolError, OSError) as e:
                    ok, why = False, "no well-formed reply / connection lost: " + type(e).__name__
                    try:
                        c.close()
                    except Exception:
                        pass
                    if not self.srv.alive():
                        why += " (server died)"
                        self.fresh()
                    c = self.srv.client(timeout=3.0)
                self.rep.count("matrix." + ("ok" if ok else "fail"))
                self.rep.nontrivial(("matrix", name, len(v), ok))
                if not ok:
                    self.oracle_failures.append({"commands": [[a.decode("latin-1") for a in v]], "why": why, "tag": "matrix", "segments": [hx(enc(v))]})
            c.close()


def classify(det, findings):
    for f in findings:
        m = f.get("match", "")
        if m.startswith("cmd:"):
            names = m[4:].split(",")
            if any(c and c[0].upper() in names for c in det.get("commands", [])):
                return f
    return None


def main(tier, seed):
    rep = Report(PID, tier, seed)
    rep.rule = ("pipelines of 1-200 commands (key-space vocabulary, PING/ECHO, unknown names incl. CR/LF and binary, wrong arity, bad numbers, wrong types) cut into TCP segments "
                "(whole, byte-at-a-time, cuts inside CRLF, random); streams ending in a protocol violation; valid RESP frames that are not commands; every dispatched command name x "
                "{no args, too many args, key of each type}. The server's reply stream is compared frame by frame with Lean `connRun` over KS.step for the same segments, and "
                "judged by count/order (unique ECHO markers), well-formedness and usability afterwards. distinct = (tag, #segments, #commands, outcome) tuples")
    rep.assumptions = [
        "command handlers are a parameter of the connection-loop theorems; the instance used for correspondence is KS.step on db 0 plus PING/ECHO",
        "TCP back-pressure paths (partial writes, pending_writes) are exercised only by large pipelines, not modelled",
        "commands whose documented purpose is not one-reply (SUBSCRIBE family, MONITOR, blocking pops, SYNC, QUIT, transactions: C07) are outside the matrix",
    ]
    ok, log, errs = proof_phase(rep, families=["conn", "ks"])
    build_server()
    c = C05(rep)
    r = Rng(seed)
    try:
        scale = 8 if tier == "thorough" else 1

        def phase(name, fn):
            # a server that is gone in the middle of a phase (killed by an input) is an outcome, not an internal error:
            # the phase is abandoned, the death recorded with the last segments sent, and the next phase gets a new server
            try:
                fn()
            except (OSError, Closed, TimeoutError) as e:
                if c.srv.alive():
                    time.sleep(0.3)
                if c.srv.alive():
                    raise
                c.server_deaths = getattr(c, "server_deaths", 0) + 1
                c.oracle_failures.append({"why": "the server process died during phase '%s' (%s); its requests lost their replies" % (name, type(e).__name__),
                                          "last_segments": [hx(x) for x in getattr(c, "last_segs", [])][:50], "server_log_tail": c.srv.log_tail(400)})
                c.srv.stop()
                c.srv = Server("c05")
                c.ctl = c.srv.client()
        phase("pipelines", lambda: c.pipelines(r.fork("valid"), 140 * scale))
        phase("malformed", lambda: c.malformed(r.fork("bad"), 40 * scale))
        phase("pubsub", lambda: c.pubsub_pipelines(r.fork("pubsub")))
        phase("special", lambda: c.special_replies(r.fork("special")))
        phase("blocking+scripted", lambda: c.blocking_and_scripted(r.fork("blk")))
        phase("matrix", lambda: c.matrix(r.fork("matrix"), tier))
    finally:
        c.close()
    rep.traces_validated = rep.evaluations
    rep.extra["server_deaths"] = getattr(c, "server_deaths", 0)
    if getattr(c, "server_deaths", 0) and not c.oracle_failures:
        c.oracle_failures.append({"why": "the server process died %d time(s) during the run (requests lost their replies)" % c.server_deaths})
    new_fail, seen = [], {}
    for det in c.oracle_failures:
        f = classify(det, c.findings)
        if f:
            seen.setdefault(f["id"], f)
        else:
            new_fail.append(det)
    for fid, f in seen.items():
        rep.known(fid, f["what"])
    if new_fail:
        new_fail.sort(key=lambda d: len(json.dumps(d)))
        det = new_fail[0]
        rep.violation("C05: " + det.get("why", "reply stream deviates"), {"replay": det, "family": "conn", "more": [d.get("why") for d in new_fail[1:8]], "lean_errors": errs[:5]})
    elif not ok:
        rep.violation("proof obligations of C05 no longer check against the regenerated model", {"theorem_errors": errs[:10], "log_tail": log[-3000:]}, no_input=True)
    elif c.disagreements:
        rep.violation("correspondence connRun/KS.step vs server broke (%d pipelines) although count, order and framing hold" % len(c.disagreements),
                      {"correspondence": "Ferrous.Conn.connRun over KS.step vs ferrous over TCP", "disagreements": c.disagreements[:5]}, no_input=True)
    rep.extra["model_disagreements"] = len(c.disagreements)
    rep.extra["oracle_failures"] = len(c.oracle_failures)
    return rep.finish()
