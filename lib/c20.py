"""C20 — the RESP codec round-trips and is independent of how bytes are chunked.

Deciding artefact: lean/FerrousSpec/Props/C20.lean (round-trip, prefix
stability, chunking independence, reserve bound — for all frames, byte strings
and chunkings).  This module ties `Ferrous.parseFrame/ser/runChunks` to the
real `parse_resp_frame`, `serialize_to_vec` and `RespParser` (in-process), and
evaluates the property's own oracles on the implementation to find a concrete
failing input when a tie breaks.
"""
import struct

from common import *

ALPHABET = [b"+", b"-", b":", b"$", b"*", b"_", b"#", b",", b"%", b"~", b"\r", b"\n", b"0", b"1", b"9", b"P", b"I"]


# ---------------------------------------------------------------- generators
def gen_bytes(r, small=False):
    k = r.below(10)
    if k == 0:
        return b""
    if k == 1:
        return bytes([r.below(256)])
    if k == 2:
        return b"\r\n"
    if k == 3:
        return r.choice([b"\r", b"\n", b"a\rb", b"a\nb", b"\x00\xff", b"PING", b"PI", b"$5", b"*1"])
    if k == 4 and not small:
        return r.bytes(r.range(60, 80))
    return bytes(r.choice(b"abcxyz019 \t\r\n\x00\xff") for _ in range(r.range(1, 6)))


def gen_line_payload(r):
    """payload of a simple string / error that is well-formed (no CRLF inside)"""
    b = gen_bytes(r, small=True)
    if r.chance(3, 4):
        b = b.replace(b"\r", b"").replace(b"\n", b"")
    return b      # a quarter keep CR/LF: the serializer must write them as spaces (framing safety)


INTS = [0, 1, -1, 9, 10, -10, 99, 100, 255, 256, 65535, 65536, 2**31 - 1, -2**31, 2**31, 2**63 - 1, -2**63, -2**63 + 1, 12345678901234]
DOUBLES = [0.0, -0.0, 1.0, -1.0, 1.5, 0.1, 1e300, 1e-300, 5e-324, 1.7976931348623157e308, float("inf"), float("-inf"), 3.141592653589793, 123456789.125, 2**53 + 0.0, 1e21, 1e-7]


def dbits(x):
    return "%016x" % struct.unpack(">Q", struct.pack(">d", x))[0]


class Frames:
    """Frame trees as Python tuples: ('s',bytes) ('e',bytes) ('i',n) ('b',bytes) ('nb',) ('a',[..]) ('na',)
    ('n',) ('t',) ('f',) ('D',bits) ('m',[flat]) ('S',[..])"""

    def __init__(self, r):
        self.r = r

    def gen(self, depth):
        r = self.r
        k = r.below(14 if depth > 0 else 10)
        if k == 0:
            return ("s", gen_line_payload(r))
        if k == 1:
            return ("e", gen_line_payload(r))
        if k == 2:
            return ("i", r.choice(INTS) if r.chance(2, 3) else r.range(-1000, 1000))
        if k in (3, 4):
            return ("b", gen_bytes(r))
        if k == 5:
            return ("nb",)
        if k == 6:
            return ("na",)
        if k == 7:
            return ("n",)
        if k == 8:
            return (r.choice(["t", "f"]),)
        if k == 9:
            return ("D", dbits(r.choice(DOUBLES)))
        n = r.choice([0, 0, 1, 1, 2, 3, 5])
        if k in (10, 11):
            return ("a", [self.gen(depth - 1) for _ in range(n)])
        if k == 12:
            return ("m", [self.gen(depth - 1) for _ in range(2 * n)])
        return ("S", [self.gen(depth - 1) for _ in range(n)])


def show(f, fmt=None):
    """s-expression; `fmt` maps double bits -> lexeme hex for the Lean side ('d'), None keeps 'D bits'."""
    t = f[0]
    if t in ("s", "e", "b"):
        return "( %s %s )" % (t, hx(f[1]))
    if t == "i":
        return "( i %d )" % f[1]
    if t in ("nb", "na", "n", "t", "f"):
        return "( %s )" % t
    if t == "D":
        return "( d %s )" % fmt(f[1]) if fmt else "( D %s )" % f[1]
    if t in ("a", "m", "S"):
        return "( %s%s )" % (t, "".join(" " + show(x, fmt) for x in f[1]))
    raise ValueError(f)


def sanitized(f):
    """what a frame parses back to: CR/LF in simple-string / error payloads are written as spaces"""
    t = f[0]
    if t in ("s", "e"):
        return (t, f[1].replace(b"\r", b" ").replace(b"\n", b" "))
    if t in ("a", "m", "S"):
        return (t, [sanitized(x) for x in f[1]])
    return f


def canon_lean_frames(s):
    """Lean prints doubles as lexemes `( d hex )`; map to the IEEE bits the impl prints."""
    def rep(m):
        lex = unhx(m.group(1)).decode("ascii", "replace")
        try:
            v = float(lex)
        except ValueError:
            return "( D ?%s )" % m.group(1)
        return "( D %s )" % dbits(v)
    return re.sub(r"\( d (\S+) \)", rep, s)


def canon_nan(s):
    """NaN payload/sign is not compared (both sides agree it is a NaN)."""
    def rep(m):
        b = int(m.group(1), 16)
        if (b >> 52) & 0x7FF == 0x7FF and b & ((1 << 52) - 1):
            return "( D nan )"
        return m.group(0)
    return re.sub(r"\( D ([0-9a-f]{16}) \)", rep, s)


def mutate(r, d):
    k = r.below(9)
    if not d:
        return bytes([r.below(256)])
    i = r.below(len(d))
    if k == 0:
        return d[:i]
    if k == 1:
        return d[:i] + bytes([r.below(256)]) + d[i + 1:]
    if k == 2:
        return d[:i] + r.choice(ALPHABET) + d[i:]
    if k == 3:
        return d[:i] + d[i + 1:]
    if k == 4:
        # change a declared length
        ms = list(re.finditer(rb"[$*%~](-?\d+)\r\n", d))
        if ms:
            m = r.choice(ms)
            n = int(m.group(1))
            nn = r.choice([n + 1, n - 1, 0, -1, -2, 7, 1000, 100000, 10**9, 2**31, 2**62, 2**63 - 1, 2**63, 2**64 - 1, 2**64])
            return d[:m.start(1)] + str(nn).encode() + d[m.end(1):]
        return d + b"\r\n"
    if k == 5:
        j = r.below(len(d))
        return d[:i] + d[j:]
    if k == 6:
        return d + r.choice(ALPHABET) * r.range(1, 3)
    if k == 7:
        return r.choice([b"+", b"-", b"", b" ", b"\r\n", b"\t"]) + d
    return d.replace(b"\r\n", r.choice([b"\n", b"\r", b"\r\r\n", b"\n\r"]), 1)


def chunkings(r, s, n):
    """n random splits of s into <= 5 chunks (plus byte-at-a-time and whole)."""
    out = [[s], [s[i:i + 1] for i in range(len(s))]]
    for _ in range(n):
        k = r.range(1, 4)
        cuts = sorted(set(r.below(len(s) + 1) for _ in range(k)))
        prev, cs = 0, []
        for c in cuts:
            cs.append(s[prev:c])
            prev = c
        cs.append(s[prev:])
        out.append(cs)
    return out


def all_chunkings(s):
    n = len(s)
    for mask in range(1 << max(n - 1, 0)):
        cs, prev = [], 0
        for i in range(1, n):
            if mask >> (i - 1) & 1:
                cs.append(s[prev:i])
                prev = i
        cs.append(s[prev:])
        yield cs


# ---------------------------------------------------------------- the check
class C20:
    def __init__(self, rep):
        self.rep = rep
        self.impl = impl_driver("resp")
        self.model = lean_driver("resp")
        self.sizeof = int(self.impl.ask("sizeof"))
        self.fmt_cache = {}
        self.oracle_failures = []     # (kind, detail dict) : the property itself fails on the implementation
        self.disagreements = []       # impl vs Code model
        self.findings = [f for f in load_known_findings()["open"] if f["property"] == "C20"]

    def fmt(self, bits):
        if bits not in self.fmt_cache:
            self.fmt_cache[bits] = self.impl.ask("fmt " + bits)
        return self.fmt_cache[bits]

    def close(self):
        self.impl.close()
        self.model.close()

    # -- single comparisons ------------------------------------------------
    def both(self, impl_line, model_line=None):
        a = self.impl.ask(impl_line)
        b = self.model.ask(model_line or impl_line)
        if b is None:
            raise InternalError("Lean driver died on: " + (model_line or impl_line))
        return a, b

    def alloc_bound(self, dlen):
        return 2 * self.sizeof * dlen + 4096

    def cmp_parse(self, d, tag):
        """parse one slice on both sides; returns impl answer (canonical)"""
        rep = self.rep
        rep.evaluations += 1
        a, b = self.both("parse " + hx(d))
        # model side: reserve in slots -> "over" predicate
        bw = b.split(" ")
        b_kind, b_res = bw[0], int(bw[-1])
        b_body = canon_nan(canon_lean_frames(" ".join(bw[:-1])))
        model_over = b_res * self.sizeof > self.alloc_bound(len(d))
        if a is None:
            a_kind, a_body, impl_over = "abort", "abort", True
        else:
            aw = a.split(" ")
            a_kind, a_alloc = aw[0], int(aw[-1])
            a_body = canon_nan(" ".join(aw[:-1]))
            impl_over = a_alloc > self.alloc_bound(len(d))
        rep.count("parse." + a_kind)
        rep.nontrivial(("parse", a_kind, tag, impl_over, min(len(d), 40) // 8))
        # Spec oracle (totality / no reservation by unreceived length), judged on the implementation
        if a_kind in ("abort", "panic") or impl_over:
            self.oracle_failures.append(("total", {"op": "parse " + hx(d), "impl": a if a is not None else "process aborted: " + self.impl.stderr_tail[-300:],
                                                   "why": "parser %s / allocation request above %d bytes for %d input bytes" % (a_kind, self.alloc_bound(len(d)), len(d))}))
        # correspondence impl vs Code
        if a_kind in ("abort", "panic"):
            # Code predicts a crash exactly when its reserve is over the bound
            if not model_over:
                self.disagreements.append({"op": "parse " + hx(d), "impl": a_kind, "code": b})
        elif a_body != b_body or impl_over != model_over:
            self.disagreements.append({"op": "parse " + hx(d), "impl": a, "code": b})
        return a_kind, a_body

    def cmp_run(self, chunks, tag):
        rep = self.rep
        rep.evaluations += 1
        line = "run " + "|".join(hx(c) for c in chunks)
        a, b = self.both(line)
        b = canon_nan(canon_lean_frames(b))
        if a is None:
            self.oracle_failures.append(("total", {"op": line, "impl": "process aborted: " + self.impl.stderr_tail[-300:], "why": "incremental parser aborted"}))
            return None
        a = canon_nan(a)
        if a == "panic":
            self.oracle_failures.append(("total", {"op": line, "impl": a, "why": "incremental parser panicked"}))
        elif a != b:
            self.disagreements.append({"op": line, "impl": a, "code": b})
        nev = 0 if a == "." else a.count(" ; ") + 1
        rep.count("run.events", nev)
        rep.nontrivial(("run", tag, min(nev, 6), a.endswith("E"), min(len(chunks), 6)))
        return a

    # -- streams -----------------------------------------------------------
    def roundtrip(self, f):
        rep = self.rep
        rep.evaluations += 1
        a, b = self.both("ser " + show(f), "ser " + show(f, self.fmt))
        rep.count("ser")
        if a != b:
            self.disagreements.append({"op": "ser " + show(f), "impl": a, "code": b})
        if a is None or a in ("panic", "unserializable", "bad-op"):
            self.oracle_failures.append(("roundtrip", {"op": "ser " + show(f), "impl": a, "why": "serializer failed on a serialisable frame"}))
            return None
        enc = unhx(a)
        junk = self.rng.choice([b"", b"", b"+x\r\n", b"\r\n", b"*", bytes([self.rng.below(256)])])
        kind, body = self.cmp_parse(enc + junk, "rt")
        want = "ok %s %d" % (canon_nan(show(sanitized(f))), len(enc))
        if kind in ("ok", "need", "err") and body != want:
            self.oracle_failures.append(("roundtrip", {"op": "parse(ser f ++ junk)", "frame": show(f), "bytes": hx(enc + junk), "impl": body, "want": want,
                                                       "why": "parse(ser f) is not (f, |ser f|)"}))
        rep.nontrivial(("rt", f[0], min(len(enc), 64) // 8))
        return enc

    def chunk_oracle(self, s, css, tag):
        whole = self.cmp_run([s], tag)
        for cs in css:
            got = self.cmp_run(cs, tag)
            if got is not None and whole is not None and got != whole:
                self.oracle_failures.append(("chunking", {"op": "run " + "|".join(hx(c) for c in cs), "whole": whole, "chunked": got,
                                                          "chunks": [hx(c) for c in cs], "why": "chunked feed differs from whole feed"}))

    def corpus(self):
        """minimised past failures and the witnesses of the Lean witness lemmas: run first"""
        self.chunk_oracle(b"PING", [[b"PI", b"NG"], [b"P", b"ING"], [b"PIN", b"G"], [b"P", b"I", b"N", b"G"]], "corpus-ping")
        self.chunk_oracle(b"+OK\r\nPING\r\n", [[b"+OK\r\nPI", b"NG\r\n"], [b"+OK\r\nP", b"ING\r\n"]], "corpus-ping")
        for d in [b"*9223372036854775807\r\n", b"*1000000000\r\n", b"%9223372036854775807\r\n", b"~1000000000000\r\n",
                  b"*4611686018427387904\r\n", b"%18446744073709551615\r\n", b"*3\r\n:1\r\n", b"$9223372036854775807\r\nab", b"$100\r\nab",
                  b"*-2\r\n", b"$-2\r\n", b"*-1\r\n", b"$-1\r\n", b"%-1\r\n", b"~+2\r\n:1\r\n:2\r\n", b"*+1\r\n:+5\r\n", b":-\r\n", b":\r\n",
                  b",nan\r\n", b",-Infinity\r\n", b",1e5\r\n", b",.5\r\n", b",5.\r\n", b",.\r\n", b",1e\r\n", b",+.e1\r\n", b",0x10\r\n", b",1_0\r\n", b", 1\r\n",
                  b"_\r\n", b"_x\n", b"_\r", b"#t\r\n", b"#x\r\n", b"#t\r", b"?\r\n", b"+a\rb\r\n", b"$3\r\nabcde", b"$3\r\nabc\r", b"$0\r\n\r\n", b"*0\r\n",
                  b"*1\r\n" * 50 + b":1\r\n", b"*1\r\n" * 128 + b":1\r\n", b"*1\r\n" * 129 + b":1\r\n", b"*1\r\n" * 130, b"~1\r\n" * 200 + b"_\r\n",
                  b"%1\r\n:1\r\n" * 129, b"*1\r\n" * 5000, b"%1\r\n+a\r\n", b"%1\r\n+a\r\n:1\r\n"]:
            self.cmp_parse(d, "corpus")
        self.chunk_oracle(b" \r\n\t+a\r\n\r\n \t:5\r\n", list(all_chunkings(b" \r\n\t+a\r\n\r\n \t:5\r\n"))[:300], "corpus-ws")

    def run(self, seed, tier):
        rep = self.rep
        r = self.rng = Rng(seed)
        scale = 12 if tier == "thorough" else 1
        self.corpus()
        fr = Frames(r.fork("frames"))
        encs = []
        for i in range(700 * scale):
            f = fr.gen(r.range(0, 4))
            enc = self.roundtrip(f)
            if enc is not None:
                encs.append(enc)
            if i < 3:
                rep.sample({"roundtrip": show(f)})
        # mutated encodings
        mr = r.fork("mut")
        for i in range(5000 * scale):
            d = mr.choice(encs)
            for _ in range(mr.range(1, 3)):
                d = mutate(mr, d)
            self.cmp_parse(d[:4096], "mut")
            if i % 50 == 0:
                # nesting around the limit (MAX_NESTING containers): accepted at the limit, refused beyond, never a crash
                depth = mr.choice([100, 127, 128, 129, 130, 300, 3000])
                self.cmp_parse(mr.choice([b"*1\r\n", b"~1\r\n", b"*2\r\n:1\r\n"]) * depth + mr.choice([b":7\r\n", b"", b"$1\r\nx\r\n"]), "nest")
            if i < 3:
                rep.sample({"parse": hx(d[:80])})
        # every way of nesting, far beyond what a stack can hold: refused at the limit (cheap), never a crash — a level that
        # forgets to count (one aggregate type, one position inside a pair) shows only when the nesting goes through it
        DEEP = 300000
        for opener in (b"*1\r\n", b"~1\r\n", b">1\r\n", b"%1\r\n+k\r\n", b"%1\r\n", b"|1\r\n+k\r\n", b"|1\r\n", b"*2\r\n:1\r\n", b"~2\r\n:1\r\n",
                       b"*1\r\n~1\r\n", b"%1\r\n+k\r\n*1\r\n", b"*1\r\n%1\r\n:1\r\n"):
            for depth in (200, DEEP):
                self.cmp_parse(opener * depth + b":7\r\n", "deep-nest")
        # streams of frames + garbage in random chunkings
        cr = r.fork("chunks")
        for i in range(500 * scale):
            parts = []
            for _ in range(cr.range(1, 5)):
                k = cr.below(10)
                if k < 6:
                    parts.append(cr.choice(encs)[:200])
                elif k == 6:
                    parts.append(cr.choice([b"PING", b"PING\r\n", b"PING \r\n", b"PINGPING", b"PIN", b"PINX"]))
                elif k == 7:
                    parts.append(cr.choice([b"\r\n", b" ", b"\t", b"\r", b"\n\n"]))
                elif k == 8:
                    parts.append(mutate(cr, cr.choice(encs)[:100]))
                else:
                    parts.append(b"*2\r\n$4\r\nECHO\r\n$%d\r\n%s\r\n" % (3, b"a\r\n"))
            s = b"".join(parts)[:600]
            css = chunkings(cr, s, 6) if len(s) > 12 else list(all_chunkings(s))
            if len(s) > 200:
                css = css[:1] + css[2:]          # skip byte-at-a-time on long streams (quadratic re-parse)
            self.chunk_oracle(s, css, "stream")
            if i < 2:
                rep.sample({"run": [hx(c) for c in css[-1]]})
        if tier == "thorough":
            self.exhaustive(5)
        else:
            self.exhaustive(3)

    def exhaustive(self, n):
        """all strings of length <= n over the 17-symbol protocol alphabet, whole and byte-at-a-time
        (model validation; flagged as such)"""
        import itertools
        cnt = 0
        for k in range(1, n + 1):
            for tup in itertools.product(ALPHABET, repeat=k):
                s = b"".join(tup)
                cnt += 1
                self.chunk_oracle(s, [[s[i:i + 1] for i in range(len(s))]], "exh%d" % k)
                self.cmp_parse(s, "exh%d" % k)
        self.rep.extra["exhaustive_small_scope"] = "all %d strings of length <= %d over %d protocol symbols, whole vs byte-at-a-time" % (cnt, n, len(ALPHABET))


def classify(kind, detail, findings):
    """Does this oracle failure match a listed known finding? (by shape, not by property)"""
    for f in findings:
        if f.get("match") == "ping-split" and kind == "chunking":
            # a chunk boundary falls strictly inside an inline PING at a frame start
            joined = b"".join(unhx(c) for c in detail["chunks"])
            if b"PING" in joined and "50494e47" in detail["whole"] and detail["chunked"].endswith("E"):
                return f
        if f.get("match") == "reserve-by-declared-length" and kind == "total":
            d = unhx(detail["op"].split(" ", 1)[1].split("|")[0]) if detail["op"].startswith(("parse", "run")) else b""
            if re.search(rb"[*%~]\+?\d{5,}\r\n", d):
                return f
    return None


def main(tier, seed):
    rep = Report("C20", tier, seed)
    rep.rule = ("frame trees (all 12 constructors, depth<=4) serialised and re-parsed on both sides; mutated encodings; "
                "streams of frames/garbage/inline PING fed in random and exhaustive chunkings; all strings <=3 (quick) / <=5 (thorough) over the "
                "17-symbol protocol alphabet. distinct = (operation, outcome kind, generator tag, size bucket, event count) tuples reached")
    rep.assumptions = [
        "Rust's f64 Display/FromStr are parameters of the model: parse(fmt x) = x for non-NaN x (sampled, not proved)",
        "bytes are modelled as Nat; the harness sends values < 256 only",
        "buffer compaction in RespParser is unobservable and not modelled",
        "the recursion depth of the parser is the nesting budget of the model (MAX_NESTING, regenerated from parser.rs); the stack cost per level is runtime",
    ]
    ok, log, errs = proof_phase(rep, families=["resp"])
    build_harness("resp")
    c = C20(rep)
    try:
        c.run(seed, tier)
    finally:
        c.close()
    rep.traces_validated = rep.evaluations
    # ---- verdict (DESIGN 2.5)
    new_fail = []
    seen_known = {}
    for kind, det in c.oracle_failures:
        f = classify(kind, det, c.findings)
        if f:
            seen_known.setdefault(f["id"], (f, det))
        else:
            new_fail.append((kind, det))
    for fid, (f, det) in seen_known.items():
        rep.known(fid, f["what"])
    # listed findings whose witness no longer fails: the committed proof base is stale
    for f in c.findings:
        if f["id"] not in seen_known:
            rep.violation("known finding %s no longer reproduces: model/known-findings file is stale" % f["id"],
                          {"finding": f, "obligation": f.get("lean_witness")}, no_input=True)
    if new_fail:
        # report the smallest failing input
        new_fail.sort(key=lambda kd: len(json.dumps(kd[1])))
        kind, det = new_fail[0]
        rep.violation("C20 %s oracle fails on the implementation: %s" % (kind, det["why"]),
                      {"replay": det, "family": "resp", "others": [d for _, d in new_fail[1:6]], "lean_errors": errs[:5]})
    elif not ok:
        rep.violation("proof obligations of C20 no longer check against the regenerated model",
                      {"theorem_errors": errs[:10], "log_tail": log[-3000:]}, no_input=True)
    elif c.disagreements:
        rep.violation("correspondence Code.resp vs implementation broke (%d disagreements) but the property oracles hold on everything explored" % len(c.disagreements),
                      {"correspondence": "Ferrous.parseFrame/ser/runChunks vs parse_resp_frame/serialize_to_vec/RespParser",
                       "disagreements": c.disagreements[:10]}, no_input=True)
    rep.extra["model_disagreements"] = len(c.disagreements)
    rep.extra["oracle_failures"] = len(c.oracle_failures)
    return rep.finish()
