#!/usr/bin/env python3
"""Writes MANIFEST.json from the table below (kept in one place so it is always valid)."""
import json
import os

VERIF = os.path.dirname(os.path.dirname(os.path.abspath(__file__)))
BASE = ("cd /repo/$(cat /w/out/cargo_root.txt) && cargo nextest run --workspace --no-fail-fast "
        "--tool-config-file pb:/w/lib/nextest.toml --profile pb --test-threads 8 --offline")
TECH = "Lean 4 theorems over an executable model of the code; model tied to /repo by a source translator (Gen tables) and a differential correspondence run"
TB = ("Trusted: Lean 4.33 kernel (axioms propext, Classical.choice, Quot.sound only, audited per theorem on every run); the hand-written Code.* model, "
      "whose fidelity is established by sampled differential execution against /repo's working tree, not by proof; translator/extract.py; the Python/Rust harness. ")

CLAIMED = {
    "C20": dict(
        text=("Proof: round-trip, prefix stability, chunking independence (all chunkings of all byte strings), consumed bound and the reserve bound are Lean theorems "
              "about a transliteration of parser.rs/serializer.rs; the model is tied to the code by regenerated switches (ping fix, capped reserve) and by "
              "in-process differential execution of serializer, frame parser and incremental parser (60k cases per quick run, allocator-level observation of reservations)."),
        note=TB + "Rust's f64 Display/FromStr are parameters (doubles are lexemes in the model); parser stack depth is runtime behaviour (C06).",
        ref="DESIGN.md section 5 C20, Appendix D1"),
    "C01": dict(
        text=("Proof: failure atomicity for every command and argument list, the uniqueness/typing invariant for every reachable state (induction over histories), "
              "and laws pinning the reference semantics (GET/SET, NX/XX, APPEND, GETRANGE bounds for all integers, INCRBY/DECRBY incl. i64 edges, RENAME with TTL, "
              "DEL/EXISTS, MGET, RANDOMKEY, FLUSHDB/FLUSHALL) are Lean theorems about KS.step; the same executable function is run against the real server over TCP "
              "(13k commands per quick run, every command x existing type, dumps after histories and refused commands)."),
        note=TB + "Numeric argument syntax is Rust's str::parse; error replies compared as 'an error'; TTL expiry timing is C02; zset/stream values are opaque here.",
        ref="DESIGN.md section 5 C01"),
    "C03": dict(
        text=("Proof: refused commands change nothing; after any history no empty list/set/hash is stored and set members / hash fields are unique; LRANGE/LTRIM window "
              "arithmetic for all integers (incl. the stop-before-start case the pinned code got wrong), push/pop order, LREM accounting, set algebra as set theory, "
              "SPOP as a checked relation, HSET upsert/count, HINCRBY overflow - Lean theorems about KS.step, tied to the server by TCP differential histories "
              "(14k commands per quick run, random picks checked as relations)."),
        note=TB + "Replies out of hash maps/sets compared as sorted collections; SINTER's scan order follows Redis.",
        ref="DESIGN.md section 5 C03"),
    "C15": dict(
        text=("Proof: ID monotonicity as a history invariant at full strength for the tree as it is (sequence carry and refusal exactly when no greater ID exists: ids_strictly_increase, auto_refused_iff_no_successor; witness for the pinned wrap), explicit-ID refusal without effect, XRANGE/XREVRANGE = filter "
              "over the sorted entry list for all bounds and counts (the real halving binary search is proved to meet its contract), XREAD = filter >, XLEN = length, "
              "XDEL/XTRIM as filters, ID text parsing; tied to the real Stream and handle_x* handlers in-process (27k evaluations per quick run, source switches detected by regex)."),
        note=TB + "Wall-clock reading is an input of the model; auto IDs are a checked relation; the compare_exchange retry path is assumed not to fire on one thread.",
        ref="DESIGN.md section 5 C15"),
    "C16": dict(
        text=("Proof: the four pending-list representations agree after EVERY history (induction over op lists, incl. XGROUP SETID backwards, explicit-id reads and re-delivery of ids that are already "
              "pending: representations_agree_fixed for the tree as it is since 4e71041), exactly-once delivery under > for every history and start position, XACK counts once / idempotent, XCLAIM moves "
              "ownership, XPENDING (summary, range, range + consumer filter) equals the actual pending set, administration effects and isolation, refused commands change nothing (incl. all-or-nothing multi-stream reads), border ids read literally - 43 Lean theorems over "
              "a transliteration of consumer_groups.rs with nine source switches; every op's reply and the verif_dump of all representations are compared with the model in-process (42k evaluations per quick "
              "run, Spec judged on the implementation's own dumps), through the typed API and the real handle_x* functions, with a real-time layer for idle thresholds and an independent oracle that a refused op leaves every dump unchanged."),
        note=TB + "Source switches (start id, NOACK, reversed range, explicit-id history, re-delivery, consumer filter) are detected by regex in lib/c16.py; idle times are Booleans in the model (real-time layer checks thresholds); handlers are driven in-process, not over TCP.",
        ref="DESIGN.md section 5 C16"),
    "C05": dict(
        text=("Proof: for every pipeline of command frames, every handler and EVERY segmentation of the request bytes the connection loop emits exactly the sequential replies "
              "(same number, order, content, final state, connection open); a protocol violation is answered with an error after the preceding replies and the connection closed; "
              "error/simple-string replies frame correctly whatever bytes their text carries; every reply byte goes out exactly once and in order under EVERY pattern of partial socket writes "
              "(write-buffer model of Connection::flush) - Lean theorems over Model/Conn.lean built on C20's chunking independence; the same "
              "segments are given to the real server and to `connRun` over KS.step and compared frame by frame (pipelines up to 200 commands, byte-at-a-time and CRLF-splitting "
              "segmentations, protocol errors, non-command frames, SUBSCRIBE-family pipelines, every dispatched name x arity/type matrix)."),
        note=TB + "Handlers are a parameter of the theorems; the write path (partial writes, back-pressure) is a separate small model (write_path_delivers_exactly, tied by Gen.writeOffsetAdvances and exercised with multi-megabyte replies), not composed with connRun; blocking pops, MONITOR, SYNC and transactions are judged by their own properties.",
        ref="DESIGN.md section 5 C05"),
    "C06": dict(
        text=("PARTIAL by nature. Proof: every arithmetic site fed by client input that can panic or abort (GETRANGE slice bounds, SETRANGE allocation and its 512 MB limit, "
              "SRANDMEMBER count incl. i64::MIN, EVAL numkeys wrap-around, TTL deadline overflow, LINDEX/LSET/LRANGE/LTRIM windows, parser reservation, consumption and nesting depth) "
              "is modelled in release arithmetic and proved panic-free for ALL arguments; the translator regenerates the inventory of risky constructs from the sources and the table "
              "theorem fails when an unreviewed one appears. Exploration (support and failing-input search, not proof): the arithmetic models are compared with the server on a boundary grid, "
              "and a hostile sweep (119 command names x arities x positions x 50 boundary literals x key types, malformed/absurd/deeply nested frames, 64k inputs per quick run) must "
              "leave the process alive, a fresh connection served and canary data intact; a crash is bisected to one command."),
        note=TB + "Stack cost per level, allocator behaviour under memory pressure, Lua's allocator beyond the 1 GiB script memory limit and lock-order deadlocks cannot be exhibited by a theorem; process liveness is explored, not proved: hostile sweep, split frames, deep nesting through every aggregate, state-left-behind sequences, fourteen runaway / memory-eating scripts on servers with capped address space against the 5 s time limit and the 1 GiB script memory limit.",
        ref="DESIGN.md section 5 C06"),
    "C09": dict(
        text=("Proof: decode(encode) = identity for every length below 2^32 (all three length forms by omega, truncation beyond proved as witness), every byte string, every value of "
              "all six types with arbitrary contents (no exclusion left: lists headed by the internal stream marker round-trip through the escape rule since 8969840), and whole snapshots: decSnapshot(encSnapshot d t) t' = the dataset with exactly the entries still alive at t' (keys expired during "
              "the downtime absent), with an exact characterisation of what the loader makes of any valid dataset and totality of the loader model on every byte string - Lean theorems over a "
              "byte-exact model of rdb.rs; real save/load in-process and one TCP restart per run are compared with the model in both directions (real file -> Lean decoder, Lean encoder -> "
              "real loader, re-encoding byte-equal to the real file), incl. all size boundaries, 16 dbs, TTLs shorter/longer than a measured downtime, off-grammar and mutated files; "
              "a value that takes long to copy and rebuild keeps its deadline to clock granularity (20f1200), a dump loaded and saved again n times keeps every deadline stamp exactly (009601a); "
              "the engine refuses deadlines beyond i64::MAX ms and the loader such files (engine_refuses_unrepresentable_deadline)."),
        note=TB + "A stream's last ID (in the dump since 3c61a3a) is not a component of this model: it writes the greatest present ID in its place, byte comparisons blank that text; its survival is C15's. The list/zset load loops are summarised as 'first element then the rest' (argued, validated on corrupted files, not proved equal to the per-element loop); NaN scores excluded; dumps written before the escape rule load as before (snapshot_load_across_versions).",
        ref="DESIGN.md section 5 C09"),
    "C17": dict(
        text=("Proof: gate totality - for EVERY command name (any byte string), argument list, dispatch function and non-authenticated state the reply is an error and the server state is "
              "unchanged; only the exact password authenticates (iff, for all argument lists); failed AUTH, PING, QUIT are harmless; authentication is per connection over any interleaved "
              "event history; a refused command is refused at any pipeline position; the full statement no_access_without_auth for the order of processing regenerated from server.rs "
              "(pre-gate list empty), with table theorems by decide (allow-list = AUTH/PING/QUIT, nothing acts before the gate, state writers, all 132 dispatched names classified) - "
              "Lean theorems; the real server with --requirepass is driven over TCP with every dispatched and ~125 hostile names x 28 connection situations x 4 pipeline positions, an "
              "authenticated control connection checking for side effects and leaked bytes after every case (10.9k cases)."),
        note=TB + "Dispatch behind the gate is abstract (Honest: never touches the password or promotes a connection; tied to the source by regenerated writer tables); statistics counters are not modelled; the Unicode upper-casing normaliser is exact only for 'equals an ASCII name' (validated dynamically).",
        ref="DESIGN.md section 5 C17"),
    "C07": dict(
        text=("Proof: queued commands have no effect; EXEC = left fold of KS.step over the queue with slot i holding command i's reply (= sending the same commands back to back); "
              "EXEC is ONE transition in every schedule of any number of connections (store after an EXEC event = fold of that connection's queue over the store before it; every reply is "
              "computed at an event boundary); runtime errors stay in their slot (from KS failure atomicity); DISCARD/disconnect are erasures (everyone else's replies and the final dataset are "
              "as if the connection had sent nothing); state is per connection and cleared by EXEC/DISCARD; reachable-state invariant; table theorems tie the processing order to server.rs - "
              "40 Lean theorems; twin-server runs (MULTI..EXEC vs direct), interleaved connections predicted by the model, and a 5 s transfer workload with constant-sum readers over TCP."),
        note=TB + "Atomicity rests on the single-command-thread structure of Server::run (re-checked by the translator's coarse test, supported by the workload); WATCH's outcome is an input here (C08); sweeper/BGSAVE threads are not in this model.",
        ref="DESIGN.md section 5 C07"),
    "C18": dict(
        text=("Proof: frame rule - every command of the key-space machine except FLUSHALL, on any store, leaves every database j != i untouched and its reply depends only on database i; "
              "isolation over arbitrary interleaved multi-connection histories (database j = fold of exactly the commands executed with selection j plus FLUSHALLs) on all four execution "
              "paths (direct, EXEC, script, served blocking pop); SELECT laws for all arguments; selection per connection; FLUSHDB/FLUSHALL; and table theorems by decide on the dispatch table "
              "regenerated from server.rs (every data command is handed the db; EVAL and EVALSHA get it; every dispatched name classified) - 32 Lean theorems; 3 connections over 16 "
              "databases on equal key names through all paths over TCP, all 16 databases dumped and compared after each history (52k evaluations)."),
        note=TB + "WATCH across SELECT is C08's; blocking-pop timeouts and multi-key waits are C13's; scripts use a restricted UTF-8 vocabulary (executor/handler parity is C12's).",
        ref="DESIGN.md section 5 C18"),
    "C02": dict(
        text=("Proof: the storage functions of engine.rs are transliterated with respect to the stored deadline and the index expiring_keys, the sweeper as two phases (collect, delete) interleavable "
              "with any storage call; for the configuration regenerated from the current source (codeCfg: which functions test the deadline lazily, sweeper re-check, four index-maintenance sites) "
              "the full statements are theorems for EVERY interleaving of calls, clock advances and sweeper phases: the machine refines the instant-expiry Spec store (never late: from the deadline on a key "
              "is absent to every function of every type), a key without TTL or with a later one is never deleted by the server on its own (no spurious delete, incl. the collect/delete window), the index "
              "agrees with the stored deadlines, TTL removal by SET/GETSET/MSET/PERSIST, RENAME carries the deadline, in-place modifications keep it, TTL/PTTL reply arithmetic incl. -1/-2 and the "
              "last millisecond - 46 Lean theorems with witness lemmas for the pinned configuration; table theorems by decide tie Gen tables (every pub fn of StorageEngine classified) to the repaired values; "
              "the real server is driven over TCP with the sweeper paused/parked at a gate (every command of every type x before/at/after the deadline, stale-index and window schedules, 120 schedules, 17k evaluations)."),
        note=TB + "Wall-clock instants are inputs of the model (the single instant now = deadline is left to either side; replies compared within a measured window); 'tests the deadline' is read syntactically per function and validated per command dynamically; RDB/AOF interplay with expiry is C09/C11.",
        ref="DESIGN.md section 5 C02"),
    "C08": dict(
        text=("Proof: watch soundness for every history of any number of connections (a marking write to a watched key of the watched database between WATCH and EXEC => EXEC "
              "replies nil and executes nothing), no false abort (an untouched watch set executes), UNWATCH/EXEC/DISCARD forget, per-connection isolation, re-WATCH keeps the first "
              "baseline, SELECT between WATCH and EXEC is safe - Lean theorems over a model of the per-shard tracker and watch lists by induction over event lists; the premise "
              "'every write marks' is a table theorem by decide over the (storage function, key parameter) table regenerated from engine.rs on every run (every pub fn that mutates "
              "passes each key parameter to mark_modified; flush and the sweeper mark; no exception left), so a new write that forgets to mark breaks a proof obligation; "
              "a TCP matrix (every mutating command x every key type x {other connection, same connection, inside EXEC, inside EVAL, sweeper expiry}) mirrors every client command into the model and compares every EXEC."),
        note=TB + "The counter tracker is modelled with unbounded counters (usize wrap of the per-shard counter is out of reach); 'calls mark_modified' is read syntactically and validated path by path dynamically; expiry is an explicit sweeper/lazy-purge event.",
        ref="DESIGN.md section 5 C08"),
    "C10": dict(
        text=("Proof: a save is a list of write calls whose concatenation is C09's snapshot; a save failing at its n-th write, for every n, every call list and every prior content, leaves the "
              "dump name holding exactly what it held, clears the in-progress flag and lets any later save succeed; under every schedule of SAVE/BGSAVE starts, writes, failures and renames the "
              "dump name is absent or holds the complete bytes of one finished save (exclusive variant = the tree since 8728a37; witness for the old one); per-key consistency: with value, TTL and "
              "sorted-set members read under one lock the record written equals a state the key really had, for every interleaving of client commands with the save loop's reads (witnesses for the "
              "two-lock and length-then-items variants); the loader is total on every byte string, consumes at most its input and (bounded variant) never allocates more than it has read plus one chunk - "
              "with the save lock (b09a77b) the same for EVERY saver the server has - SAVE, BGSAVE, the auto-save thread at any moment, SHUTDOWN's unguarded save - waiting in any number and getting the lock in any order, "
              "no hypothesis on the schedule (dump_always_complete_or_absent_locked) - 20 Lean theorems; the real server is driven over TCP with hooks failing the n-th write for EVERY n of a dump, real RLIMIT_FSIZE "
              "failures at every size boundary, parking BGSAVE between its reads while commands run, SAVE during a parked BGSAVE, SHUTDOWN during a background save with SIGKILL at the first rename of the dump name; "
              "the real loader in-process - twice: release arithmetic and the overflow-checked arithmetic of a plain cargo build - on every prefix (what a refused prefix leaves in the engine must be whole keys of "
              "the whole file: clean partial load), on corrupted length fields and counts with an allocation-tracking allocator."),
        note=TB + "File-system semantics (rename atomic, a failed write leaves a prefix) are assumptions of the Sys model; power-loss durability (fsync ordering) is outside; the switches exclusive/atomic/bounded are read from rdb.rs/server.rs by the translator.",
        ref="DESIGN.md section 5 C10"),
    "C11": dict(
        text=("Proof: replay_eq_live - for the logging rule regenerated from the current tree (write-command table, SELECT tracking in append_command_in_db, pops made for blocking clients logged as LPOP/RPOP, "
              "SPOP / XADD * / EVALSHA logged by their effect) EVERY history of the model - all 16 databases, the direct, MULTI/EXEC, script and served-blocking-pop paths, refused commands included - leaves an "
              "append-only file whose replay from empty yields the live dataset (excluding only a random draw made INSIDE a script: recorded finding); the file is exactly the RESP encoding of the log and parses "
              "back to it (on C20's round trip); table theorems by decide: every command of the dispatch table that mutates is in the regenerated write table (no exception left), SELECT is tracked, blocking names "
              "are logged by effect; witness lemmas that each former gap (GETSET/HMSET/PEXPIRE/XREADGROUP missing, no SELECT, unlogged wake pops, verbatim SPOP) broke replay - 40 Lean theorems; the real server runs "
              "with --appendonly yes over TCP: after each history the file is parsed, compared with the model's log, replayed into a fresh server and both datasets dumped and compared (14k evaluations quick, 175k thorough), "
              "binary arguments, 16 dbs, EXEC, scripts, blocking clients, server restart from the file."),
        note=TB + "fsync policy and BGREWRITEAOF are outside the model (the rewrite is a stub in this tree); a torn final entry is cut back to the last complete frame at start-up since c034242 (modelled: truncating_to_the_complete_frames_restores_a_log); removals by expiry are logged as DEL since bc070c5 (replay_eq_live quantifies over histories in which time passes); scripts are logged verbatim (a script that draws at random or reads the clock replays differently: open finding); expiry during replay uses the replay clock.",
        ref="DESIGN.md section 5 C11"),
    "C12": dict(
        text=("Proof: the Lua<->RESP conversion of the prescribed variant is the standard Redis table and round-trips (all frames, all Lua values); KEYS/ARGV arrive bytewise; redis.call(cmd) = the "
              "directly issued command in effect for ALL commands, stores and databases and in reply on the transparent fragment (partial, with decidable fragment and witness lemmas for the four conversion "
              "rows the repo's own tests pin); an erroring call aborts the script, pcall continues, effects of completed calls persist (induction over call programs, failure atomicity from KS); a script "
              "is one step in every schedule and its calls are contiguous; EVALSHA = EVAL, unknown hash refused; blocking/administrative names are refused inside scripts (table theorems by decide over the "
              "block-list regenerated from lua_engine.rs/executor.rs), sandbox globals removed - 36 Lean theorems; twin servers (direct vs wrapped in 8 script wrappers on 5 databases, full dumps after "
              "every command), call programs, return shapes, binary KEYS/ARGV, SCRIPT LOAD+EVALSHA, every refused name in call and pcall over TCP (9.9k evaluations quick, 159k thorough)."),
        note=TB + "Executor/handler parity is measured by the twin run, not proved (executor.rs re-implements the commands; the parity findings of earlier rounds are repaired, see KNOWN_FINDINGS.json; open: the script-only command names); nil-bulk->nil, status->string and false->:0 are pinned by the repo's own tests and stay recorded findings; scripts are cut after 5 s by a count hook (script_cut_keeps_prefix_effects; ten non-terminating shapes run on dedicated servers); Lua's own semantics are trusted.",
        ref="DESIGN.md section 5 C12"),
    "C13": dict(
        text=("Proof: the accounting identity pushed = delivered + lost + stored (multiset) and no duplication for EVERY event history and every variant; FIFO service per key for every history; and for the tree as it is "
              "(`sourceQuirks_repaired`: the repair switches regenerated from server.rs/blocking.rs are on) conservation (nothing lost), no stranded client, registry <-> blocked, no leftover registration, nil never before "
              "the deadline, the timeout does fire, the wake queue is empty at every boundary - by induction with a multi-key invariant over ALL histories in the decidable class AllowedFixed: any number of keys per blocking "
              "pop (duplicates included), any number of elements per push, pops anywhere (pipelined, inside EXEC), blocking pops inside MULTI/EXEC, timeouts, disconnects of non-blocked clients; EXEC atomicity with respect "
              "to blocked clients (`exec_atomic_holds`); each remaining exclusion is shown necessary by a witness, each former defect by a witness lemma replayed on the real server - 40 Lean theorems; random multi-connection "
              "histories (2-key and duplicate-key waits, multi-element pushes, push+pop in one batch under a waiter, BLPOP inside EXEC, timeouts, hang-ups) run on the real server with loop-phase control and are compared with "
              "the model reply by reply; conservation/stranded/registry oracles are judged on the server's own lists and registry dump; scripts and RENAME onto waited keys are probed on the server."),
        note=TB + "PARTIAL: excluded from the theorems is a client whose socket closes while it is blocked and an element is pushed before the server has looked (the element is written to a dead socket: inherent, same in Redis); scripts/RENAME are outside the model's alphabet (server probes only). Promptness is 'by the end of the command'; wall-clock timeout accuracy is tolerance-checked, not proved.",
        ref="DESIGN.md section 5 C13"),
    "C04": dict(
        text=("Proof: the skip-list invariant (level 0 strictly sorted by (score, member), every level a sublist of the one below, key index = level 0, length) for every "
              "operation sequence and every tower height, refinement of insert/remove to the sorted-list Spec, engine-level refinement for ZADD/ZINCRBY/ZREM/ZPOP histories, "
              "query-consistency laws (rank, reverse rank, score ranges, pops) and the rank-window arithmetic for all integers, NaN refusal and all-or-nothing ZADD - Lean "
              "theorems; the real SkipList is compared level by level after every op (verif_dump_levels), the engine functions and the TCP handlers reply by reply (18k evaluations)."),
        note=TB + "Scores are order keys of non-NaN f64 (float addition for ZINCRBY is computed by the harness); the pointer walk is modelled as a list-position walk justified by the invariant; memory safety of the raw-pointer code is out of scope. A multi-member ZADD/ZREM/ZPOPMIN/ZPOPMAX is ONE step of the machine (zadd_is_one_step, zrem_zpop_one_step): this rests on the lock scope read from the source (Gen.zsetOneCall, oneCallOneLock), not on a proof about the Rust locks.",
        ref="DESIGN.md section 5 C04, Appendix D2"),
    "C14": dict(
        text=("Proof: the three subscription maps are mutual inverses after every history, acknowledgement counts, publish = one delivery per matching subscription (reply = their "
              "number), nothing after unsubscribe/disconnect, per-subscriber order, and full correctness of the star-backtracking glob matcher against a declarative semantics - "
              "Lean theorems; PubSubManager compared in-process after every op, the matcher on 480k pairs, and the real server with 4 client sockets over TCP."),
        note=TB + "Mutex behaviour of PubSubManager is not modelled (single command thread); disconnect detection timing is the server's; the TCP layer sends one command at a time.",
        ref="DESIGN.md section 5 C14"),
    "C19": dict(
        text=("Proof: SCAN completeness at FULL strength for the tree as it is (slot cursor since 7022e03): every element present during a whole iteration is returned, for any adds and deletes between "
              "calls, any COUNT, MATCH and TYPE, with no exclusion hypothesis (scan_complete), nothing returned twice (scan_batch_slots), soundness, cursor progress, an explicit termination bound, the batch "
              "bound COUNT + one equal-slot group, HSCAN/SSCAN/ZSCAN as the same walk, and the MATCH matcher refined to glob semantics; the rank-cursor theorems and the witness that the pinned tree lost "
              "elements are kept for the old configuration - 39 Lean theorems, parametric in the hash; every call of full iterations with interleaved adds/deletes is compared with the model in-process "
              "(86k evaluations), incl. names with colliding slots and star-overlap glob families."),
        note=TB + "The cursor scheme is recognised by the translator in all four functions (tree_cursor_scheme_recognised); replies come in hash order; lazy expiry inside scan is C02's.",
        ref="DESIGN.md section 5 C19"),
}

NOT_YET = {}


def main():
    props = [json.loads(l) for l in open(os.path.join(VERIF, "properties.jsonl"))]
    checks, na = [], []
    for p in props:
        pid = p["id"]
        if pid in CLAIMED:
            c = CLAIMED[pid]
            checks.append({
                "property_id": pid,
                "quick_cmd": "./check %s --tier quick" % pid,
                "thorough_cmd": "./check %s --tier thorough" % pid,
                "evidence_file": "/verif/evidence/%s.json" % pid,
                "replay_cmd_template": "./check %s --replay {path}" % pid,
                "engine": "lean-proof+correspondence",
                "level_claimed": {"category": "proof", "text": c["text"], "design_ref": c["ref"]},
                "level_note": c["note"],
                "technique": TECH,
            })
        else:
            na.append({"property_id": pid, "reason": NOT_YET.get(pid, "not claimed yet: model and theorems for this property are still being built (see DESIGN.md section 8); no check is registered until it passes on the unchanged tree")})
    hooks_commits = []
    hp = os.path.join(VERIF, "HOOK_COMMITS.txt")
    if os.path.exists(hp):
        hooks_commits = [l.split()[0] for l in open(hp) if l.strip() and not l.startswith("#")]
    m = {
        "version": 1,
        "setup_cmd": "./setup.sh",
        "hooks": {
            "guard": "cargo feature `verif` (#[cfg(feature = \"verif\")])",
            "enable": "cargo build --features verif (harness/Cargo.toml depends on ferrous with features=[\"verif\"]; lib/common.py build_server passes --features verif)",
            "baseline_off_cmd": BASE,
            "source_commits": hooks_commits,
            "add_only": True,
        },
        "engines": [{
            "name": "lean-proof+correspondence", "path": "/verif/check",
            "serves_properties": [c["property_id"] for c in checks],
            "kind_free_text": "Lean 4 proofs (lean/FerrousSpec/Props) + translator (translator/extract.py) + differential correspondence harness (lib/, harness/)",
        }],
        "checks": checks,
        "not_applicable": na,
        "notes": "Single entry point ./check <id>. KNOWN_FINDINGS.json lists recorded defects and fixed: entries. See DESIGN.md.",
    }
    with open(os.path.join(VERIF, "MANIFEST.json"), "w") as f:
        json.dump(m, f, indent=1)
    print("MANIFEST.json: %d checks, %d not claimed" % (len(checks), len(na)))


if __name__ == "__main__":
    main()
